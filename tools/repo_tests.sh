#!/bin/sh
# Runs the pinned suite of /repo (guard off) and checks: 2995 passed, only the
# baseline's always-failing yash-cli::scripted_test entries fail.
cd "${1:-/repo}" || exit 2
out=$(cargo nextest run --workspace --no-fail-fast --offline 2>&1)
echo "$out" | grep -E "Summary"
other=$(echo "$out" | grep " FAIL " | grep -v "yash-cli::scripted_test" | sort -u)
if [ -n "$other" ]; then echo "UNEXPECTED FAILURES:"; echo "$other"; exit 1; fi
echo "$out" | grep -q "2995 passed" || { echo "pass count differs"; exit 1; }
echo OK
