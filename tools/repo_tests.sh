#!/bin/sh
# Runs the pinned suite of /repo (guard off) and checks: at least the 2995
# baseline tests pass (fix: commits may add tests), and only the baseline's
# always-failing yash-cli::scripted_test entries fail.
cd "${1:-/repo}" || exit 2
out=$(cargo nextest run --workspace --no-fail-fast --offline 2>&1)
echo "$out" | grep -E "Summary"
other=$(echo "$out" | grep " FAIL " | grep -v "yash-cli::scripted_test" | sort -u)
if [ -n "$other" ]; then echo "UNEXPECTED FAILURES:"; echo "$other"; exit 1; fi
n=$(echo "$out" | grep -E "Summary" | grep -oE "[0-9]+ passed" | grep -oE "[0-9]+")
f=$(echo "$out" | grep -E "Summary" | grep -oE "[0-9]+ failed" | grep -oE "[0-9]+")
[ "${n:-0}" -ge 2995 ] || { echo "pass count dropped: $n"; exit 1; }
[ "${f:-0}" -le 99 ] || { echo "failure count rose: $f"; exit 1; }
echo OK
