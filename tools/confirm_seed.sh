#!/bin/sh
# confirm_seed.sh <worktree> <k> : confirms a seeded change delivered by a sub-agent:
#   demo passes at HEAD, patch applies, project builds, demo fails with it,
#   the pinned suite still passes exactly as the baseline, then restores HEAD.
WT=$1; K=$2; S=$WT/_seed/$K
export CARGO_TARGET_DIR=$WT/target CARGO_NET_OFFLINE=true
cd "$WT" || exit 2
git checkout -q -- . ; git status --short | grep -v '^??' && { echo "worktree not clean"; exit 2; }
echo "--- demo at HEAD"; sh "$S/run_demo.sh" >/tmp/seed_head.log 2>&1; H=$?; echo "exit=$H"
git apply "$S/patch.diff" || { echo "patch does not apply"; exit 2; }
echo "--- demo with patch"; sh "$S/run_demo.sh" >/tmp/seed_patch.log 2>&1; P=$?; echo "exit=$P"
echo "--- suite with patch"; /verif/tools/repo_tests.sh "$WT"; T=$?
git checkout -q -- .
git status --short | grep -v '^??'
echo "RESULT head=$H patched=$P suite=$T"
[ "$H" = 0 ] && [ "$P" != 0 ] && [ "$T" = 0 ]
