#!/usr/bin/env python3
"""Regenerates MANIFEST.json from props/*.json and tools/not_applicable.json."""
import glob, json, os
ROOT = os.path.dirname(os.path.dirname(os.path.abspath(__file__)))
checks = []
claimed = set()
CLAIMED = set(json.load(open(os.path.join(ROOT, "tools", "claimed.json"))))
for f in sorted(glob.glob(os.path.join(ROOT, "props", "*.json"))):
    m = json.load(open(f))
    pid = m["id"]
    # only properties the lead has reviewed, run and committed are claimed
    if pid not in CLAIMED:
        continue
    claimed.add(pid)
    checks.append({
        "property_id": pid,
        "quick_cmd": "./check %s --tier quick" % pid,
        "thorough_cmd": "./check %s --tier thorough" % pid,
        "evidence_file": "/verif/evidence/%s.json" % pid,
        "replay_cmd_template": "./check %s --replay {path}" % pid,
        "engine": "coq-model+correspondence",
        "level_claimed": {
            "category": m.get("level", "proof"),
            "text": m["level_text"],
            "design_ref": m.get("design_ref", "DESIGN.md section 5, " + pid),
        },
        "level_note": m["level_note"],
        "technique": m.get("technique", "machine-checked proof in Coq 8.16 about an executable Gallina model; model tied to the code by a lock-step correspondence check evaluated with vm_compute"),
    })
props = [json.loads(l)["id"] for l in open(os.path.join(ROOT, "properties.jsonl"))]
na_reasons = json.load(open(os.path.join(ROOT, "tools", "not_applicable.json")))
na = [{"property_id": p, "reason": na_reasons.get(p, "not built yet: no check is registered for this property in this commit (see DESIGN.md section 5 for the plan)")}
      for p in props if p not in claimed]
manifest = {
    "version": 1,
    "setup_cmd": "./setup.sh",
    "hooks": {
        "guard": "--cfg yash_rs_verif",
        "enable": "no hooks are needed: every observation point is public API; checks build /repo's working tree as path dependencies of /verif/harness",
        "baseline_off_cmd": "cd /repo && cargo nextest run --workspace --no-fail-fast --offline || cargo test --workspace --no-fail-fast --offline",
        "source_commits": [],
        "add_only": True,
    },
    "engines": [{
        "name": "coq-model+correspondence",
        "path": "/verif/check",
        "serves_properties": sorted(claimed),
        "kind_free_text": "Coq 8.16.1 theorems about executable Gallina models (coq/Cxx), tied to /repo on every run by a Rust harness (harness/src/bin/cxx.rs) whose outputs are re-evaluated against the model and the boolean oracle inside Coq (vm_compute)",
    }],
    "checks": checks,
    "notes": "See DESIGN.md. known_findings.json lists open and fixed findings.",
    "not_applicable": na,
}
json.dump(manifest, open(os.path.join(ROOT, "MANIFEST.json"), "w"), indent=1)
print("MANIFEST.json: %d checks, %d not claimed" % (len(checks), len(na)))
