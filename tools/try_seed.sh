#!/bin/sh
# try_seed.sh <PID> <seed-dir-name> [check-id] [tier]: applies /verif/seeded/<name>/patch.diff in a scratch worktree and runs the check against it
PID=$1; NAME=$2; CHK=${3:-$PID}; TIER=${4:-quick}
WT=/tmp/try_$NAME
git -C /repo worktree remove --force $WT 2>/dev/null
git -C /repo worktree add --detach $WT -q || exit 2
git -C $WT apply /verif/seeded/$NAME/patch.diff || { echo "patch does not apply"; git -C /repo worktree remove --force $WT; exit 2; }
LOG=/tmp/try_$NAME.check.log
cd /verif && YV_REPO=$WT ./check $CHK --tier $TIER > $LOG 2>&1
RC=$?
grep -E "VIOLATION|failed|broken" $LOG | head -5
# check_rc: 0 = the check passed on the changed tree (a genuine miss), 1 = violation reported,
# anything else (or 1 without a VIOLATION line) = the trial itself went wrong: try again
echo "check_rc=$RC"
TAG=$(python3 -c "import hashlib;print(hashlib.sha1('$WT'.encode()).hexdigest()[:10])")
ls /verif/.cache/alt/$TAG/replays/$CHK/ 2>/dev/null | head -3
python3 - <<PY
import json,glob
for f in glob.glob('/verif/.cache/alt/$TAG/replays/$CHK/*.json')[:1]:
    d=json.load(open(f)); print('code',d.get('verdict_code'),d.get('meaning'),'|',d.get('kind')); print(json.dumps(d.get('case'))[:600])
PY
git -C /repo worktree remove --force $WT
[ -n "$KEEP_ALT" ] || rm -rf /verif/.cache/alt/$TAG
