#!/bin/bash
# processes /tmp/seedq/*.job (each a shell script) one at a time, forever
while true; do
  j=$(ls /tmp/seedq/*.job 2>/dev/null | head -1)
  if [ -z "$j" ]; then sleep 5; continue; fi
  mv "$j" "$j.run" 2>/dev/null || { sleep 1; continue; }
  bash "$j.run" > "$j.log" 2>&1
  mv "$j.run" /tmp/seedq/done/
done
