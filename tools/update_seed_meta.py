import json,os,re
extra={
'C20-8':"missed at the first trial: no option characters outside ASCII in getopts option strings; every fourth generated option string now uses 2-, 3- and 4-byte characters",
'C09-8':"first trial lost its build directory to a concurrent clean-up of .cache/alt (infrastructure, not the check); caught by the unchanged check when re-tried",
'C16-8':"first trial lost its build directory to a concurrent clean-up of .cache/alt (infrastructure, not the check); caught by the unchanged check when re-tried (and by the new script_scope streams)",
'C17-7':"missed at the first trial: no generated command line started with `command` or a declaration utility; corpus cases added",
'C02-8':"missed at the first trial: no for list with two equal consecutive words and a body that assigns the loop variable; corpus cases added",
'C14-7':"missed at the first trial: quick-tier payloads stopped at 5000 bytes; command substitutions of 65537 bytes (thorough: up to 200001) added",
'C13-7':"first trial ended without a verdict under a load of 50 (infrastructure); the unchanged check catches the builder's re-creation (code 20); every stream now also forks after 0-2 earlier waited-for children",
'C13-8':"missed at the first trial: pipelines only ran with descriptors 0-2 open; stream P (all open/closed layouts of 0,1,2, extra descriptors, 2-5 members) added",
'C14-8':"missed at the first trial: no two overlapping holders of one pipe end; extension in progress",
}
res={}
for l in open('/tmp/seed3_results.log'):
    parts=l.rstrip('\n').split(' ',3)
    name=parts[0]
    if parts[1]=='RETRY': status=parts[2]; detail=parts[3] if len(parts)>3 else ''
    else: status=parts[2]; detail=parts[3] if len(parts)>3 else ''
    res[name]=(status,detail)
for name,(status,detail) in res.items():
    f=f'/verif/seeded/{name}/meta.json'
    if not os.path.exists(f): continue
    m=json.load(open(f)); pid=name.split('-')[0]
    if status=='CAUGHT':
        mm=re.match(r'code (\d+) (.*?) \|',detail) or re.match(r'code (\d+) (.*)',detail)
        m['detected_by']=f"./check {pid} quick: oracle code {mm.group(1)} ({mm.group(2)[:120].strip()})" if mm else f"./check {pid} quick"
    else:
        m['detected_by']=None
    if name in extra: m['missed_before']=extra[name]
    m['confirmed_by_lead']="tools/confirm_seed.sh in the scratch worktree: demo exit 0 at HEAD, non-zero with the patch, suite 3004 passed / same 99 scripted_test failures with the patch"
    json.dump(m,open(f,'w'),indent=1)
print(len(res))
