#!/bin/bash
cd /verif
out=/tmp/seed_regression.log
: > $out
one() {
  s=$1; p=${s%-*}; chk=$p
  case $s in C02-2|C02-5) chk=C17;; esac
  r=$(tools/try_seed.sh $p $s $chk 2>&1)
  if echo "$r" | grep -q "patch does not apply"; then echo "$s NOAPPLY" >> $out
  elif echo "$r" | grep -q "VIOLATION"; then echo "$s CAUGHT $(echo "$r" | grep -E '^code' | cut -c1-100)" >> $out
  else echo "$s MISSED" >> $out; fi
}
for s in $(ls seeded | grep -E "^($1)-"); do
  one $s &
  while [ $(jobs -r | wc -l) -ge 4 ]; do sleep 2; done
done
wait
sort $out -o $out
echo "caught: $(grep -c CAUGHT $out)  missed: $(grep -c MISSED $out)  noapply: $(grep -c NOAPPLY $out)" >> $out
