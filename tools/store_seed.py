#!/usr/bin/env python3
"""store_seed.py <PID> <k> <trigger text> : copies a confirmed seeded change from
/tmp/mut_<PID>/_seed/<k> into /verif/seeded/<PID>-<k>/ with a meta.json."""
import json, os, shutil, sys
pid, k, trigger = sys.argv[1], sys.argv[2], sys.argv[3]
src = os.environ.get("SEED_SRC", f"/tmp/mut_{pid}") + f"/_seed/{k}"
dst = "/verif/seeded/" + os.environ.get("SEED_NAME", f"{pid}-{k}")
shutil.rmtree(dst, ignore_errors=True)
os.makedirs(dst)
for f in os.listdir(src):
    p = os.path.join(src, f)
    if os.path.isfile(p) and os.path.getsize(p) < 200_000 and not f.endswith(".log"):
        shutil.copy(p, dst)
meta = {
    "property": pid,
    "patch": "patch.diff",
    "demonstration": "run_demo.sh (exit 0 = property holds; written by an independent sub-agent that saw only the property text)",
    "needs_to_manifest": trigger,
    "confirmed_by_lead": "tools/confirm_seed.sh in the scratch worktree: demo exit 0 at HEAD, non-zero with the patch, pinned suite 2995 passed / same 99 scripted_test failures with the patch",
    "base_commit": os.popen("git -C /repo rev-parse --short HEAD").read().strip(),
    "detected_by": None,
}
json.dump(meta, open(os.path.join(dst, "meta.json"), "w"), indent=1)
print(dst)
