#!/bin/bash
# retry_seed.sh PID NAME [CHK]
PID=$1; NAME=$2; CHK=${3:-$PID}
t=$(cd /verif && tools/try_seed.sh $PID $NAME $CHK 2>&1 | tail -8)
echo "$t" > /tmp/seed3_$NAME.retry.log
if echo "$t" | grep -q VIOLATION; then echo "$NAME RETRY CAUGHT $(echo "$t" | grep -E '^code' | cut -c1-160)" >> /tmp/seed3_results.log
else echo "$NAME RETRY MISSED" >> /tmp/seed3_results.log; fi
