import json,sys,subprocess,glob,os
pid=sys.argv[1]; n=sys.argv[2]
props={json.loads(l)['id']:json.loads(l) for l in open('/verif/properties.jsonl')}
p=props[pid]
wt=f'/tmp/mut3_{pid}'
subprocess.run(['git','-C','/repo','worktree','remove','--force',wt],capture_output=True)
subprocess.run(['git','-C','/repo','worktree','add','--detach',wt,'-q'],check=True)
t=open('/verif/tools/mutation_prompt.txt').read()
anch=p['anchors']; 
if not isinstance(anch,str): anch=json.dumps(anch)
t=t.replace('@@WT@@',wt).replace('@@ID@@',pid).replace('@@TITLE@@',p['title']).replace('@@STATEMENT@@',p['statement']+' QUANTIFIER: '+str(p.get('quantifier',''))).replace('@@N@@',n).replace('@@ANCHORS@@',anch)
prev=[]
for m in sorted(glob.glob(f'/verif/seeded/{pid}-*/meta.json')):
    prev.append('- '+json.load(open(m))['needs_to_manifest'])
t+='\n\nEarlier rounds already produced changes with the following triggers; yours must use DIFFERENT mechanisms and triggers (different functions, different kinds of input/sequence):\n'+'\n'.join(prev)+'\n\nTime box: about 50 minutes in total. If a candidate change turns out to be caught by the existing suite, drop it and try another rather than polishing it. Running the whole suite takes several minutes; run it once for the baseline and once per final candidate.'
open(f'/tmp/mut3_{pid}_prompt.txt','w').write(t)
print(wt, len(t))
