#!/usr/bin/env python3
"""Runs every translator registered in props/*.json (regenerates coq/Gen/*.v from /repo)."""
import glob, json, os, subprocess, sys
ROOT = os.path.dirname(os.path.dirname(os.path.abspath(__file__)))
seen = set()
rc = 0
for f in sorted(glob.glob(os.path.join(ROOT, "props", "*.json"))):
    for g in json.load(open(f)).get("gen", []):
        key = (g["script"], tuple(g.get("args", [])))
        if key in seen:
            continue
        seen.add(key)
        r = subprocess.run(["python3", os.path.join(ROOT, g["script"])] + g.get("args", []))
        rc = rc or r.returncode
sys.exit(rc)
