#!/bin/bash
# proc_seed.sh PID k NEWNAME "trigger": confirm, store, try against the check; appends to /tmp/seed3_results.log
PID=$1; K=$2; NAME=$3; TRIG=$4; CHK=${5:-$PID}
WT=/tmp/mut3_$PID
r=$(/verif/tools/confirm_seed.sh $WT $K 2>&1 | tail -3)
if echo "$r" | grep -q "RESULT head=0 patched=[1-9][0-9]* suite=0"; then
  SEED_SRC=$WT SEED_NAME=$NAME python3 /verif/tools/store_seed.py $PID $K "$TRIG" >/dev/null
  t=$(cd /verif && tools/try_seed.sh $PID $NAME $CHK 2>&1 | tail -8)
  if echo "$t" | grep -q VIOLATION; then echo "$NAME CONFIRMED CAUGHT $(echo "$t" | grep -E '^code' | cut -c1-160)" >> /tmp/seed3_results.log
  else echo "$NAME CONFIRMED MISSED" >> /tmp/seed3_results.log; fi
  echo "$t" > /tmp/seed3_$NAME.try.log
else
  echo "$NAME NOTCONFIRMED $(echo $r | tr '\n' ' ')" >> /tmp/seed3_results.log
fi
