#!/usr/bin/env python3
"""C07: regenerates coq/Gen/Gen_C07.v from yash-quote/src/lib.rs.

Reads the decision tables of the quoter out of the source:
  * the characters `char_needs_quoting` lists explicitly (its `match` arms),
  * the characters `str_needs_quoting` treats specially at the start (`#`, `~`),
    the two-character needle (`:~`) and the open/close pairs (`{`..`}`, `[`..`]`),
  * the character that selects the double-quoted form (`'`),
  * the characters `Display for Quoted` escapes inside double quotes.
coq/C07/GenTie.v proves that the hand-written model (C07/Model.v) uses exactly
these tables, so the round-trip theorems are re-checked against what the code
says now.  The translator fails closed: the shape of the three functions is
compared with a normalised skeleton and anything it does not understand is an
error (a broken obligation for ./check C07).

Honours YV_REPO (default /repo).  Writes the file only if its content changed.
"""
import os
import re
import sys

REPO = os.environ.get("YV_REPO", "/repo")
SRC = os.path.join(REPO, "yash-quote", "src", "lib.rs")
OUT = os.path.join(os.path.dirname(os.path.dirname(os.path.abspath(__file__))), "coq", "Gen", "Gen_C07.v")

ESC = {"\\\\": "\\", "\\'": "'", '\\"': '"', "\\n": "\n", "\\t": "\t", "\\r": "\r", "\\0": "\0"}


def fail(msg):
    sys.stderr.write("c07_quote.py: %s\n" % msg)
    sys.exit(1)


CHAR_LIT = r"'(?:\\.|[^'\\])'"


def char_value(lit):
    body = lit[1:-1]
    if body in ESC:
        return ord(ESC[body])
    if body.startswith("\\"):
        fail("unsupported character escape %s" % lit)
    if len(body) != 1:
        fail("not a character literal: %s" % lit)
    return ord(body)


def strip_comments(text):
    out = []
    for line in text.split("\n"):
        s = line.lstrip()
        if s.startswith("//"):
            continue
        out.append(line)
    return "\n".join(out)


def function_body(text, header_re):
    m = re.search(header_re, text)
    if not m:
        fail("cannot find %s in %s" % (header_re, SRC))
    i = text.index("{", m.end() - 1)
    depth, j = 0, i
    in_char = False
    while j < len(text):
        c = text[j]
        # skip character literals such as '{' so that braces in them do not count
        mm = re.match(CHAR_LIT, text[j:])
        if mm:
            j += len(mm.group(0))
            continue
        if c == '"':
            k = j + 1
            while text[k] != '"':
                k += 2 if text[k] == "\\" else 1
            j = k + 1
            continue
        if c == "{":
            depth += 1
        elif c == "}":
            depth -= 1
            if depth == 0:
                return text[i + 1:j]
        j += 1
    fail("unbalanced braces after %s" % header_re)


def norm(s):
    return re.sub(r"\s+", " ", s).strip()


def main():
    try:
        text = open(SRC, encoding="utf-8").read()
    except OSError as e:
        fail(str(e))
    # only the code before the unit tests
    cut = text.find("#[cfg(test)]")
    code = strip_comments(text[:cut] if cut >= 0 else text)

    # ---- char_needs_quoting -------------------------------------------------
    body = norm(function_body(code, r"fn char_needs_quoting\(c: char\) -> bool \{"))
    m = re.fullmatch(r"match c \{ (.*) _ => c\.is_whitespace\(\), \}", body)
    if not m:
        fail("char_needs_quoting is not `match c { <chars> => true, ... _ => c.is_whitespace(), }`: %r" % body)
    arms = m.group(1)
    always = []
    pos = 0
    arm_re = re.compile(r"\s*((?:%s)(?: \| (?:%s))*) => true," % (CHAR_LIT, CHAR_LIT))
    while pos < len(arms):
        mm = arm_re.match(arms, pos)
        if not mm:
            fail("char_needs_quoting: cannot read the arm at %r" % arms[pos:pos + 60])
        always += [char_value(l) for l in re.findall(CHAR_LIT, mm.group(1))]
        pos = mm.end()
        while pos < len(arms) and arms[pos] == " ":
            pos += 1
    if len(set(always)) != len(always):
        fail("char_needs_quoting lists a character twice")

    # ---- str_needs_quoting ----------------------------------------------------
    body = norm(function_body(code, r"fn str_needs_quoting\(s: &str\) -> bool \{"))
    skeleton = (
        r"if s\.is_empty\(\) \{ return true; \} "
        r"if let Some\(c\) = s\.chars\(\)\.next\(\) && \(c == (?P<f1>%(c)s) \|\| c == (?P<f2>%(c)s)\) \{ return true; \} "
        r"if s\.chars\(\)\.any\(char_needs_quoting\) \{ return true; \} "
        r'if s\.contains\("(?P<needle>[^"\\]{2})"\) \{ return true; \} '
        r"if let Some\(i\) = s\.find\((?P<o1>%(c)s)\) && s\[i \+ 1\.\.\]\.contains\((?P<c1>%(c)s)\) \{ return true; \} "
        r"if let Some\(i\) = s\.find\((?P<o2>%(c)s)\) && s\[i \+ 1\.\.\]\.contains\((?P<c2>%(c)s)\) \{ return true; \} "
        r"false"
    ) % {"c": CHAR_LIT}
    m = re.fullmatch(skeleton, body)
    if not m:
        fail("str_needs_quoting does not have the shape the model mirrors: %r" % body)
    first = [char_value(m.group("f1")), char_value(m.group("f2"))]
    needle = [ord(ch) for ch in m.group("needle")]
    pairs = [(char_value(m.group("o1")), char_value(m.group("c1"))),
             (char_value(m.group("o2")), char_value(m.group("c2")))]

    # ---- Display for Quoted ---------------------------------------------------
    m = re.search(r"impl std::fmt::Display for Quoted<'_> \{\s*fn fmt\(&self, f: &mut std::fmt::Formatter<'_>\) -> std::fmt::Result \{", code)
    if not m:
        fail("cannot find `impl std::fmt::Display for Quoted`")
    body = norm(function_body(code, r"fn fmt\(&self, f: &mut std::fmt::Formatter<'_>\) -> std::fmt::Result \{"))
    skeleton = (
        r"use std::fmt::Write as _; "
        r"if !self\.needs_quoting \{ f\.write_str\(self\.raw\) \} "
        r"else if !self\.raw\.contains\((?P<sel>%(c)s)\) \{ write!\(f, \"'\{\}'\", self\.raw\) \} "
        r"else \{ f\.write_char\('\"'\)\?; "
        r"for c in self\.raw\.chars\(\) \{ if matches!\(c, (?P<esc>(?:%(c)s)(?: \| (?:%(c)s))*)\) \{ f\.write_char\('\\\\'\)\?; \} f\.write_char\(c\)\?; \} "
        r"f\.write_char\('\"'\) \}"
    ) % {"c": CHAR_LIT}
    m = re.fullmatch(skeleton, body)
    if not m:
        fail("Display for Quoted does not have the shape the model mirrors: %r" % body)
    selector = char_value(m.group("sel"))
    escaped = [char_value(l) for l in re.findall(CHAR_LIT, m.group("esc"))]

    # needs_quoting must be cached from str_needs_quoting, nowhere else
    if len(re.findall(r"needs_quoting: str_needs_quoting\(raw\)|let needs_quoting = str_needs_quoting\(raw\)", code)) != 1:
        fail("`needs_quoting` is not computed by exactly one call of str_needs_quoting(raw)")

    def lst(l):
        return "[" + "; ".join(str(x) for x in l) + "]%N" if l else "(@nil N)"

    out = (
        "(* GENERATED by translator/c07_quote.py from yash-quote/src/lib.rs -- do not edit. *)\n"
        "From Coq Require Import NArith List.\n"
        "Import ListNotations.\n\n"
        "(* the characters char_needs_quoting lists explicitly, in source order *)\n"
        "Definition gen_always_quoted : list N := %s.\n\n"
        "(* a string starting with one of these needs quoting *)\n"
        "Definition gen_first_chars : list N := %s.\n\n"
        "(* the two-character needle of s.contains(..) *)\n"
        "Definition gen_needle : N * N := (%d, %d)%%N.\n\n"
        "(* (open, close): open followed later by close needs quoting *)\n"
        "Definition gen_open_close : list (N * N) := [(%d, %d); (%d, %d)]%%N.\n\n"
        "(* a raw string containing this character gets the double-quoted form *)\n"
        "Definition gen_dq_selector : N := %d%%N.\n\n"
        "(* the characters that get a backslash inside double quotes, in source order *)\n"
        "Definition gen_dq_escaped : list N := %s.\n"
    ) % (lst(always), lst(first), needle[0], needle[1],
         pairs[0][0], pairs[0][1], pairs[1][0], pairs[1][1], selector, lst(escaped))
    os.makedirs(os.path.dirname(OUT), exist_ok=True)
    old = open(OUT).read() if os.path.exists(OUT) else None
    if old != out:
        open(OUT, "w").write(out)


if __name__ == "__main__":
    main()
