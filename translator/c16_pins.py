#!/usr/bin/env python3
"""Maintenance helper for C16 (not run by ./check): copies the statements of the
theorems of coq/C16/Properties.v into props/C16.json "theorems", so that the
driver's `Check (name : statement).` pins are exactly the proved statements.
Run it by hand after editing Properties.v, then review the diff."""
import json, os, re
ROOT = os.path.dirname(os.path.dirname(os.path.abspath(__file__)))
src = open(os.path.join(ROOT, "coq/C16/Properties.v")).read()
# drop comments
out, depth, i = [], 0, 0
while i < len(src):
    if src.startswith("(*", i): depth += 1; i += 2
    elif src.startswith("*)", i) and depth: depth -= 1; i += 2
    else:
        if depth == 0: out.append(src[i])
        i += 1
src = "".join(out)
thms = []
for m in re.finditer(r"Theorem\s+(\w+)\s*:\s*(.*?)\.\s*Proof\.", src, re.S):
    thms.append({"name": m.group(1), "statement": " ".join(m.group(2).split())})
p = os.path.join(ROOT, "props/C16.json")
meta = json.load(open(p))
meta["theorems"] = thms
json.dump(meta, open(p, "w"), indent=1, ensure_ascii=False)
print("\n".join(t["name"] for t in thms))
