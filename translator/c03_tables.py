#!/usr/bin/env python3
"""C03 translator: reads the operator tables of yash-arith from the Rust source
and writes them as plain Coq data to coq/Gen/Gen_Arith.v.

  token.rs  enum Operator { ... }              -> gen_operator_names
            const OPERATORS: &[(&str, Operator)] -> gen_operators   (table order kept)
  ast.rs    Operator::precedence               -> gen_precedence
            Operator::as_binary                -> gen_as_binary
            Operator::as_prefix / as_postfix   -> gen_as_prefix / gen_as_postfix

The generated file depends on the Coq standard library only.  coq/C03/ProofsGen.v
proves that these tables are the tables of the model (so the theorems about the
model's tables are theorems about what the source says now).

Fails (exit 1) on any syntax it does not understand.  Honours YV_REPO.
"""
import os
import re
import sys

REPO = os.environ.get("YV_REPO", "/repo")
ROOT = os.path.dirname(os.path.dirname(os.path.abspath(__file__)))
OUT = os.path.join(ROOT, "coq", "Gen", "Gen_Arith.v")


def die(msg):
    sys.stderr.write("c03_tables.py: " + msg + "\n")
    sys.exit(1)


def strip_comments(src):
    src = re.sub(r"//[^\n]*", "", src)
    src = re.sub(r"/\*.*?\*/", "", src, flags=re.S)
    return src


def block_after(src, header_re, what):
    """The text between the braces/brackets that follow the header."""
    m = re.search(header_re, src)
    if not m:
        die("cannot find " + what)
    i = m.end() - 1
    opener = src[i]
    closer = {"{": "}", "[": "]"}[opener]
    depth = 0
    for j in range(i, len(src)):
        if src[j] == opener:
            depth += 1
        elif src[j] == closer:
            depth -= 1
            if depth == 0:
                return src[i + 1:j]
    die("unbalanced " + what)


def coq_str(s):
    return '"' + s.replace('"', '""') + '"'


def main():
    token = strip_comments(open(os.path.join(REPO, "yash-arith/src/token.rs")).read())
    ast = strip_comments(open(os.path.join(REPO, "yash-arith/src/ast.rs")).read())

    # enum Operator
    body = block_after(token, r"pub enum Operator\s*\{", "enum Operator")
    names = [x.strip() for x in body.split(",") if x.strip()]
    for n in names:
        if not re.fullmatch(r"[A-Z][A-Za-z]*", n):
            die("unexpected variant of Operator: %r" % n)
    if len(set(names)) != len(names):
        die("duplicate variant of Operator")

    # const OPERATORS
    body = block_after(token, r"const OPERATORS:\s*&\[\(&str,\s*Operator\)\]\s*=\s*&\[", "const OPERATORS")
    entries = [x.strip() for x in re.split(r"\)\s*,", body) if x.strip()]
    operators = []
    for e in entries:
        m = re.fullmatch(r'\(\s*"((?:[^"\\]|\\.)*)"\s*,\s*Operator::([A-Za-z]+)\s*\)?', e)
        if not m:
            die("unexpected entry of OPERATORS: %r" % e)
        lex, name = m.group(1), m.group(2)
        if "\\" in lex or not lex or any(ord(c) >= 128 for c in lex):
            die("unexpected lexeme %r" % lex)
        if name not in names:
            die("OPERATORS names an unknown operator %s" % name)
        operators.append((lex, name))

    # impl Operator { fn precedence }
    body = block_after(ast, r"fn precedence\(self\)\s*->\s*u8\s*\{", "fn precedence")
    body = block_after(body, r"match self\s*\{", "match in precedence")
    prec = {}
    arms = [a.strip() for a in body.split(",") if a.strip()]
    for a in arms:
        m = re.fullmatch(r"([A-Za-z|\s]+?)\s*=>\s*(\d+)", a)
        if not m:
            die("unexpected arm of precedence: %r" % a)
        for n in m.group(1).split("|"):
            n = n.strip()
            if n not in names:
                die("precedence names an unknown operator %r" % n)
            if n in prec:
                die("operator %s has two precedences" % n)
            prec[n] = int(m.group(2))
    if set(prec) != set(names):
        die("precedence does not cover: %s" % sorted(set(names) - set(prec)))

    def option_table(fn, value_re, what):
        body = block_after(ast, r"fn %s\(self\)\s*->\s*Option<[^{]*\{" % fn, "fn " + fn)
        body = block_after(body, r"match self\s*\{", "match in " + fn)
        tbl = {}
        saw_default = False
        for line in body.split("\n"):
            line = line.strip()
            if not line:
                continue
            if re.fullmatch(r"_\s*=>\s*None\s*,?", line):
                saw_default = True
                continue
            m = re.fullmatch(r"Operator::([A-Za-z]+)\s*=>\s*Some\(%s\)\s*,?" % value_re, line)
            if not m:
                die("unexpected arm of %s: %r" % (fn, line))
            if m.group(1) not in names or m.group(1) in tbl:
                die("bad operator in %s: %s" % (fn, m.group(1)))
            tbl[m.group(1)] = m.groups()[1:]
        if not saw_default:
            die("%s has no `_ => None` arm" % fn)
        return tbl

    as_binary = option_table("as_binary", r"\(\s*([A-Za-z]+)\s*,\s*(Left|Right)\s*\)", "as_binary")
    as_prefix = option_table("as_prefix", r"PrefixOperator::([A-Za-z]+)", "as_prefix")
    as_postfix = option_table("as_postfix", r"PostfixOperator::([A-Za-z]+)", "as_postfix")

    out = []
    out.append("(* GENERATED by translator/c03_tables.py from yash-arith/src/token.rs and ast.rs.")
    out.append("   Do not edit: the file is rewritten on every check. *)")
    out.append("From Coq Require Import String List NArith.")
    out.append("Import ListNotations.")
    out.append("Local Open Scope string_scope.")
    out.append("")
    out.append("(* enum Operator, in declaration order *)")
    out.append("Definition gen_operator_names : list string :=")
    out.append("  [ " + ";\n    ".join(coq_str(n) for n in names) + " ].")
    out.append("")
    out.append("(* const OPERATORS, in table order: (lexeme, operator) *)")
    out.append("Definition gen_operators : list (string * string) :=")
    out.append("  [ " + ";\n    ".join("(%s, %s)" % (coq_str(l), coq_str(n)) for l, n in operators) + " ].")
    out.append("")
    out.append("(* Operator::precedence *)")
    out.append("Definition gen_precedence : list (string * N) :=")
    out.append("  [ " + ";\n    ".join("(%s, %d%%N)" % (coq_str(n), prec[n]) for n in names) + " ].")
    out.append("")
    out.append("(* Operator::as_binary: (operator, (binary operator, associativity)); others: None *)")
    out.append("Definition gen_as_binary : list (string * (string * string)) :=")
    out.append("  [ " + ";\n    ".join(
        "(%s, (%s, %s))" % (coq_str(n), coq_str(as_binary[n][0]), coq_str(as_binary[n][1]))
        for n in names if n in as_binary) + " ].")
    out.append("")
    out.append("(* Operator::as_prefix / as_postfix *)")
    out.append("Definition gen_as_prefix : list (string * string) :=")
    out.append("  [ " + ";\n    ".join(
        "(%s, %s)" % (coq_str(n), coq_str(as_prefix[n][0])) for n in names if n in as_prefix) + " ].")
    out.append("Definition gen_as_postfix : list (string * string) :=")
    out.append("  [ " + ";\n    ".join(
        "(%s, %s)" % (coq_str(n), coq_str(as_postfix[n][0])) for n in names if n in as_postfix) + " ].")
    text = "\n".join(out) + "\n"

    os.makedirs(os.path.dirname(OUT), exist_ok=True)
    old = open(OUT).read() if os.path.exists(OUT) else None
    if old != text:
        tmp = OUT + ".tmp.%d" % os.getpid()
        open(tmp, "w").write(text)
        os.replace(tmp, OUT)


if __name__ == "__main__":
    main()
