#!/usr/bin/env python3
"""Interface check C01 -> C04 (run by ./check C01 as a "gen" step; writes nothing).

C01 models trims (${x#p} ${x##p} ${x%p} ${x%%p}) only for patterns of literals,
? and * (its own matcher, proved against C01's Matches/TrimSpec).  For every
other pattern (bracket expressions) C01 relies on property C04: the trim
performed through yash-fnmatch removes the shortest/longest matching
prefix/suffix.  This script fails (=> BROKEN obligation of C01) unless C04
still pins exactly the statements C01 relies on."""
import json, os, sys
ROOT = os.path.dirname(os.path.dirname(os.path.abspath(__file__)))
NEEDED = {
 "trim_forms_remove_shortest_longest":
  "forall (side : trim_side) (len : trim_length) (p : list pchar) (a : ast) (v : str), "
  "parse_pattern p = Some a -> single_width a = true -> "
  "exists out : str, trim_model side len p v = Some out /\\ TrimSpec side len a v out",
 "spec_trim_computes_the_specification":
  "forall (side : trim_side) (len : trim_length) (a : ast) (v out : str), "
  "TrimSpec side len a v out -> spec_trim side len a v = out",
 "quoted_chars_are_literal":
  "forall l : list achar, Forall (fun a => a_quoted a = true /\\ a_quoting a = false) l -> "
  "to_pattern_chars (apply_escapes l) = map (fun a => Literal (a_value a)) l",
}
try:
    meta = json.load(open(os.path.join(ROOT, "props", "C04.json")))
except Exception as ex:
    sys.exit("c01_c04_iface: cannot read props/C04.json: %s" % ex)
pins = {t["name"]: " ".join(t.get("statement", "").split()) for t in meta.get("theorems", [])}
bad = [n for n, st in NEEDED.items() if pins.get(n) != " ".join(st.split())]
if bad:
    for n in bad:
        print("c01_c04_iface: C04 no longer pins the statement C01 relies on: %s\n  expected: %s\n  found:    %s"
              % (n, NEEDED[n], pins.get(n)))
    sys.exit(1)
print("c01_c04_iface: ok (%d statements)" % len(NEEDED))
