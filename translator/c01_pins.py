#!/usr/bin/env python3
"""Development helper (not run by ./check): copies the statements of the
theorems of coq/C01/Properties.v into props/C01.json "theorems" and appends the
`Print Assumptions` lines to Properties.v.  Run by hand after adding a theorem;
review the diff of props/C01.json — the pins are what keeps statements from
being weakened silently."""
import json, os, re
ROOT = os.path.dirname(os.path.dirname(os.path.abspath(__file__)))
pv = os.path.join(ROOT, "coq", "C01", "Properties.v")
pj = os.path.join(ROOT, "props", "C01.json")
src = open(pv).read()
src = re.sub(r"\n\(\* ---- assumptions ---- \*\)\n(Print Assumptions \S+\.\n)*", "\n", src).rstrip("\n") + "\n"
thms = []
for m in re.finditer(r"^Theorem\s+(\w+)\s*:\s*(.*?)\.\s*\nProof\.", src, re.S | re.M):
    thms.append({"name": m.group(1), "statement": " ".join(m.group(2).split())})
src += "\n(* ---- assumptions ---- *)\n" + "".join("Print Assumptions %s.\n" % t["name"] for t in thms)
open(pv, "w").write(src)
meta = json.load(open(pj))
meta["theorems"] = thms
json.dump(meta, open(pj, "w"), indent=1, ensure_ascii=False)
print(len(thms), "theorems pinned")
