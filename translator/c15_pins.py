#!/usr/bin/env python3
"""Developer tool (not run by ./check): copies the statements of the theorems in
coq/C15/Properties.v into props/C15.json "theorems" so that the pins are exact.
Run it only after deliberately changing a statement."""
import json, os, re
ROOT = os.path.dirname(os.path.dirname(os.path.abspath(__file__)))
src = open(os.path.join(ROOT, "coq/C15/Properties.v")).read()
# strip comments
out, depth, i = [], 0, 0
while i < len(src):
    if src.startswith("(*", i):
        depth += 1; i += 2
    elif src.startswith("*)", i) and depth:
        depth -= 1; i += 2
    else:
        if not depth:
            out.append(src[i])
        i += 1
src = "".join(out)
thms = []
for m in re.finditer(r"Theorem\s+(\w+)\s*:(.*?)\.\s*Proof\.", src, re.S):
    thms.append({"name": m.group(1), "statement": " ".join(m.group(2).split())})
p = os.path.join(ROOT, "props/C15.json")
meta = json.load(open(p))
meta["theorems"] = thms
json.dump(meta, open(p, "w"), indent=1, ensure_ascii=False)
print(len(thms), "theorems pinned")
