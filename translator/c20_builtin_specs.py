#!/usr/bin/env python3
"""C20 translator: the option tables of the built-ins that use the generic
parser, read from yash-builtin/src/**, written as Gallina to
coq/Gen/Gen_BuiltinSpecs.v.

For every non-test call `parse_arguments(TABLE, ...)` outside
common/syntax.rs the table is

  * `&[]`                                  -> the empty table
  * an identifier / `module::IDENT`        -> a `const IDENT: &[OptionSpec] = &[...]`
                                              of the same file (or of
                                              `<dir>/<module>.rs`)

whose elements are `OptionSpec::new()` followed by `.short('c')`,
`.long("name")`, `.argument(OptionArgumentSpec::Required|None)`,
`.extension(true|false)` in any order.  Anything else makes the script fail
(the check then reports a broken obligation instead of going quiet).

The built-in's name is derived from the file: `src/NAME.rs`,
`src/NAME/syntax.rs`; `source` is also `.`, `break` is also `continue`.
"""
import os
import re
import sys

REPO = os.environ.get("YV_REPO", "/repo")
ROOT = os.path.dirname(os.path.dirname(os.path.abspath(__file__)))
SRC = os.path.join(REPO, "yash-builtin", "src")
OUT = os.path.join(ROOT, "coq", "Gen", "Gen_BuiltinSpecs.v")

ALIASES = {"source": [".", "source"], "break": ["break", "continue"]}


def die(msg):
    sys.stderr.write("c20_builtin_specs.py: " + msg + "\n")
    sys.exit(2)


def strip_comments(text):
    # line comments only matter here; string literals in these files never contain `//`
    # inside the parts we read, but keep quotes intact anyway
    out = []
    for line in text.split("\n"):
        i, n, in_str, in_chr = 0, len(line), False, False
        cut = n
        while i < n:
            c = line[i]
            if in_str:
                if c == "\\":
                    i += 1
                elif c == '"':
                    in_str = False
            elif c == '"':
                in_str = True
            elif c == "'" and i + 2 < n and line[i + 2] == "'":
                i += 2
            elif c == "/" and i + 1 < n and line[i + 1] == "/":
                cut = i
                break
            i += 1
        out.append(line[:cut])
    return "\n".join(out)


def non_test(text):
    k = text.find("#[cfg(test)]")
    return text if k < 0 else text[:k]


def matching(text, start, open_c, close_c):
    """index just after the bracket that closes text[start] (== open_c)"""
    depth, i, n = 0, start, len(text)
    in_str = False
    while i < n:
        c = text[i]
        if in_str:
            if c == "\\":
                i += 1
            elif c == '"':
                in_str = False
        elif c == '"':
            in_str = True
        elif c == "'" and i + 2 < n and text[i + 2] == "'":
            i += 2
        elif c == open_c:
            depth += 1
        elif c == close_c:
            depth -= 1
            if depth == 0:
                return i + 1
        i += 1
    die("unbalanced brackets")


def split_top(text):
    """split at top-level commas"""
    parts, depth, cur, i, n = [], 0, [], 0, len(text)
    in_str = False
    while i < n:
        c = text[i]
        if in_str:
            cur.append(c)
            if c == "\\":
                i += 1
                cur.append(text[i])
            elif c == '"':
                in_str = False
        elif c == '"':
            in_str = True
            cur.append(c)
        elif c == "'" and i + 2 < n and text[i + 2] == "'":
            cur.append(text[i:i + 3])
            i += 2
        elif c in "([{":
            depth += 1
            cur.append(c)
        elif c in ")]}":
            depth -= 1
            cur.append(c)
        elif c == "," and depth == 0:
            parts.append("".join(cur))
            cur = []
        else:
            cur.append(c)
        i += 1
    parts.append("".join(cur))
    return [p.strip() for p in parts if p.strip()]


def parse_spec(text, where):
    t = re.sub(r"\s+", "", text)
    if not t.startswith("OptionSpec::new()"):
        die("%s: unsupported table element: %s" % (where, text.strip()))
    t = t[len("OptionSpec::new()"):]
    spec = {"short": None, "long": None, "arg": False, "ext": False}
    while t:
        m = re.match(r"\.short\('(\\?.)'\)", t)
        if m:
            ch = m.group(1)
            if ch.startswith("\\"):
                die("%s: escaped option character not supported: %s" % (where, ch))
            spec["short"] = ch
            t = t[m.end():]
            continue
        m = re.match(r'\.long\("([^"\\]*)"\)', t)
        if m:
            spec["long"] = m.group(1)
            t = t[m.end():]
            continue
        m = re.match(r"\.argument\(OptionArgumentSpec::(Required|None)\)", t)
        if m:
            spec["arg"] = m.group(1) == "Required"
            t = t[m.end():]
            continue
        m = re.match(r"\.argument\((Required|None)\)", t)
        if m:
            spec["arg"] = m.group(1) == "Required"
            t = t[m.end():]
            continue
        m = re.match(r"\.extension\((true|false)\)", t)
        if m:
            spec["ext"] = m.group(1) == "true"
            t = t[m.end():]
            continue
        die("%s: unsupported builder call: %s" % (where, t))
    return spec


def find_table(text, ident, where):
    m = re.search(r"const\s+%s\s*:\s*&\[OptionSpec(?:<[^>]*>)?\]\s*=\s*&\[" % re.escape(ident), text)
    if not m:
        return None
    start = m.end() - 1
    end = matching(text, start, "[", "]")
    body = text[start + 1:end - 1]
    return [parse_spec(e, where) for e in split_top(body)]


def builtin_names(relpath):
    parts = relpath.split(os.sep)
    base = parts[0] if len(parts) > 1 else parts[0][:-3]
    return ALIASES.get(base, [base])


def tables():
    result = {}
    for d, _, fs in sorted(os.walk(SRC)):
        for f in sorted(fs):
            if not f.endswith(".rs"):
                continue
            path = os.path.join(d, f)
            rel = os.path.relpath(path, SRC)
            if rel == os.path.join("common", "syntax.rs"):
                continue
            text = strip_comments(non_test(open(path, encoding="utf-8").read()))
            for m in re.finditer(r"\bparse_arguments\s*\(", text):
                # skip the `use` line and doc mentions (no argument list follows)
                end = matching(text, m.end() - 1, "(", ")")
                args = split_top(text[m.end():end - 1])
                if len(args) != 3:
                    continue
                first = re.sub(r"\s+", "", args[0])
                where = "%s (%s)" % (rel, first)
                if first == "&[]":
                    table = []
                else:
                    mm = re.fullmatch(r"(?:(\w+)::)?(\w+)", first)
                    if not mm:
                        die("%s: unsupported table expression" % where)
                    mod, ident = mm.group(1), mm.group(2)
                    src = text
                    if mod:
                        cand = [os.path.join(d, rel[:-3].split(os.sep)[-1], mod + ".rs"),
                                os.path.join(d, mod + ".rs")]
                        for c in cand:
                            if os.path.exists(c):
                                src = strip_comments(non_test(open(c, encoding="utf-8").read()))
                                break
                        else:
                            die("%s: module file not found" % where)
                    table = find_table(src, ident, where)
                    if table is None:
                        die("%s: table constant not found" % where)
                for name in builtin_names(rel):
                    if name in result and result[name] != table:
                        die("%s: two different tables for built-in %s" % (where, name))
                    result[name] = table
    if len(result) < 20:
        die("only %d tables found; the layout of yash-builtin/src changed" % len(result))
    return result


def coq_str(s):
    if s == "":
        return "(@nil N)"
    return "[" + "; ".join(str(ord(c)) for c in s) + "]%N"


def coq_opt(x):
    return "None" if x is None else "(Some %s)" % x


def emit(result):
    lines = [
        "(* GENERATED by translator/c20_builtin_specs.py from yash-builtin/src/**: the option",
        "   tables handed to `parse_arguments` by each built-in.  Do not edit. *)",
        "From Yv Require Import Common.Base C20.Model.",
        "",
    ]
    names = sorted(result)
    for k, name in enumerate(names):
        t = result[name]
        rows = []
        for s in t:
            rows.append("mkSpec %s %s %s %s" % (
                coq_opt(None if s["short"] is None else "%d%%N" % ord(s["short"])),
                coq_opt(None if s["long"] is None else coq_str(s["long"])),
                "true" if s["arg"] else "false",
                "true" if s["ext"] else "false"))
        body = "[]" if not rows else "[\n    " + ";\n    ".join(rows) + " ]"
        lines.append("(* %s *)" % name)
        lines.append("Definition builtin_table_%d : list ospec := %s." % (k, body))
        lines.append("")
    lines.append("(* built-in name -> its table *)")
    lines.append("Definition builtin_tables : list (str * list ospec) := [")
    lines.append(";\n".join("  (%s, builtin_table_%d)" % (coq_str(n), k) for k, n in enumerate(names)))
    lines.append("].")
    return "\n".join(lines) + "\n"


def main():
    text = emit(tables())
    os.makedirs(os.path.dirname(OUT), exist_ok=True)
    old = open(OUT).read() if os.path.exists(OUT) else None
    if old != text:
        with open(OUT, "w") as f:
            f.write(text)


if __name__ == "__main__":
    main()
