//! Common command line of the per-property harness binaries:
//!
//! `cXX --tier quick|thorough|search --seed N --out DIR [--only IDX]`

use std::path::PathBuf;

#[derive(Clone, Debug)]
pub struct Args {
    pub tier: String,
    pub seed: u64,
    pub out: PathBuf,
    /// Write only the case with this global index (replay).
    pub only: Option<usize>,
    /// Free-form extra options (`--opt key=value`).
    pub opts: Vec<(String, String)>,
}

impl Args {
    pub fn parse() -> Args {
        let mut a = Args {
            tier: "quick".into(),
            seed: 1,
            out: PathBuf::from("."),
            only: None,
            opts: vec![],
        };
        let mut it = std::env::args().skip(1);
        while let Some(k) = it.next() {
            let mut v = || it.next().unwrap_or_else(|| panic!("missing value for {k}"));
            match k.as_str() {
                "--tier" => a.tier = v(),
                "--seed" => a.seed = v().parse().expect("seed"),
                "--out" => a.out = PathBuf::from(v()),
                "--only" => a.only = Some(v().parse().expect("index")),
                "--opt" => {
                    let kv = v();
                    let (k, v) = kv.split_once('=').unwrap_or((&kv, ""));
                    a.opts.push((k.to_string(), v.to_string()));
                }
                _ => panic!("unknown argument {k}"),
            }
        }
        a
    }
    pub fn thorough(&self) -> bool {
        self.tier != "quick"
    }
    pub fn opt(&self, key: &str) -> Option<&str> {
        self.opts.iter().find(|(k, _)| k == key).map(|(_, v)| v.as_str())
    }
    /// `q` for the quick tier, `t` for thorough, `t` (or `s` if given) for search.
    pub fn scale(&self, q: usize, t: usize) -> usize {
        if self.thorough() { t } else { q }
    }
}
