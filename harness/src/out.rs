//! Writer of `cases_<k>.v` shards, `cases.jsonl` and `stats.json`.

use crate::cli::Args;
use crate::json_str;
use std::collections::{BTreeMap, BTreeSet};
use std::fs::{self, File};
use std::io::{BufWriter, Write};

pub struct CasesWriter {
    args: Args,
    /// Coq module that defines `case` and `run_case`, e.g. `Yv.C12.Run`.
    module: String,
    shard_size: usize,
    shard: usize,
    in_shard: usize,
    total: usize,
    written: usize,
    cur: Option<BufWriter<File>>,
    names: Vec<String>,
    jsonl: BufWriter<File>,
    distinct: BTreeSet<String>,
    nontrivial: usize,
    hist: BTreeMap<String, u64>,
    samples: Vec<String>,
}

impl CasesWriter {
    pub fn new(args: &Args, module: &str, shard_size: usize) -> CasesWriter {
        fs::create_dir_all(&args.out).unwrap();
        let jsonl = BufWriter::new(File::create(args.out.join("cases.jsonl")).unwrap());
        CasesWriter {
            args: args.clone(),
            module: module.into(),
            shard_size,
            shard: 0,
            in_shard: 0,
            total: 0,
            written: 0,
            cur: None,
            names: vec![],
            jsonl,
            distinct: BTreeSet::new(),
            nontrivial: 0,
            hist: BTreeMap::new(),
            samples: vec![],
        }
    }

    /// Number of cases pushed so far (= the global index of the next case).
    pub fn len(&self) -> usize {
        self.total
    }

    /// Count something for the input-distribution histogram.
    pub fn count(&mut self, key: &str) {
        *self.hist.entry(key.to_string()).or_insert(0) += 1;
    }

    fn close_shard(&mut self) {
        if let Some(mut w) = self.cur.take() {
            writeln!(w, "Definition cases : list (N * case) := [{}].", self.names.join("; ")).unwrap();
            writeln!(w, "Eval vm_compute in (run_cases cases).").unwrap();
            w.flush().unwrap();
            self.names.clear();
            self.shard += 1;
            self.in_shard = 0;
        }
    }

    /// Adds one case.
    ///
    /// * `term` – Coq term of type `case` (input and implementation output).
    /// * `json` – JSON object (text) describing the case for humans/replay.
    /// * `tags` – classifier tags (known-finding classes etc.).
    /// * `key`  – `Some(k)` if the case is non-trivial by the property's rule;
    ///   `k` identifies the case up to duplication.
    pub fn push(&mut self, term: &str, json: &str, tags: &[&str], key: Option<String>) {
        let idx = self.total;
        self.total += 1;
        if let Some(only) = self.args.only {
            if only != idx {
                return;
            }
        }
        if let Some(k) = key {
            if self.distinct.insert(k) {
                self.nontrivial += 1;
            }
        }
        if self.cur.is_none() {
            let p = self.args.out.join(format!("cases_{}.v", self.shard));
            let mut w = BufWriter::new(File::create(p).unwrap());
            writeln!(w, "From Yv Require Import Common.Base.").unwrap();
            writeln!(w, "Require Import {}.", self.module).unwrap();
            writeln!(w, "Import ListNotations.").unwrap();
            writeln!(w, "Local Open Scope list_scope.").unwrap();
            self.cur = Some(w);
        }
        let name = format!("c{}", idx);
        let w = self.cur.as_mut().unwrap();
        writeln!(w, "Definition {} : N * case := ({}%N, {}).", name, idx, term).unwrap();
        self.names.push(name);
        let tagl: Vec<String> = tags.iter().map(|t| json_str(t)).collect();
        writeln!(
            self.jsonl,
            "{{\"index\":{},\"shard\":{},\"tags\":[{}],\"case\":{}}}",
            idx,
            self.shard,
            tagl.join(","),
            json
        )
        .unwrap();
        if self.samples.len() < 5 || (self.written % 97 == 0 && self.samples.len() < 12) {
            self.samples.push(json.to_string());
        }
        self.written += 1;
        self.in_shard += 1;
        if self.in_shard >= self.shard_size {
            self.close_shard();
        }
    }

    /// Closes all files and writes `stats.json`.
    pub fn finish(mut self, rule: &str) {
        self.close_shard();
        self.jsonl.flush().unwrap();
        let hist: Vec<String> =
            self.hist.iter().map(|(k, v)| format!("{}:{}", json_str(k), v)).collect();
        let stats = format!(
            "{{\"evaluations\":{},\"written\":{},\"shards\":{},\"distinct_nontrivial\":{},\"rule\":{},\"histogram\":{{{}}},\"samples\":[{}]}}\n",
            self.total,
            self.written,
            self.shard,
            self.nontrivial,
            json_str(rule),
            hist.join(","),
            self.samples.join(",")
        );
        fs::write(self.args.out.join("stats.json"), stats).unwrap();
    }
}
