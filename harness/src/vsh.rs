//! Running whole scripts on the simulated OS, in process.
//!
//! This is `yash_cli::run_as_shell_process` re-assembled from its public parts
//! (`startup::args::parse`, `startup::configure_environment`,
//! `startup::input::prepare_input`, `read_eval_loop`, `run_exit_trap`) on a
//! `VirtualSystem`, plus *probe built-ins* that record what the shell did.
//! The simulated OS has no external utilities, so `echo`, `cat`, `true` and
//! `false` are provided as (mandatory) built-ins as well.

use std::cell::{Cell, RefCell};
use std::future::Future;
use std::ops::ControlFlow::{Break, Continue};
use std::panic::{AssertUnwindSafe, catch_unwind};
use std::pin::Pin;
use std::rc::Rc;
use yash_cli::startup::args::{Parse, parse as parse_args};
use yash_cli::startup::configure_environment;
use yash_cli::startup::input::prepare_input;
use yash_env::Env;
use yash_env::builtin::{Builtin, Type};
use yash_env::io::Fd;
use yash_env::semantics::{Divert, ExitStatus, Field};
use yash_env::system::concurrency::WriteAll as _;
use yash_env::system::r#virtual::{FileBody, Inode, SystemState, VirtualSystem};
use yash_env::system::{Concurrent, Read as _};
use yash_semantics::read_eval_loop;
use yash_semantics::trap::run_exit_trap;

pub type Sys = Rc<Concurrent<VirtualSystem>>;
pub type VEnv = Env<Sys>;
pub type State = Rc<RefCell<SystemState>>;
pub type BuiltinFuture<'a> = Pin<Box<dyn Future<Output = yash_env::builtin::Result> + 'a>>;

/// One record made by a probe built-in.
#[derive(Clone, Debug, PartialEq, Eq)]
pub struct TraceItem {
    /// name of the probe built-in (`probe`, `args`, ...)
    pub kind: String,
    /// `$?` when the built-in was entered
    pub status: i32,
    /// arguments (fields) the built-in received
    pub args: Vec<String>,
    /// true if recorded by the main shell process (not a subshell)
    pub in_main: bool,
}

thread_local! {
    static TRACE: RefCell<Vec<TraceItem>> = const { RefCell::new(Vec::new()) };
}

pub fn trace_push(item: TraceItem) {
    TRACE.with(|t| t.borrow_mut().push(item));
}
pub fn trace_take() -> Vec<TraceItem> {
    TRACE.with(|t| std::mem::take(&mut *t.borrow_mut()))
}

fn record(env: &VEnv, kind: &str, args: &[Field]) {
    use yash_env::system::GetPid as _;
    trace_push(TraceItem {
        kind: kind.to_string(),
        status: env.exit_status.0,
        args: args.iter().map(|f| f.value.clone()).collect(),
        in_main: env.system.getpid() == env.main_pid,
    });
}

/// `probe KEY [STATUS]`: records `(KEY, $?)`, returns STATUS (default 0).
fn probe_main(env: &mut VEnv, args: Vec<Field>) -> BuiltinFuture<'_> {
    Box::pin(async move {
        record(env, "probe", &args);
        let st = args.get(1).and_then(|f| f.value.parse::<i32>().ok()).unwrap_or(0);
        ExitStatus(st).into()
    })
}

/// `args ...`: records its arguments verbatim, returns 0.
fn args_main(env: &mut VEnv, args: Vec<Field>) -> BuiltinFuture<'_> {
    Box::pin(async move {
        record(env, "args", &args);
        ExitStatus::SUCCESS.into()
    })
}

fn echo_main(env: &mut VEnv, args: Vec<Field>) -> BuiltinFuture<'_> {
    Box::pin(async move {
        let v: Vec<&str> = args.iter().map(|f| f.value.as_str()).collect();
        let message = format!("{}\n", v.join(" "));
        match env.system.write_all(Fd::STDOUT, message.as_bytes()).await {
            Ok(_) => ExitStatus::SUCCESS.into(),
            Err(_) => ExitStatus::FAILURE.into(),
        }
    })
}

fn cat_main(env: &mut VEnv, _args: Vec<Field>) -> BuiltinFuture<'_> {
    Box::pin(async move {
        let mut buffer = [0; 1024];
        loop {
            match env.system.read(Fd::STDIN, &mut buffer).await {
                Ok(0) => return ExitStatus::SUCCESS.into(),
                Ok(n) => {
                    if env.system.write_all(Fd::STDOUT, &buffer[..n]).await.is_err() {
                        return ExitStatus::FAILURE.into();
                    }
                }
                Err(_) => return ExitStatus::FAILURE.into(),
            }
        }
    })
}

fn true_main(_env: &mut VEnv, _args: Vec<Field>) -> BuiltinFuture<'_> {
    Box::pin(async move { ExitStatus::SUCCESS.into() })
}
fn false_main(_env: &mut VEnv, _args: Vec<Field>) -> BuiltinFuture<'_> {
    Box::pin(async move { ExitStatus::FAILURE.into() })
}

/// Registers the probe built-ins and the stand-ins for external utilities.
pub fn install_probes(env: &mut VEnv) {
    env.builtins.insert("probe", Builtin::new(Type::Mandatory, probe_main));
    env.builtins.insert("args", Builtin::new(Type::Mandatory, args_main));
    env.builtins.insert("echo", Builtin::new(Type::Mandatory, echo_main));
    env.builtins.insert("cat", Builtin::new(Type::Mandatory, cat_main));
    env.builtins.insert("true", Builtin::new(Type::Mandatory, true_main));
    env.builtins.insert("false", Builtin::new(Type::Mandatory, false_main));
}

/// What a run of the virtual shell produced.
#[derive(Clone, Debug, Default)]
pub struct Outcome {
    pub stdout: String,
    pub stderr: String,
    /// final exit status of the shell
    pub status: i32,
    pub trace: Vec<TraceItem>,
    /// message of a Rust panic, if one occurred
    pub panicked: Option<String>,
    /// the executor stalled with nothing to wake (a deadlock in the simulation)
    pub deadlock: bool,
    /// the step budget was exhausted (a hang)
    pub timeout: bool,
}

/// Reads a regular file of the virtual file system.
pub fn read_file(state: &State, path: &str) -> Option<Vec<u8>> {
    let inode = state.borrow().file_system.get(path).ok()?;
    let inode = inode.borrow();
    match &inode.body {
        FileBody::Regular { content, .. } => Some(content.clone()),
        _ => None,
    }
}

/// Creates (or replaces) a regular file of the virtual file system.
pub fn write_file(state: &State, path: &str, content: &[u8]) {
    state
        .borrow_mut()
        .file_system
        .save(path, Rc::new(RefCell::new(Inode::new(content.to_vec()))))
        .unwrap();
}

/// Drives a future on a fresh virtual system until it completes.
///
/// `task` receives the environment and the system state, like
/// `yash_env::test_helper::in_virtual_system`, but a deadlock or an exhausted
/// step budget is reported instead of asserted.
pub fn drive<F, Fut, T>(task: F, max_rounds: usize) -> (Option<T>, bool, bool, State)
where
    F: FnOnce(VEnv, State) -> Fut,
    Fut: Future<Output = T> + 'static,
    T: 'static,
{
    let system = VirtualSystem::new();
    let state = Rc::clone(&system.state);
    let executor = yash_executor::Executor::new();
    state.borrow_mut().executor = Some(Rc::new(executor.spawner()));
    let env = Env::with_system(Rc::new(Concurrent::new(system)));
    let concurrent = Rc::clone(&env.system);
    let task = task(env, Rc::clone(&state));
    let result = Rc::new(Cell::new(None));
    let passer = Rc::clone(&result);
    let runner = async move {
        let inner = async move { passer.set(Some(task.await)) };
        concurrent.run_virtual(inner).await
    };
    // SAFETY: single-threaded, as in yash_env::test_helper::in_virtual_system
    unsafe { executor.spawn_pinned(Box::pin(runner)) };
    let mut rounds = 0;
    loop {
        executor.run_until_stalled();
        if let Some(r) = result.take() {
            return (Some(r), false, false, state);
        }
        rounds += 1;
        if rounds > max_rounds {
            return (None, false, true, state);
        }
        let mut st = state.borrow_mut();
        if let Some(t) = st.scheduled_wakers.next_wake_time() {
            st.advance_time(t);
        }
        drop(st);
        if executor.wake_count() == 0 {
            return (None, true, false, state);
        }
    }
}

/// Options of [`run_shell`].
#[derive(Clone, Debug, Default)]
pub struct RunOpts {
    /// command line, without `argv[0]`: e.g. `["-c", "echo x", "name", "arg1"]`
    pub argv: Vec<String>,
    /// content of the standard input file (regular file at /dev/stdin)
    pub stdin: Option<Vec<u8>>,
    /// files to create before the shell starts
    pub files: Vec<(String, Vec<u8>)>,
}

/// Runs the shell like `yash_cli::main` does, on the simulated OS.
///
/// `setup` runs after the built-ins have been installed and before the first
/// command is read.
pub fn run_shell<F>(opts: RunOpts, setup: F) -> (Outcome, Option<State>)
where
    F: FnOnce(&mut VEnv, &State) + 'static,
{
    trace_take();
    let r = catch_unwind(AssertUnwindSafe(move || {
        let (res, deadlock, timeout, state) = drive(
            move |mut env, state| {
                for (p, c) in &opts.files {
                    write_file(&state, p, c);
                }
                if let Some(input) = &opts.stdin {
                    // Descriptor 0 is already open on the existing inode, so
                    // its body is replaced (a new inode would not be seen).
                    let inode = state.borrow().file_system.get("/dev/stdin");
                    match inode {
                        Ok(inode) => inode.borrow_mut().body = FileBody::new(input.to_vec()),
                        Err(_) => write_file(&state, "/dev/stdin", input),
                    }
                }
                async move {
                    let mut argv = vec!["yash".to_string()];
                    argv.extend(opts.argv.iter().cloned());
                    let run = match parse_args(argv) {
                        Ok(Parse::Run(run)) => run,
                        _ => return 2,
                    };
                    let work = configure_environment(&mut env, run).await;
                    install_probes(&mut env);
                    setup(&mut env, &state);
                    let ref_env = RefCell::new(&mut env);
                    let lexer = match prepare_input(&ref_env, &work.source).await {
                        Ok(lexer) => lexer,
                        Err(_) => return 127,
                    };
                    let result = read_eval_loop(&ref_env, &mut { lexer }).await;
                    let env = ref_env.into_inner();
                    env.apply_result(result);
                    match result {
                        Continue(())
                        | Break(Divert::Continue { .. })
                        | Break(Divert::Break { .. })
                        | Break(Divert::Return(_))
                        | Break(Divert::Interrupt(_))
                        | Break(Divert::Exit(_)) => run_exit_trap(env).await,
                        Break(Divert::Abort(_)) => (),
                    }
                    env.exit_status.0
                }
            },
            100_000,
        );
        (res, deadlock, timeout, state)
    }));
    let trace = trace_take();
    match r {
        Ok((res, deadlock, timeout, state)) => {
            let get = |p: &str| {
                read_file(&state, p).map(|b| String::from_utf8_lossy(&b).into_owned()).unwrap_or_default()
            };
            (
                Outcome {
                    stdout: get("/dev/stdout"),
                    stderr: get("/dev/stderr"),
                    status: res.unwrap_or(-1),
                    trace,
                    panicked: None,
                    deadlock,
                    timeout,
                },
                Some(state),
            )
        }
        Err(e) => {
            let msg = if let Some(s) = e.downcast_ref::<&str>() {
                s.to_string()
            } else if let Some(s) = e.downcast_ref::<String>() {
                s.clone()
            } else {
                "panic".to_string()
            };
            (Outcome { trace, panicked: Some(msg), status: -2, ..Default::default() }, None)
        }
    }
}

/// `yash -c SCRIPT` on the simulated OS.
pub fn run_script(script: &str) -> Outcome {
    run_shell(
        RunOpts { argv: vec!["-c".into(), script.into()], ..Default::default() },
        |_, _| {},
    )
    .0
}
