pub fn placeholder() {}
