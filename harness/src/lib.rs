//! Shared parts of the correspondence harness.
//!
//! Every property has its own binary under `src/bin/` so that a build failure
//! in one property's driver never blocks another property's check.  A binary
//!
//!   * parses the common command line ([`cli::Args`]),
//!   * generates cases from one PRNG state ([`rng::Rng`]) derived from the seed,
//!   * runs the real yash-rs code on each case,
//!   * and writes, through [`out::CasesWriter`], for every case the Coq term
//!     `(input, implementation_output)` plus a human readable JSON line.
//!
//! The Python driver (`/verif/check`) then lets `coqc` evaluate
//! `run_cases cases` (model = implementation? oracle(implementation)?) with
//! `vm_compute` and reads the verdict per case.

pub mod cli;
pub mod coq;
pub mod out;
pub mod rng;
pub mod vsh;

/// Escapes a string as a JSON string literal (with the quotes).
pub fn json_str(s: &str) -> String {
    let mut o = String::with_capacity(s.len() + 2);
    o.push('"');
    for c in s.chars() {
        match c {
            '"' => o.push_str("\\\""),
            '\\' => o.push_str("\\\\"),
            '\n' => o.push_str("\\n"),
            '\r' => o.push_str("\\r"),
            '\t' => o.push_str("\\t"),
            c if (c as u32) < 0x20 => o.push_str(&format!("\\u{:04x}", c as u32)),
            c => o.push(c),
        }
    }
    o.push('"');
    o
}

/// JSON array of strings.
pub fn json_str_list<S: AsRef<str>>(l: &[S]) -> String {
    let v: Vec<String> = l.iter().map(|s| json_str(s.as_ref())).collect();
    format!("[{}]", v.join(","))
}
