//! Printers of Coq (Gallina) terms.  Characters are code points (`N`),
//! strings are `list N`.

pub fn n(x: u64) -> String {
    format!("{}%N", x)
}
pub fn nat(x: usize) -> String {
    format!("{}%nat", x)
}
pub fn z(x: i128) -> String {
    if x < 0 { format!("({})%Z", x) } else { format!("{}%Z", x) }
}
pub fn b(x: bool) -> String {
    if x { "true".into() } else { "false".into() }
}
pub fn list<S: AsRef<str>>(items: &[S]) -> String {
    if items.is_empty() {
        return "nil".into();
    }
    let v: Vec<&str> = items.iter().map(|s| s.as_ref()).collect();
    format!("[{}]", v.join("; "))
}
/// A string as `list N` of code points.
pub fn s(x: &str) -> String {
    if x.is_empty() {
        return "(@nil N)".into();
    }
    let v: Vec<String> = x.chars().map(|c| format!("{}", c as u32)).collect();
    format!("[{}]%N", v.join("; "))
}
/// Bytes as `list N`.
pub fn bytes(x: &[u8]) -> String {
    if x.is_empty() {
        return "(@nil N)".into();
    }
    let v: Vec<String> = x.iter().map(|c| format!("{}", c)).collect();
    format!("[{}]%N", v.join("; "))
}
pub fn opt<S: AsRef<str>>(x: Option<S>) -> String {
    match x {
        None => "None".into(),
        Some(v) => format!("(Some {})", v.as_ref()),
    }
}
pub fn pair(a: &str, b: &str) -> String {
    format!("({}, {})", a, b)
}
/// Constructor application `(C a b c)`.
pub fn app(c: &str, args: &[String]) -> String {
    if args.is_empty() {
        return c.into();
    }
    format!("({} {})", c, args.join(" "))
}
