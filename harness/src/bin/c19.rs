//! C19 — the simulated OS and the real OS give the shell the same behaviour.
//!
//! Stream 1 (system calls): generated sequences of calls of the `System`
//! traits (`Open`, `Close`, `Dup`, `Read`, `Write`, `Seek`, `Fstat`, `Umask`,
//! `Chdir`, `GetCwd`, `Pipe`, `Fcntl`, `Fork`/`Wait`/`Exit`) are run by ONE
//! generic driver on `VirtualSystem` (in process) and on `RealSystem` (in a
//! worker process of this same binary, strictly inside a fresh scratch
//! directory).  Per call the canonical result of both is written; Coq compares
//! the two (the oracle) and replays the sequence on the kernel model
//! (`Yv.C19.Model`), which says which side deviates.
//!
//! Stream 2 (scripts): generated scripts are run by ONE generic shell main
//! (`yash_cli::startup` + `read_eval_loop`, the parts `yash_cli::main` is made
//! of) on the simulated OS and — in a child process of this binary — on the
//! real OS; stdout, exit status and the resulting files are compared.
//!
//! Stream 3 (scripts of real built-ins only): additionally run by the `yash3`
//! binary built from the repository under test; the simulated run must equal
//! the binary's run, and the harness's real shell must equal it too.
//!
//! Stream 4 (several children alive together): the parent forks two to four
//! children that wait for commands on pipes; exit / self-kill / sigprocmask /
//! setpgid(0,0) in a child, kill from the parent, `wait(-1)` / `wait(pid)` (the
//! traits' wait never blocks) and the parent's SIGCHLD accounting are compared
//! between the two systems and with the model `Yv.C19.Wait` (`CWait` cases).
//!
//! A simulated script run that does not finish (deadlock or step budget) has
//! status -1; Coq reports it as verdict 23 before anything else is compared.
//!
//! Nine classes of inputs on which the simulator is known to deviate (findings
//! F22-F30 in /verif/known_findings.json) are generated like everything else;
//! a case that really contains an input of a class carries the class name as a
//! tag, and the driver turns a failing tagged case into KNOWN-FINDING while the
//! finding is open.  One minimal corpus case per class runs on every run.
//!
//! Other modes of the binary (used internally / for replay by hand):
//!   c19 --real-sys-worker SEED TIER FROM TO SCRATCH
//!   c19 --real-shell SCRIPT          (cwd = scratch root)
//!   c19 --script SCRIPT              (run on both, print both observations)

use std::cell::{Cell, RefCell};
use std::collections::{BTreeMap, BTreeSet};
use std::ffi::CString;
use std::future::Future;
use std::io::{Read as _, SeekFrom};
use std::ops::ControlFlow::{Break, Continue};
use std::os::unix::fs::PermissionsExt;
use std::pin::Pin;
use std::rc::Rc;
use std::task::{Context, Poll};
use std::time::{Duration, Instant};

use yash_env::Env;
use yash_env::builtin::{Builtin, Type};
use yash_env::io::Fd;
use yash_env::semantics::{Divert, ExitStatus, Field};
use yash_env::system::r#virtual::{FileBody, Inode, SystemState, VirtualSystem};
use yash_env::system::real::RealSystem;
use yash_env::system::{
    AT_FDCWD, Chdir, Close, Concurrent, Dir, Dup, Errno, Exit, Fcntl, FdFlag, FileType, Fork,
    Fstat, GetCwd, Mode, OfdAccess, Open, OpenFlag, Pipe, Read, Seek, Stat, Umask, Wait, Write,
};
use yash_cli::startup::args::{Parse, parse as parse_args};
use yash_cli::startup::configure_environment;
use yash_cli::startup::input::prepare_input;
use yash_env::system::concurrency::WriteAll;
use yash_semantics::read_eval_loop;
use yash_semantics::trap::run_exit_trap;
use yv_harness::vsh;
use yv_harness::cli::Args;
use yv_harness::out::CasesWriter;
use yv_harness::rng::Rng;
use yv_harness::{coq, json_str};

// ---------------------------------------------------------------------------
// operations and results
// ---------------------------------------------------------------------------

#[derive(Clone, Copy, Debug, PartialEq, Eq)]
enum Acc {
    Rd,
    Wr,
    RdWr,
}

#[derive(Clone, Copy, Debug, Default, PartialEq, Eq)]
struct Flags {
    creat: bool,
    excl: bool,
    trunc: bool,
    append: bool,
    cloexec: bool,
    dir: bool,
}

#[derive(Clone, Copy, Debug, PartialEq, Eq)]
enum Whence {
    Set,
    Cur,
    End,
}

#[derive(Clone, Debug, PartialEq, Eq)]
enum Op {
    Open(String, Acc, Flags, u32),
    Close(i32),
    Dup(i32, i32, bool),
    Dup2(i32, i32),
    Read(i32, usize),
    Write(i32, Vec<u8>),
    Lseek(i32, Whence, i64),
    Fstat(i32),
    Stat(String),
    Umask(u32),
    Chdir(String),
    Getcwd,
    Pipe,
    Readdir(String),
    Getfd(i32),
    Setfd(i32, bool),
    Access(i32),
    /// signals are indices into SIGS
    Sigaction(usize, Disp),
    GetSigaction(usize),
    Raise(usize),
    Caught,
    /// 0 = block, 1 = unblock, 2 = set
    Sigmask(u8, Vec<usize>),
    /// soft RLIMIT_NOFILE
    Setrlimit(u32),
    /// marker: from here on the process is unprivileged (the worker dropped its
    /// privileges when it started)
    DropPriv,
    /// (by the harness, not a System call) set the permission bits
    Chmod(String, u32),
    /// setpgid(0, 0)
    Setpgid0,
    Kill(Target, usize),
    Fork,
    Exit,
}

const SIGS: [&str; 7] = ["USR1", "USR2", "TERM", "INT", "HUP", "TSTP", "CHLD"];
/// index of SIGCHLD in SIGS (never raised by the sequences, only observed)
const CHLD: usize = 6;

/// Who gets the signal (never kill(-1): the check runs as root).
#[derive(Clone, Copy, Debug, PartialEq, Eq)]
enum Target {
    /// kill(getpid())
    Own,
    /// kill(getppid()) — only in a forked child
    Parent,
    /// kill(0)
    Group0,
    /// kill(-getpgrp())
    NegPgid,
    /// kill(-getpid())
    NegPid,
}

impl Target {
    fn coq(self) -> &'static str {
        match self {
            Target::Own => "TSelf",
            Target::Parent => "TParent",
            Target::Group0 => "TGroup0",
            Target::NegPgid => "TNegPgid",
            Target::NegPid => "TNegPid",
        }
    }
}

/// How a forked child ended.
#[derive(Clone, Copy, Debug, PartialEq, Eq)]
enum CStat {
    Exited,
    /// index into SIGS (usize::MAX = another signal)
    Signaled(usize),
}

/// How a child of the wait stream ended.
#[derive(Clone, Copy, Debug, PartialEq, Eq)]
enum WStat {
    Exited(i32),
    /// index into SIGS (usize::MAX = another signal)
    Signaled(usize),
}

/// One call a child of the wait stream performs itself.
#[derive(Clone, Debug, PartialEq, Eq)]
enum CCmd {
    Exit(i32),
    /// kill(getpid(), sig)
    SelfKill(usize),
    /// 0 = block, 1 = unblock, 2 = set
    Mask(u8, Vec<usize>),
    /// setpgid(0, 0)
    Setpgid,
}

/// Stream 4 (several children alive together): the parent's calls, and the
/// calls it makes its children perform (each child waits for commands on a pipe).
#[derive(Clone, Debug, PartialEq, Eq)]
enum WOp {
    /// a call of the parent (signals only are generated)
    Parent(Op),
    Fork,
    /// child k (in fork order) performs the call
    Cmd(usize, CCmd),
    /// the parent sends the signal to child k
    Kill(usize, usize),
    /// waitpid(-1 / pid of child k, WNOHANG)
    Wait(Option<usize>),
}

impl CCmd {
    fn coq(&self) -> String {
        match self {
            CCmd::Exit(n) => format!("(CExit {})", coq::n(*n as u64)),
            CCmd::SelfKill(s) => format!("(CSelfKill {})", coq::n(*s as u64)),
            CCmd::Mask(h, l) => format!("(CMask {} {})", coq::n(*h as u64), sig_list_coq(l)),
            CCmd::Setpgid => "CSetpgid".into(),
        }
    }
    fn show(&self) -> String {
        match self {
            CCmd::Exit(n) => format!("exit({n})"),
            CCmd::SelfKill(s) => format!("kill(getpid(),{})", SIGS[*s]),
            CCmd::Mask(h, l) => format!(
                "sigmask({},{:?})",
                ["block", "unblock", "set"][*h as usize],
                l.iter().map(|s| SIGS[*s]).collect::<Vec<_>>()
            ),
            CCmd::Setpgid => "setpgid(0,0)".into(),
        }
    }
}

impl WOp {
    fn coq(&self) -> String {
        match self {
            WOp::Parent(o) => format!("(WParent {})", o.coq()),
            WOp::Fork => "WFork".into(),
            WOp::Cmd(k, c) => format!("(WCmd {} {})", coq::nat(*k), c.coq()),
            WOp::Kill(k, s) => format!("(WKill {} {})", coq::nat(*k), coq::n(*s as u64)),
            WOp::Wait(None) => "(WWait None)".into(),
            WOp::Wait(Some(k)) => format!("(WWait (Some {}))", coq::nat(*k)),
        }
    }
    fn show(&self) -> String {
        match self {
            WOp::Parent(o) => o.show(),
            WOp::Fork => "fork".into(),
            WOp::Cmd(k, c) => format!("child{k}:{}", c.show()),
            WOp::Kill(k, s) => format!("kill(child{k},{})", SIGS[*s]),
            WOp::Wait(None) => "wait(-1)".into(),
            WOp::Wait(Some(k)) => format!("wait(child{k})"),
        }
    }
    fn class(&self) -> &'static str {
        match self {
            WOp::Parent(_) => "parent-signal-call",
            WOp::Fork => "fork",
            WOp::Cmd(_, CCmd::Exit(_)) => "child-exit",
            WOp::Cmd(_, CCmd::SelfKill(_)) => "child-self-kill",
            WOp::Cmd(_, CCmd::Mask(..)) => "child-sigmask",
            WOp::Cmd(_, CCmd::Setpgid) => "child-setpgid",
            WOp::Kill(..) => "kill-child",
            WOp::Wait(None) => "wait-any",
            WOp::Wait(Some(_)) => "wait-pid",
        }
    }
}

#[derive(Clone, Copy, Debug, PartialEq, Eq)]
enum Disp {
    Default,
    Ignore,
    Catch,
}

impl Disp {
    fn coq(self) -> &'static str {
        match self {
            Disp::Default => "DDefault",
            Disp::Ignore => "DIgnore",
            Disp::Catch => "DCatch",
        }
    }
    fn real(self) -> yash_env::system::Disposition {
        use yash_env::system::Disposition as D;
        match self {
            Disp::Default => D::Default,
            Disp::Ignore => D::Ignore,
            Disp::Catch => D::Catch,
        }
    }
    fn of(d: yash_env::system::Disposition) -> Disp {
        use yash_env::system::Disposition as D;
        match d {
            D::Default => Disp::Default,
            D::Ignore => Disp::Ignore,
            D::Catch => Disp::Catch,
        }
    }
}

#[derive(Clone, Copy, Debug, PartialEq, Eq)]
enum Kind {
    Reg,
    Dir,
    Fifo,
    Other,
}

#[derive(Clone, Debug, PartialEq, Eq)]
enum Res {
    Fd(i32),
    Unit,
    Bytes(Vec<u8>),
    Count(usize),
    Off(u64),
    Stat(Kind, u64, u32),
    Mode(u32),
    Path(Vec<String>),
    Pipe(i32, i32),
    Names(Vec<String>),
    Flag(bool),
    Acc(Acc),
    Err(&'static str),
    Disp(Disp),
    Sigs(Vec<usize>),
    /// not executed: the process had been killed
    Skip,
    Child(CStat),
    /// wait stream: nothing to report yet / ECHILD / child k ended
    WNone,
    WNoChild,
    WGot(usize, WStat),
    Hang,
    Panic,
}

const ERRNOS: [&str; 13] = [
    "ENOENT", "EEXIST", "ENOTDIR", "EISDIR", "EBADF", "EINVAL", "ESPIPE", "EPIPE", "EMFILE",
    "EACCES", "ELOOP", "ESRCH", "EOTHER",
];

fn errno_name(e: Errno) -> &'static str {
    match e {
        Errno::ENOENT => "ENOENT",
        Errno::EEXIST => "EEXIST",
        Errno::ENOTDIR => "ENOTDIR",
        Errno::EISDIR => "EISDIR",
        Errno::EBADF => "EBADF",
        Errno::EINVAL => "EINVAL",
        Errno::ESPIPE => "ESPIPE",
        Errno::EPIPE => "EPIPE",
        Errno::EMFILE => "EMFILE",
        Errno::EACCES => "EACCES",
        Errno::ELOOP => "ELOOP",
        Errno::ESRCH => "ESRCH",
        _ => "EOTHER",
    }
}

fn hex(b: &[u8]) -> String {
    b.iter().map(|x| format!("{:02x}", x)).collect()
}
fn unhex(s: &str) -> Vec<u8> {
    (0..s.len() / 2).map(|i| u8::from_str_radix(&s[2 * i..2 * i + 2], 16).unwrap()).collect()
}

impl Acc {
    fn coq(self) -> &'static str {
        match self {
            Acc::Rd => "ARd",
            Acc::Wr => "AWr",
            Acc::RdWr => "ARdWr",
        }
    }
    fn real(self) -> OfdAccess {
        match self {
            Acc::Rd => OfdAccess::ReadOnly,
            Acc::Wr => OfdAccess::WriteOnly,
            Acc::RdWr => OfdAccess::ReadWrite,
        }
    }
    fn show(self) -> &'static str {
        match self {
            Acc::Rd => "r",
            Acc::Wr => "w",
            Acc::RdWr => "rw",
        }
    }
}

impl Kind {
    fn coq(self) -> &'static str {
        match self {
            Kind::Reg => "KReg",
            Kind::Dir => "KDir",
            Kind::Fifo => "KFifo",
            Kind::Other => "KOther",
        }
    }
    fn parse(s: &str) -> Kind {
        match s {
            "KReg" => Kind::Reg,
            "KDir" => Kind::Dir,
            "KFifo" => Kind::Fifo,
            _ => Kind::Other,
        }
    }
}

impl Flags {
    /// `empty` is an empty `EnumSet<OpenFlag>` (the crate is not a direct
    /// dependency of the harness, so the type is not named here).
    fn set<E: std::ops::BitOrAssign<OpenFlag>>(self, empty: E) -> E {
        let mut s = empty;
        if self.creat {
            s |= OpenFlag::Create;
        }
        if self.excl {
            s |= OpenFlag::Exclusive;
        }
        if self.trunc {
            s |= OpenFlag::Truncate;
        }
        if self.append {
            s |= OpenFlag::Append;
        }
        if self.cloexec {
            s |= OpenFlag::CloseOnExec;
        }
        if self.dir {
            s |= OpenFlag::Directory;
        }
        s
    }
    fn coq(self) -> String {
        format!(
            "(mkFl {} {} {} {} {} {})",
            coq::b(self.creat),
            coq::b(self.excl),
            coq::b(self.trunc),
            coq::b(self.append),
            coq::b(self.cloexec),
            coq::b(self.dir)
        )
    }
    fn show(self) -> String {
        let mut v = vec![];
        for (b, n) in [
            (self.creat, "creat"),
            (self.excl, "excl"),
            (self.trunc, "trunc"),
            (self.append, "append"),
            (self.cloexec, "cloexec"),
            (self.dir, "directory"),
        ] {
            if b {
                v.push(n);
            }
        }
        v.join("|")
    }
}

fn fdn(fd: i32) -> String {
    coq::n(fd as u64)
}

impl Op {
    fn coq(&self) -> String {
        match self {
            Op::Open(p, a, f, m) => {
                format!("(OOpen {} {} {} {})", coq::s(p), a.coq(), f.coq(), coq::n(*m as u64))
            }
            Op::Close(fd) => format!("(OClose {})", fdn(*fd)),
            Op::Dup(fd, m, cx) => format!("(ODup {} {} {})", fdn(*fd), fdn(*m), coq::b(*cx)),
            Op::Dup2(fd, to) => format!("(ODup2 {} {})", fdn(*fd), fdn(*to)),
            Op::Read(fd, n) => format!("(ORead {} {})", fdn(*fd), coq::n(*n as u64)),
            Op::Write(fd, b) => format!("(OWrite {} {})", fdn(*fd), coq::bytes(b)),
            Op::Lseek(fd, w, off) => format!(
                "(OLseek {} {} {})",
                fdn(*fd),
                match w {
                    Whence::Set => "WSet",
                    Whence::Cur => "WCur",
                    Whence::End => "WEnd",
                },
                coq::z(*off as i128)
            ),
            Op::Fstat(fd) => format!("(OFstat {})", fdn(*fd)),
            Op::Stat(p) => format!("(OStat {})", coq::s(p)),
            Op::Umask(m) => format!("(OUmask {})", coq::n(*m as u64)),
            Op::Chdir(p) => format!("(OChdir {})", coq::s(p)),
            Op::Getcwd => "OGetcwd".into(),
            Op::Pipe => "OPipe".into(),
            Op::Readdir(p) => format!("(OReaddir {})", coq::s(p)),
            Op::Getfd(fd) => format!("(OGetfd {})", fdn(*fd)),
            Op::Setfd(fd, cx) => format!("(OSetfd {} {})", fdn(*fd), coq::b(*cx)),
            Op::Access(fd) => format!("(OAccess {})", fdn(*fd)),
            Op::Sigaction(s, d) => format!("(OSigaction {} {})", coq::n(*s as u64), d.coq()),
            Op::GetSigaction(s) => format!("(OGetSigaction {})", coq::n(*s as u64)),
            Op::Raise(s) => format!("(ORaise {})", coq::n(*s as u64)),
            Op::Caught => "OCaught".into(),
            Op::Sigmask(h, l) => format!("(OSigmask {} {})", coq::n(*h as u64), sig_list_coq(l)),
            Op::Setrlimit(n) => format!("(OSetrlimit {})", coq::n(*n as u64)),
            Op::DropPriv => "ODropPriv".into(),
            Op::Chmod(p, m) => format!("(OChmod {} {})", coq::s(p), coq::n(*m as u64)),
            Op::Setpgid0 => "OSetpgid0".into(),
            Op::Kill(tg, s) => format!("(OKill {} {})", tg.coq(), coq::n(*s as u64)),
            Op::Fork => "OFork".into(),
            Op::Exit => "OExit".into(),
        }
    }
    fn show(&self) -> String {
        match self {
            Op::Open(p, a, f, m) => format!("open({p:?},{},{},{:o})", a.show(), f.show(), m),
            Op::Close(fd) => format!("close({fd})"),
            Op::Dup(fd, m, cx) => format!("dup({fd},min={m},cloexec={cx})"),
            Op::Dup2(fd, to) => format!("dup2({fd},{to})"),
            Op::Read(fd, n) => format!("read({fd},{n})"),
            Op::Write(fd, b) => format!("write({fd},{:?})", String::from_utf8_lossy(b)),
            Op::Lseek(fd, w, off) => format!("lseek({fd},{w:?},{off})"),
            Op::Fstat(fd) => format!("fstat({fd})"),
            Op::Stat(p) => format!("stat({p:?})"),
            Op::Umask(m) => format!("umask({:o})", m),
            Op::Chdir(p) => format!("chdir({p:?})"),
            Op::Getcwd => "getcwd()".into(),
            Op::Pipe => "pipe()".into(),
            Op::Readdir(p) => format!("readdir({p:?})"),
            Op::Getfd(fd) => format!("getfd({fd})"),
            Op::Setfd(fd, cx) => format!("setfd({fd},cloexec={cx})"),
            Op::Access(fd) => format!("ofd_access({fd})"),
            Op::Sigaction(s, d) => format!("sigaction({},{:?})", SIGS[*s], d),
            Op::GetSigaction(s) => format!("get_sigaction({})", SIGS[*s]),
            Op::Raise(s) => format!("raise({})", SIGS[*s]),
            Op::Caught => "caught_signals()".into(),
            Op::Sigmask(h, l) => format!(
                "sigmask({},{:?})",
                ["block", "unblock", "set"][*h as usize],
                l.iter().map(|s| SIGS[*s]).collect::<Vec<_>>()
            ),
            Op::Setrlimit(n) => format!("setrlimit(NOFILE,{n})"),
            Op::DropPriv => "drop-privileges".into(),
            Op::Chmod(p, m) => format!("chmod({p:?},{:o})", m),
            Op::Setpgid0 => "setpgid(0,0)".into(),
            Op::Kill(tg, s) => format!("kill({:?},{})", tg, SIGS[*s]),
            Op::Fork => "fork{".into(),
            Op::Exit => "}exit".into(),
        }
    }
    fn class(&self) -> &'static str {
        match self {
            Op::Open(..) => "open",
            Op::Close(..) => "close",
            Op::Dup(..) => "dup",
            Op::Dup2(..) => "dup2",
            Op::Read(..) => "read",
            Op::Write(..) => "write",
            Op::Lseek(..) => "lseek",
            Op::Fstat(..) => "fstat",
            Op::Stat(..) => "stat",
            Op::Umask(..) => "umask",
            Op::Chdir(..) => "chdir",
            Op::Getcwd => "getcwd",
            Op::Pipe => "pipe",
            Op::Readdir(..) => "readdir",
            Op::Getfd(..) | Op::Setfd(..) | Op::Access(..) => "fcntl",
            Op::Sigaction(..) | Op::GetSigaction(..) | Op::Raise(..) | Op::Caught | Op::Sigmask(..) => "signal",
            Op::Setrlimit(..) => "setrlimit",
            Op::DropPriv | Op::Chmod(..) => "perm",
            Op::Setpgid0 | Op::Kill(..) => "kill",
            Op::Fork | Op::Exit => "fork",
        }
    }
}

fn sig_list_coq(l: &[usize]) -> String {
    let v: Vec<String> = l.iter().map(|s| format!("{}", s)).collect();
    if v.is_empty() { "(@nil N)".into() } else { format!("[{}]%N", v.join("; ")) }
}

fn coq_names(l: &[String]) -> String {
    let v: Vec<String> = l.iter().map(|s| coq::s(s)).collect();
    if v.is_empty() { "(@nil str)".into() } else { coq::list(&v) }
}

impl Res {
    fn coq(&self) -> String {
        match self {
            Res::Fd(n) => format!("(RFd {})", fdn(*n)),
            Res::Unit => "RUnit".into(),
            Res::Bytes(b) => format!("(RBytes {})", coq::bytes(b)),
            Res::Count(n) => format!("(RCount {})", coq::n(*n as u64)),
            Res::Off(n) => format!("(ROff {})", coq::n(*n)),
            Res::Stat(k, s, p) => {
                format!("(RStat {} {} {})", k.coq(), coq::n(*s), coq::n(*p as u64))
            }
            Res::Mode(m) => format!("(RMode {})", coq::n(*m as u64)),
            Res::Path(p) => format!("(RPath {})", coq_names(p)),
            Res::Pipe(r, w) => format!("(RPipe {} {})", fdn(*r), fdn(*w)),
            Res::Names(l) => format!("(RNames {})", coq_names(l)),
            Res::Flag(b) => format!("(RFlag {})", coq::b(*b)),
            Res::Acc(a) => format!("(RAcc {})", a.coq()),
            Res::Err(e) => format!("(RErr {})", e),
            Res::Disp(d) => format!("(RDisp {})", d.coq()),
            Res::Sigs(l) => format!("(RSigs {})", sig_list_coq(l)),
            Res::Skip => "RSkip".into(),
            Res::Child(CStat::Exited) => "(RChild CExited)".into(),
            Res::Child(CStat::Signaled(s)) => format!("(RChild (CSignaled {}))", coq::n(*s as u64)),
            Res::Hang => "RHang".into(),
            Res::Panic => "RPanic".into(),
            // (wait stream only: printed by `wcoq`)
            Res::WNone | Res::WNoChild | Res::WGot(..) => "RPanic".into(),
        }
    }
    /// as a `wres` of Wait.v
    fn wcoq(&self) -> String {
        match self {
            Res::WNone => "WRNone".into(),
            Res::WNoChild => "WRNoChild".into(),
            Res::WGot(k, WStat::Exited(n)) => format!("(WRGot {} (WExited {}))", coq::nat(*k), coq::n(*n as u64)),
            Res::WGot(k, WStat::Signaled(s)) => format!("(WRGot {} (WSignaled {}))", coq::nat(*k), coq::n(*s as u64)),
            other => format!("(WR {})", other.coq()),
        }
    }
    fn show(&self) -> String {
        match self {
            Res::Bytes(b) => format!("bytes {:?}", String::from_utf8_lossy(b)),
            Res::Stat(k, s, p) => format!("stat {:?} size={} perm={:o}", k, s, p),
            Res::Mode(m) => format!("mode {:o}", m),
            Res::Path(p) => format!("path /{}", p.join("/")),
            Res::Sigs(l) => format!("signals {:?}", l.iter().map(|s| SIGS[*s]).collect::<Vec<_>>()),
            other => format!("{:?}", other),
        }
    }
    /// one-line text form used between the worker process and the generator
    fn enc(&self) -> String {
        match self {
            Res::Fd(n) => format!("fd {n}"),
            Res::Unit => "unit".into(),
            Res::Bytes(b) => format!("bytes {}", hex(b)),
            Res::Count(n) => format!("count {n}"),
            Res::Off(n) => format!("off {n}"),
            Res::Stat(k, s, p) => format!("stat {} {} {}", k.coq(), s, p),
            Res::Mode(m) => format!("mode {m}"),
            Res::Path(p) => format!("path {}", p.iter().map(|s| hex(s.as_bytes())).collect::<Vec<_>>().join(",")),
            Res::Pipe(r, w) => format!("pipe {r} {w}"),
            Res::Names(l) => format!("names {}", l.iter().map(|s| hex(s.as_bytes())).collect::<Vec<_>>().join(",")),
            Res::Flag(b) => format!("flag {}", *b as u8),
            Res::Acc(a) => format!("acc {}", a.show()),
            Res::Err(e) => format!("err {e}"),
            Res::Disp(d) => format!("disp {}", d.coq()),
            Res::Sigs(l) => format!("sigs {}", l.iter().map(|s| s.to_string()).collect::<Vec<_>>().join(",")),
            Res::Skip => "skip".into(),
            Res::Child(CStat::Exited) => "child exited".into(),
            Res::Child(CStat::Signaled(s)) => format!("child signaled {s}"),
            Res::Hang => "hang".into(),
            Res::Panic => "panic".into(),
            Res::WNone => "wnone".into(),
            Res::WNoChild => "wnochild".into(),
            Res::WGot(k, WStat::Exited(n)) => format!("wgot {k} exited {n}"),
            Res::WGot(k, WStat::Signaled(x)) => format!("wgot {k} signaled {x}"),
        }
    }
    fn dec(s: &str) -> Res {
        let mut it = s.split(' ');
        let k = it.next().unwrap_or("");
        let a: Vec<&str> = it.collect();
        let names = |x: &str| -> Vec<String> {
            if x.is_empty() {
                vec![]
            } else {
                x.split(',').map(|h| String::from_utf8_lossy(&unhex(h)).into_owned()).collect()
            }
        };
        match k {
            "fd" => Res::Fd(a[0].parse().unwrap()),
            "unit" => Res::Unit,
            "bytes" => Res::Bytes(unhex(a.first().copied().unwrap_or(""))),
            "count" => Res::Count(a[0].parse().unwrap()),
            "off" => Res::Off(a[0].parse().unwrap()),
            "stat" => Res::Stat(Kind::parse(a[0]), a[1].parse().unwrap(), a[2].parse().unwrap()),
            "mode" => Res::Mode(a[0].parse().unwrap()),
            "path" => Res::Path(names(a.first().copied().unwrap_or(""))),
            "pipe" => Res::Pipe(a[0].parse().unwrap(), a[1].parse().unwrap()),
            "names" => Res::Names(names(a.first().copied().unwrap_or(""))),
            "flag" => Res::Flag(a[0] == "1"),
            "acc" => Res::Acc(match a[0] {
                "r" => Acc::Rd,
                "w" => Acc::Wr,
                _ => Acc::RdWr,
            }),
            "err" => Res::Err(ERRNOS.iter().find(|e| **e == a[0]).copied().unwrap_or("EOTHER")),
            "disp" => Res::Disp(match a[0] {
                "DIgnore" => Disp::Ignore,
                "DCatch" => Disp::Catch,
                _ => Disp::Default,
            }),
            "sigs" => Res::Sigs(
                a.first().copied().unwrap_or("").split(',').filter(|x| !x.is_empty()).map(|x| x.parse().unwrap()).collect(),
            ),
            "skip" => Res::Skip,
            "child" => Res::Child(if a[0] == "exited" { CStat::Exited } else { CStat::Signaled(a[1].parse().unwrap()) }),
            "panic" => Res::Panic,
            "wnone" => Res::WNone,
            "wnochild" => Res::WNoChild,
            "wgot" => Res::WGot(
                a[0].parse().unwrap(),
                if a[1] == "exited" { WStat::Exited(a[2].parse().unwrap()) } else { WStat::Signaled(a[2].parse().unwrap()) },
            ),
            _ => Res::Hang,
        }
    }
}

/// (path below the root, kind, permission bits, content)
type TreeEntry = (Vec<String>, Kind, u32, Vec<u8>);

fn tree_coq(t: &[TreeEntry]) -> String {
    let v: Vec<String> = t
        .iter()
        .map(|(p, k, m, d)| {
            format!("({}, {}, {}, {})", coq_names(p), k.coq(), coq::n(*m as u64), coq::bytes(d))
        })
        .collect();
    if v.is_empty() { "(@nil tree_entry)".into() } else { coq::list(&v) }
}
fn tree_enc(t: &[TreeEntry]) -> String {
    t.iter()
        .map(|(p, k, m, d)| {
            format!(
                "{}:{}:{}:{}",
                p.iter().map(|s| hex(s.as_bytes())).collect::<Vec<_>>().join(","),
                k.coq(),
                m,
                hex(d)
            )
        })
        .collect::<Vec<_>>()
        .join(";")
}
fn tree_dec(s: &str) -> Vec<TreeEntry> {
    if s.is_empty() {
        return vec![];
    }
    s.split(';')
        .map(|e| {
            let f: Vec<&str> = e.split(':').collect();
            let p = if f[0].is_empty() {
                vec![]
            } else {
                f[0].split(',').map(|h| String::from_utf8_lossy(&unhex(h)).into_owned()).collect()
            };
            (p, Kind::parse(f[1]), f[2].parse().unwrap(), unhex(f[3]))
        })
        .collect()
}
fn tree_show(t: &[TreeEntry]) -> String {
    t.iter()
        .map(|(p, k, m, d)| match k {
            Kind::Reg => format!("/{} {:o} {:?}", p.join("/"), m, String::from_utf8_lossy(d)),
            _ => format!("/{} {:?} {:o}", p.join("/"), k, m),
        })
        .collect::<Vec<_>>()
        .join(" | ")
}

/// What one system showed for one sequence.
#[derive(Clone, Debug, Default, PartialEq)]
struct SysObs {
    res: Vec<Res>,
    tree: Vec<TreeEntry>,
    std: Vec<Vec<u8>>,
}

impl SysObs {
    fn coq(&self) -> String {
        let r: Vec<String> = self.res.iter().map(|r| r.coq()).collect();
        let s: Vec<String> = self.std.iter().map(|b| coq::bytes(b)).collect();
        format!(
            "(mkSysObs {} {} {})",
            if r.is_empty() { "(@nil res)".into() } else { coq::list(&r) },
            tree_coq(&self.tree),
            if s.is_empty() { "(@nil (list N))".into() } else { coq::list(&s) }
        )
    }
}

// ---------------------------------------------------------------------------
// the generic driver: one piece of code for both systems
// ---------------------------------------------------------------------------

/// Everything stream 1 needs from a system.
trait SysOps:
    Open + Close + Dup + Read + Write + Seek + Fstat + Umask + Chdir + GetCwd + Pipe + Fcntl
    + Fork + Wait + Exit + yash_env::system::Sigaction + yash_env::system::Sigmask
    + yash_env::system::CaughtSignals + yash_env::system::SendSignal
    + yash_env::system::resource::GetRlimit + yash_env::system::resource::SetRlimit
    + yash_env::system::GetPid + yash_env::system::SetPgid + yash_env::system::GetUid + Sized + 'static
{
    const REAL: bool;
    /// chmod by the harness (the System traits have none); `path` as the system sees it
    fn harness_chmod(&self, path: &str, mode: u32) -> Result<(), Errno>;
    /// (synchronisation of the wait stream, not a compared call) has the child
    /// terminated, so that wait() can report it?  The real side blocks until it has.
    fn harness_halted(&self, pid: yash_env::job::Pid) -> bool;
    /// the numbers of SIGS on this system
    fn sig(i: usize) -> yash_env::signal::Number {
        [Self::SIGUSR1, Self::SIGUSR2, Self::SIGTERM, Self::SIGINT, Self::SIGHUP, Self::SIGTSTP, Self::SIGCHLD][i]
    }
}

/// Sets the soft RLIMIT_NOFILE (None = as high as the hard limit allows).
fn set_nofile<S: SysOps>(sys: &S, n: Option<u32>) -> Result<(), Errno> {
    use yash_env::system::resource::{INFINITY, LimitPair, Resource};
    let cur = sys.getrlimit(Resource::NOFILE)?;
    let soft = match n {
        Some(n) => n as _,
        None => if cur.hard == INFINITY { 4096 } else { cur.hard },
    };
    sys.setrlimit(Resource::NOFILE, LimitPair { soft, hard: cur.hard })
}
impl SysOps for VirtualSystem {
    const REAL: bool = false;
    fn harness_chmod(&self, path: &str, mode: u32) -> Result<(), Errno> {
        let p = yash_env::path::Path::new(path);
        let abs = if p.is_absolute() { p.to_path_buf() } else { self.current_process().getcwd().join(p) };
        let inode = self.state.borrow().file_system.get(&abs)?;
        inode.borrow_mut().permissions = Mode::from_bits_retain(mode as _);
        Ok(())
    }
    fn harness_halted(&self, pid: yash_env::job::Pid) -> bool {
        !self.state.borrow().processes.get(&pid).is_some_and(|p| p.state().is_alive())
    }
}
impl SysOps for RealSystem {
    const REAL: bool = true;
    fn harness_chmod(&self, path: &str, mode: u32) -> Result<(), Errno> {
        std::fs::set_permissions(path, std::fs::Permissions::from_mode(mode))
            .map_err(|e| Errno(e.raw_os_error().unwrap_or(0)))
    }
    fn harness_halted(&self, pid: yash_env::job::Pid) -> bool {
        // waitid(WNOWAIT) returns when the child can be waited for and leaves it so
        loop {
            let mut info: libc::siginfo_t = unsafe { std::mem::zeroed() };
            let r = unsafe { libc::waitid(libc::P_PID, pid.0 as libc::id_t, &mut info, libc::WEXITED | libc::WNOWAIT) };
            if r == 0 || std::io::Error::last_os_error().raw_os_error() != Some(libc::EINTR) {
                return true;
            }
        }
    }
}

/// Where results go: a vector (same address space) or a pipe (the real
/// system's forked children are other processes).
trait Sink: Clone + 'static {
    fn emit(&self, r: Res);
}
#[derive(Clone, Default)]
struct MemSink(Rc<RefCell<Vec<Res>>>);
impl Sink for MemSink {
    fn emit(&self, r: Res) {
        self.0.borrow_mut().push(r);
    }
}
const SINK_FD: i32 = 250;
#[derive(Clone)]
struct FdSink;
fn sink_line(line: &str) {
    // one write(2) per line; parent and forked children share the pipe
    let sys = unsafe { RealSystem::new() };
    let data = format!("{line}\n");
    let mut buf = data.as_bytes();
    while !buf.is_empty() {
        match now(sys.write(Fd(SINK_FD), buf)) {
            Some(Ok(n)) if n > 0 => buf = &buf[n..],
            _ => break,
        }
    }
}
impl Sink for FdSink {
    fn emit(&self, r: Res) {
        sink_line(&format!("R {}", r.enc()));
    }
}

/// Polls a future once (the real system's futures are always ready).
fn now<F: Future>(f: F) -> Option<F::Output> {
    let mut f = std::pin::pin!(f);
    match f.as_mut().poll(&mut Context::from_waker(std::task::Waker::noop())) {
        Poll::Ready(x) => Some(x),
        Poll::Pending => None,
    }
}

struct YieldNow(bool);
impl Future for YieldNow {
    type Output = ();
    fn poll(mut self: Pin<&mut Self>, cx: &mut Context<'_>) -> Poll<()> {
        if self.0 {
            Poll::Ready(())
        } else {
            self.0 = true;
            cx.waker().wake_by_ref();
            Poll::Pending
        }
    }
}

fn cstr(p: &str) -> CString {
    CString::new(p).unwrap()
}

/// A path of a sequence as the system sees it: a leading '/' stands for the
/// scratch root.
fn pth(p: &str, root: &str) -> CString {
    if p == "/" {
        cstr(root)
    } else if p.starts_with('/') {
        cstr(&format!("{root}{p}"))
    } else {
        cstr(p)
    }
}

fn stat_res<T: Stat>(st: &T) -> Res {
    let kind = match st.r#type() {
        FileType::Regular => Kind::Reg,
        FileType::Directory => Kind::Dir,
        FileType::Fifo => Kind::Fifo,
        _ => Kind::Other,
    };
    // canonical: size of regular files only, permission bits of files and
    // directories only (pipes have implementation-specific values)
    let size = if kind == Kind::Reg { st.size() } else { 0 };
    let perm = if kind == Kind::Reg || kind == Kind::Dir { st.mode().bits() as u32 & 0o777 } else { 0 };
    Res::Stat(kind, size, perm)
}

fn strip_root(path: &[u8], root: &str) -> Res {
    let p = String::from_utf8_lossy(path).into_owned();
    if p == root {
        return Res::Path(vec![]);
    }
    match p.strip_prefix(&format!("{root}/")) {
        Some(rest) => Res::Path(rest.split('/').map(|s| s.to_string()).collect()),
        None => Res::Path(vec!["<outside>".into(), p]),
    }
}

fn e(r: Errno) -> Res {
    Res::Err(errno_name(r))
}

async fn exec_op<S: SysOps>(sys: &S, op: &Op, root: &str, depth: usize) -> Res {
    match op {
        Op::Open(p, a, f, m) => {
            let flags = f.set(OpenFlag::Create & OpenFlag::Append);
            match sys.open(&pth(p, root), a.real(), flags, Mode::from_bits_retain(*m as _)).await {
                Ok(fd) => Res::Fd(fd.0),
                Err(x) => e(x),
            }
        }
        Op::Close(fd) => match sys.close(Fd(*fd)) {
            Ok(()) => Res::Unit,
            Err(x) => e(x),
        },
        Op::Dup(fd, min, cx) => {
            let flags = if *cx { FdFlag::CloseOnExec.into() } else { Default::default() };
            match sys.dup(Fd(*fd), Fd(*min), flags) {
                Ok(fd) => Res::Fd(fd.0),
                Err(x) => e(x),
            }
        }
        Op::Dup2(fd, to) => match sys.dup2(Fd(*fd), Fd(*to)) {
            Ok(fd) => Res::Fd(fd.0),
            Err(x) => e(x),
        },
        Op::Read(fd, n) => {
            let mut buf = vec![0u8; *n];
            match sys.read(Fd(*fd), &mut buf).await {
                Ok(k) => Res::Bytes(buf[..k].to_vec()),
                Err(x) => e(x),
            }
        }
        Op::Write(fd, b) => match sys.write(Fd(*fd), b).await {
            Ok(k) => Res::Count(k),
            Err(x) => e(x),
        },
        Op::Lseek(fd, w, off) => {
            let pos = match w {
                Whence::Set => {
                    assert!(*off >= 0, "generator: negative SEEK_SET offset");
                    SeekFrom::Start(*off as u64)
                }
                Whence::Cur => SeekFrom::Current(*off),
                Whence::End => SeekFrom::End(*off),
            };
            match sys.lseek(Fd(*fd), pos) {
                Ok(n) => Res::Off(n),
                Err(x) => e(x),
            }
        }
        Op::Fstat(fd) => match sys.fstat(Fd(*fd)) {
            Ok(st) => stat_res(&st),
            Err(x) => e(x),
        },
        Op::Stat(p) => match sys.fstatat(AT_FDCWD, &pth(p, root), true) {
            Ok(st) => stat_res(&st),
            Err(x) => e(x),
        },
        Op::Umask(m) => Res::Mode(sys.umask(Mode::from_bits_retain(*m as _)).bits() as u32 & 0o777),
        Op::Chdir(p) => match sys.chdir(&pth(p, root)) {
            Ok(()) => Res::Unit,
            Err(x) => e(x),
        },
        Op::Getcwd => match sys.getcwd() {
            Ok(p) => strip_root(p.as_unix_str().as_bytes(), root),
            Err(x) => e(x),
        },
        Op::Pipe => match sys.pipe() {
            Ok((r, w)) => Res::Pipe(r.0, w.0),
            Err(x) => e(x),
        },
        Op::Readdir(p) => match sys.opendir(&pth(p, root)) {
            Ok(mut dir) => {
                let mut names = vec![];
                loop {
                    match dir.next() {
                        Ok(Some(ent)) => {
                            let n = String::from_utf8_lossy(ent.name.as_bytes()).into_owned();
                            if n != "." && n != ".." {
                                names.push(n);
                            }
                        }
                        Ok(None) => break,
                        Err(x) => return e(x),
                    }
                }
                names.sort();
                Res::Names(names)
            }
            Err(x) => e(x),
        },
        Op::Getfd(fd) => match sys.fcntl_getfd(Fd(*fd)) {
            Ok(f) => Res::Flag(f.contains(FdFlag::CloseOnExec)),
            Err(x) => e(x),
        },
        Op::Setfd(fd, cx) => {
            let flags = if *cx { FdFlag::CloseOnExec.into() } else { Default::default() };
            match sys.fcntl_setfd(Fd(*fd), flags) {
                Ok(()) => Res::Unit,
                Err(x) => e(x),
            }
        }
        Op::Access(fd) => match sys.ofd_access(Fd(*fd)) {
            Ok(OfdAccess::ReadOnly) => Res::Acc(Acc::Rd),
            Ok(OfdAccess::WriteOnly) => Res::Acc(Acc::Wr),
            Ok(OfdAccess::ReadWrite) => Res::Acc(Acc::RdWr),
            Ok(_) => Res::Err("EOTHER"),
            Err(x) => e(x),
        },
        Op::Sigaction(s, d) => match sys.sigaction(S::sig(*s), d.real()) {
            Ok(old) => Res::Disp(Disp::of(old)),
            Err(x) => e(x),
        },
        Op::GetSigaction(s) => match sys.get_sigaction(S::sig(*s)) {
            Ok(old) => Res::Disp(Disp::of(old)),
            Err(x) => e(x),
        },
        Op::Raise(s) => match sys.raise(S::sig(*s)).await {
            Ok(()) => Res::Unit,
            Err(x) => e(x),
        },
        Op::Caught => {
            let got = sys.caught_signals();
            let mut l: Vec<usize> = (0..SIGS.len()).filter(|i| got.contains(&S::sig(*i))).collect();
            l.sort();
            Res::Sigs(l)
        }
        Op::Sigmask(how, sigs) => {
            use yash_env::system::{SigmaskOp, Sigset};
            let mut set = <S as yash_env::system::Sigmask>::Sigset::default();
            for s in sigs {
                let _ = set.insert(S::sig(*s));
            }
            let mut old = <S as yash_env::system::Sigmask>::Sigset::default();
            let op = [SigmaskOp::Add, SigmaskOp::Remove, SigmaskOp::Set][*how as usize];
            match sys.sigmask(Some((op, &set)), Some(&mut old)).await {
                Ok(()) => Res::Sigs((0..SIGS.len()).filter(|i| old.contains(S::sig(*i)) == Ok(true)).collect()),
                Err(x) => e(x),
            }
        }
        Op::Setrlimit(n) => match set_nofile(sys, Some(*n)) {
            Ok(()) => Res::Unit,
            Err(x) => e(x),
        },
        Op::DropPriv => {
            if S::REAL && sys.geteuid().0 == 0 {
                harness_error("a permission sequence is running on a privileged real-side worker");
            }
            Res::Unit
        }
        Op::Chmod(p, m) => {
            let path = pth(p, root).into_string().unwrap();
            match sys.harness_chmod(&path, *m) {
                Ok(()) => Res::Unit,
                Err(x) => e(x),
            }
        }
        Op::Setpgid0 => match sys.setpgid(yash_env::job::Pid(0), yash_env::job::Pid(0)) {
            Ok(()) => Res::Unit,
            Err(x) => e(x),
        },
        Op::Kill(tg, s) => {
            use yash_env::job::Pid;
            let target = match tg {
                Target::Own => sys.getpid(),
                Target::Parent => {
                    // the parent of the first process of a sequence is the harness itself
                    assert!(depth > 0, "generator: kill(getppid()) outside a forked child");
                    sys.getppid()
                }
                Target::Group0 => Pid(0),
                Target::NegPgid => Pid(-sys.getpgrp().0),
                Target::NegPid => Pid(-sys.getpid().0),
            };
            // never "every process" (the check may run as root)
            assert!(target != Pid(-1) && target.0 != 1, "generator: kill({})", target.0);
            match sys.kill(target, Some(S::sig(*s))).await {
                Ok(()) => Res::Unit,
                Err(x) => e(x),
            }
        }
        Op::Fork | Op::Exit => unreachable!(),
    }
}

/// Index of the `Exit` matching the `Fork` at `i`.
fn matching_exit(ops: &[Op], i: usize) -> usize {
    let mut depth = 0;
    for (j, op) in ops.iter().enumerate().skip(i) {
        match op {
            Op::Fork => depth += 1,
            Op::Exit => {
                depth -= 1;
                if depth == 0 {
                    return j;
                }
            }
            _ => {}
        }
    }
    panic!("generator: fork without exit");
}

/// Runs the operations in order; `Fork ... Exit` runs the enclosed operations
/// in a child process while the parent waits for it (subshell schedule).  The
/// child reports the result of `Fork` itself; the parent reports at `Exit` how
/// the child ended.  A child that stops is continued by its parent.  A child
/// that is killed leaves the rest of its operations without results: see
/// [`align`].
fn run_ops<'a, S: SysOps, K: Sink>(
    sys: &'a S,
    ops: &'a [Op],
    root: &'a str,
    sink: &'a K,
    depth: usize,
) -> Pin<Box<dyn Future<Output = ()> + 'a>> {
    Box::pin(async move {
        use yash_env::job::{ProcessResult, ProcessState};
        let mut i = 0;
        while i < ops.len() {
            match &ops[i] {
                Op::Fork => {
                    let j = matching_exit(ops, i);
                    let child_ops: Vec<Op> = ops[i + 1..j].to_vec();
                    let root2 = root.to_string();
                    let sink2 = sink.clone();
                    let (r, _) = sys.run_in_child_process((), async move |csys: S, _| {
                        sink2.emit(Res::Unit);
                        run_ops(&csys, &child_ops, &root2, &sink2, depth + 1).await;
                        csys.exit(ExitStatus(0)).await;
                    });
                    match r {
                        Ok(pid) => {
                            let mut spins = 0u32;
                            loop {
                                match sys.wait(pid) {
                                    Ok(None) => {
                                        if S::REAL {
                                            std::thread::sleep(Duration::from_micros(100));
                                        } else {
                                            // the child is stuck if it has not finished after
                                            // this many turns of the executor
                                            spins += 1;
                                            if spins > 2000 {
                                                std::future::pending::<()>().await;
                                            }
                                            YieldNow(false).await;
                                        }
                                    }
                                    Ok(Some((_, ProcessState::Halted(ProcessResult::Exited(_))))) => {
                                        sink.emit(Res::Child(CStat::Exited));
                                        break;
                                    }
                                    Ok(Some((_, ProcessState::Halted(ProcessResult::Signaled { signal, .. })))) => {
                                        let idx = (0..SIGS.len()).find(|k| S::sig(*k) == signal).unwrap_or(usize::MAX);
                                        sink.emit(Res::Child(CStat::Signaled(idx)));
                                        break;
                                    }
                                    Ok(Some((_, ProcessState::Halted(ProcessResult::Stopped(_))))) => {
                                        // continue it
                                        let _ = sys.kill(pid, Some(S::SIGCONT)).await;
                                    }
                                    Ok(Some((_, ProcessState::Running))) => {}
                                    Err(x) => {
                                        sink.emit(e(x));
                                        break;
                                    }
                                }
                            }
                        }
                        Err(x) => {
                            // no child: its operations have no results
                            sink.emit(e(x));
                            sink.emit(Res::Child(CStat::Signaled(usize::MAX)));
                        }
                    }
                    i = j + 1;
                }
                Op::Exit => panic!("generator: exit without fork"),
                op => {
                    sink.emit(exec_op(sys, op, root, depth).await);
                    i += 1;
                }
            }
        }
    })
}

/// Wait stream: one result per operation, in order; what is missing is `Hang`.
fn align_wait(n: usize, raw: &[Res]) -> Vec<Res> {
    let mut out: Vec<Res> = raw.iter().take(n).cloned().collect();
    while out.len() < n {
        out.push(Res::Hang);
    }
    out
}

/// One result per operation: the raw stream has no results for the operations
/// a killed child did not execute; they get `Skip`, and the `Child` report of
/// the parent goes to the matching `Exit`.
fn align(ops: &[Op], raw: &[Res]) -> Vec<Res> {
    let mut out = Vec::with_capacity(ops.len());
    let mut j = 0;
    let mut i = 0;
    while i < ops.len() {
        let next = raw.get(j);
        match (&ops[i], next) {
            (Op::Exit, Some(Res::Child(_))) => {
                out.push(next.unwrap().clone());
                j += 1;
                i += 1;
            }
            (_, Some(Res::Child(_))) => {
                // the child died here: skip to its exit (nested forks included)
                let mut depth = 0;
                while i < ops.len() {
                    match &ops[i] {
                        Op::Fork => depth += 1,
                        Op::Exit if depth == 0 => break,
                        Op::Exit => depth -= 1,
                        _ => {}
                    }
                    out.push(Res::Skip);
                    i += 1;
                }
            }
            (_, Some(r)) => {
                out.push(r.clone());
                j += 1;
                i += 1;
            }
            (_, None) => {
                out.push(Res::Hang);
                i += 1;
            }
        }
    }
    out
}

// ---------------------------------------------------------------------------
// stream 4: several children alive together (one driver for both systems)
// ---------------------------------------------------------------------------

/// Waits (without reaping) until child `pid` has terminated.
async fn await_halt<S: SysOps>(sys: &S, pid: yash_env::job::Pid) {
    let mut spins = 0u32;
    while !sys.harness_halted(pid) {
        spins += 1;
        if spins > 2000 {
            std::future::pending::<()>().await;
        }
        YieldNow(false).await;
    }
}

/// The body of a child of the wait stream: it performs the command whose index
/// arrives on its command pipe and acknowledges it on its other pipe (a child
/// that dies in a command never acknowledges: the parent sees end-of-file).
async fn wait_child_body<S: SysOps>(csys: S, wops: Vec<WOp>, cr: Fd, aw: Fd, close: Vec<Fd>) {
    use yash_env::job::Pid;
    for fd in close {
        let _ = csys.close(fd);
    }
    loop {
        let mut b = [0u8; 1];
        let n = loop {
            match csys.read(cr, &mut b).await {
                Err(Errno::EINTR) => continue,
                x => break x,
            }
        };
        // A simulated process that was killed while it was blocked in this read is not
        // resumed by a real kernel; the bare VirtualSystem (without the shell's
        // `Concurrent::run_virtual`, which checks this) would run its task on.
        if !S::REAL && csys.harness_halted(csys.getpid()) {
            std::future::pending::<()>().await;
        }
        if n != Ok(1) {
            csys.exit(ExitStatus(98)).await;
        }
        // (255 = are you alive?)
        if let Some(WOp::Cmd(_, cmd)) = wops.get(b[0] as usize) {
            match cmd {
                CCmd::Exit(n) => {
                    csys.exit(ExitStatus(*n)).await;
                }
                CCmd::SelfKill(s) => {
                    let _ = csys.kill(csys.getpid(), Some(S::sig(*s))).await;
                }
                CCmd::Mask(how, sigs) => {
                    use yash_env::system::{SigmaskOp, Sigset};
                    let mut set = <S as yash_env::system::Sigmask>::Sigset::default();
                    for s in sigs {
                        let _ = set.insert(S::sig(*s));
                    }
                    let op = [SigmaskOp::Add, SigmaskOp::Remove, SigmaskOp::Set][*how as usize];
                    let _ = csys.sigmask(Some((op, &set)), None).await;
                }
                CCmd::Setpgid => {
                    let _ = csys.setpgid(Pid(0), Pid(0));
                }
            }
        }
        loop {
            match csys.write(aw, &[1]).await {
                Err(Errno::EINTR) => continue,
                _ => break,
            }
        }
    }
}

/// Sends one command byte to a child and waits for its effect: `Unit` = the
/// child acknowledged, `Skip` = the child died (and can now be waited for).
async fn wait_send<S: SysOps>(sys: &S, pid: yash_env::job::Pid, cmd_w: Fd, ack_r: Fd, byte: u8) -> Res {
    loop {
        match sys.write(cmd_w, &[byte]).await {
            Ok(1) => break,
            Err(Errno::EINTR) => continue,
            Err(Errno::EPIPE) => {
                await_halt(sys, pid).await;
                return Res::Skip;
            }
            Ok(_) => return Res::Err("EOTHER"),
            Err(x) => return e(x),
        }
    }
    let mut b = [0u8; 1];
    loop {
        match sys.read(ack_r, &mut b).await {
            Ok(1) => return Res::Unit,
            Ok(_) => {
                await_halt(sys, pid).await;
                return Res::Skip;
            }
            Err(Errno::EINTR) => continue,
            Err(x) => return e(x),
        }
    }
}

fn run_wait_ops<'a, S: SysOps, K: Sink>(
    sys: &'a S,
    wops: &'a [WOp],
    root: &'a str,
    sink: &'a K,
) -> Pin<Box<dyn Future<Output = ()> + 'a>> {
    Box::pin(async move {
        use yash_env::job::{Pid, ProcessResult, ProcessState};
        use yash_env::system::Disposition;
        struct Ch {
            pid: Pid,
            cmd_w: Fd,
            ack_r: Fd,
        }
        // a write to the pipe of a dead child must fail with EPIPE, not kill the parent
        let _ = sys.sigaction(S::SIGPIPE, Disposition::Ignore);
        let mut chs: Vec<Ch> = vec![];
        for (i, op) in wops.iter().enumerate() {
            match op {
                WOp::Parent(o) => sink.emit(exec_op(sys, o, root, 0).await),
                WOp::Fork => {
                    let pipes = sys.pipe().and_then(|c| sys.pipe().map(|a| (c, a)));
                    let ((cr, cw), (ar, aw)) = match pipes {
                        Ok(p) => p,
                        Err(x) => {
                            sink.emit(e(x));
                            continue;
                        }
                    };
                    let mut close: Vec<Fd> = chs.iter().flat_map(|c| [c.cmd_w, c.ack_r]).collect();
                    close.push(cw);
                    close.push(ar);
                    let ops2 = wops.to_vec();
                    let (r, _) = sys.run_in_child_process((), async move |csys: S, _| {
                        wait_child_body(csys, ops2, cr, aw, close).await;
                    });
                    let _ = sys.close(cr);
                    let _ = sys.close(aw);
                    match r {
                        Ok(pid) => {
                            chs.push(Ch { pid, cmd_w: cw, ack_r: ar });
                            sink.emit(Res::Unit);
                        }
                        Err(x) => sink.emit(e(x)),
                    }
                }
                WOp::Cmd(k, _) => match chs.get(*k) {
                    Some(c) => sink.emit(wait_send(sys, c.pid, c.cmd_w, c.ack_r, i as u8).await),
                    None => sink.emit(Res::Hang),
                },
                WOp::Kill(k, s) => match chs.get(*k) {
                    Some(c) => {
                        let _ = sys.kill(c.pid, Some(S::sig(*s))).await;
                        sink.emit(wait_send(sys, c.pid, c.cmd_w, c.ack_r, 255).await);
                    }
                    None => sink.emit(Res::Hang),
                },
                WOp::Wait(t) => {
                    let target = match t {
                        None => Some(Pid(-1)),
                        Some(k) => chs.get(*k).map(|c| c.pid),
                    };
                    let Some(target) = target else {
                        sink.emit(Res::Hang);
                        continue;
                    };
                    let r = match sys.wait(target) {
                        Ok(None) => Res::WNone,
                        Ok(Some((pid, st))) => {
                            let k = chs.iter().position(|c| c.pid == pid);
                            match (k, st) {
                                (Some(k), ProcessState::Halted(ProcessResult::Exited(x))) => Res::WGot(k, WStat::Exited(x.0)),
                                (Some(k), ProcessState::Halted(ProcessResult::Signaled { signal, .. })) => {
                                    let idx = (0..SIGS.len()).find(|j| S::sig(*j) == signal).unwrap_or(usize::MAX);
                                    Res::WGot(k, WStat::Signaled(idx))
                                }
                                _ => Res::Err("EOTHER"),
                            }
                        }
                        Err(Errno::ECHILD) => Res::WNoChild,
                        Err(x) => e(x),
                    };
                    sink.emit(r);
                }
            }
        }
        // leave no process behind: the next sequence of this worker must not see them
        for c in &chs {
            let _ = sys.kill(c.pid, Some(S::SIGKILL)).await;
        }
        let mut spins = 0u32;
        loop {
            match sys.wait(Pid(-1)) {
                Ok(Some(_)) => {}
                Ok(None) => {
                    if S::REAL {
                        std::thread::sleep(Duration::from_micros(100));
                    } else {
                        spins += 1;
                        if spins > 2000 {
                            break;
                        }
                        YieldNow(false).await;
                    }
                }
                Err(_) => break,
            }
        }
        for c in &chs {
            let _ = sys.close(c.cmd_w);
            let _ = sys.close(c.ack_r);
        }
    })
}

// ---------------------------------------------------------------------------
// one case of stream 1
// ---------------------------------------------------------------------------

/// Initial tree: (path below the root, None = directory / Some = file content);
/// parents first.
type InitTree = Vec<(Vec<String>, Option<Vec<u8>>)>;

#[derive(Clone, Debug)]
struct SysCase {
    tree: InitTree,
    umask: u32,
    ops: Vec<Op>,
    tags: Vec<&'static str>,
}

fn scratch_base() -> String {
    std::env::var("YV_C19_SCRATCH").unwrap_or_else(|_| "/verif/.cache/c19_scratch".to_string())
}

fn dir_inode() -> Rc<RefCell<Inode>> {
    Rc::new(RefCell::new(Inode {
        body: FileBody::Directory { files: Default::default() },
        permissions: Mode::from_bits_retain(0o755),
    }))
}

/// An entry of an initial tree whose content starts with this marker is a
/// symbolic link to the rest of the content (script streams only: the kernel
/// model has no symbolic links).
const LINK: &[u8] = b"\0LINK:";
/// ... and an entry whose content is this marker is a named FIFO.
const FIFO: &[u8] = b"\0FIFO";

/// `name_NNN` (three octal digits): the entry is created with these permission
/// bits (permission scripts; such a tree is run by an unprivileged real shell
/// that owns it).
fn mode_suffix(p: &[String]) -> Option<u32> {
    let name = p.last()?;
    let (_, digits) = name.rsplit_once('_')?;
    if digits.len() == 3 { u32::from_str_radix(digits, 8).ok() } else { None }
}

fn populate_virtual(state: &Rc<RefCell<SystemState>>, root: &str, tree: &InitTree) {
    let mut st = state.borrow_mut();
    st.file_system.save(root, dir_inode()).unwrap();
    for (p, c) in tree {
        let path = format!("{root}/{}", p.join("/"));
        match c {
            None => {
                let d = dir_inode();
                if let Some(m) = mode_suffix(p) {
                    d.borrow_mut().permissions = Mode::from_bits_retain(m as _);
                }
                st.file_system.save(&path, d).unwrap();
            }
            Some(b) if b.as_slice() == FIFO => {
                let inode = Inode {
                    body: FileBody::Fifo {
                        content: Default::default(),
                        readers: 0,
                        writers: 0,
                        pending_open_wakers: yash_env::waker::WakerSet::new(),
                        pending_read_wakers: yash_env::waker::WakerSet::new(),
                        pending_write_wakers: yash_env::waker::WakerSet::new(),
                    },
                    permissions: Mode::from_bits_retain(0o644),
                };
                st.file_system.save(&path, Rc::new(RefCell::new(inode))).unwrap();
            }
            Some(b) if b.starts_with(LINK) => {
                let target = String::from_utf8_lossy(&b[LINK.len()..]).into_owned();
                let inode = Inode {
                    body: FileBody::Symlink { target: yash_env::path::PathBuf::from(target.as_str()) },
                    permissions: Mode::from_bits_retain(0o777),
                };
                st.file_system.save(&path, Rc::new(RefCell::new(inode))).unwrap();
            }
            Some(b) => {
                let mut inode = Inode::new(b.clone());
                if p.first().map(|s| s.as_str()) == Some("bin") {
                    inode.permissions = Mode::from_bits_retain(0o755);
                }
                if let Some(m) = mode_suffix(p) {
                    inode.permissions = Mode::from_bits_retain(m as _);
                }
                st.file_system.save(&path, Rc::new(RefCell::new(inode))).unwrap();
            }
        }
    }
}

fn snapshot_virtual_inode(inode: &Rc<RefCell<Inode>>, prefix: &mut Vec<String>, out: &mut Vec<TreeEntry>) {
    let node = inode.borrow();
    let perm = node.permissions.bits() as u32 & 0o777;
    match &node.body {
        FileBody::Regular { content, .. } => out.push((prefix.clone(), Kind::Reg, perm, content.clone())),
        FileBody::Directory { files } => {
            out.push((prefix.clone(), Kind::Dir, perm, vec![]));
            let mut names: Vec<_> = files.keys().cloned().collect();
            names.sort_by(|a, b| a.as_bytes().cmp(b.as_bytes()));
            for n in names {
                prefix.push(String::from_utf8_lossy(n.as_bytes()).into_owned());
                snapshot_virtual_inode(&files[&n], prefix, out);
                prefix.pop();
            }
        }
        FileBody::Fifo { .. } => out.push((prefix.clone(), Kind::Fifo, 0, vec![])),
        FileBody::Symlink { target } => {
            out.push((prefix.clone(), Kind::Other, 0, target.as_unix_str().as_bytes().to_vec()))
        }
        _ => out.push((prefix.clone(), Kind::Other, 0, vec![])),
    }
}

fn snapshot_virtual(state: &Rc<RefCell<SystemState>>, root: &str) -> Vec<TreeEntry> {
    let mut out = vec![];
    if let Ok(inode) = state.borrow().file_system.get(root) {
        snapshot_virtual_inode(&inode, &mut vec![], &mut out);
    }
    out
}

fn snapshot_real_at(path: &std::path::Path, prefix: &mut Vec<String>, out: &mut Vec<TreeEntry>) {
    let Ok(md) = std::fs::symlink_metadata(path) else { return };
    let perm = md.permissions().mode() & 0o777;
    let ft = md.file_type();
    if ft.is_file() {
        let content = match std::fs::read(path) {
            Ok(c) => c,
            Err(_) => {
                // not readable by its owner: read it with the bits lent for a moment
                let _ = std::fs::set_permissions(path, std::fs::Permissions::from_mode(0o600));
                let c = std::fs::read(path).unwrap_or_default();
                let _ = std::fs::set_permissions(path, std::fs::Permissions::from_mode(perm));
                c
            }
        };
        out.push((prefix.clone(), Kind::Reg, perm, content));
    } else if ft.is_dir() {
        out.push((prefix.clone(), Kind::Dir, perm, vec![]));
        let lent = perm & 0o500 != 0o500;
        if lent {
            let _ = std::fs::set_permissions(path, std::fs::Permissions::from_mode(0o700));
        }
        let mut names: Vec<_> = match std::fs::read_dir(path) {
            Ok(rd) => rd.filter_map(|x| x.ok()).map(|x| x.file_name()).collect(),
            Err(_) => vec![],
        };
        names.sort_by(|a, b| a.as_encoded_bytes().cmp(b.as_encoded_bytes()));
        for n in names {
            prefix.push(n.to_string_lossy().into_owned());
            snapshot_real_at(&path.join(&n), prefix, out);
            prefix.pop();
        }
        if lent {
            let _ = std::fs::set_permissions(path, std::fs::Permissions::from_mode(perm));
        }
    } else if ft.is_symlink() {
        use std::os::unix::ffi::OsStrExt;
        let target = std::fs::read_link(path).map(|t| t.as_os_str().as_bytes().to_vec()).unwrap_or_default();
        out.push((prefix.clone(), Kind::Other, 0, target));
    } else {
        use std::os::unix::fs::FileTypeExt;
        out.push((prefix.clone(), if ft.is_fifo() { Kind::Fifo } else { Kind::Other }, 0, vec![]));
    }
}

fn snapshot_real(root: &str) -> Vec<TreeEntry> {
    let mut out = vec![];
    snapshot_real_at(std::path::Path::new(root), &mut vec![], &mut out);
    out
}

fn populate_real(root: &str, tree: &InitTree) {
    populate_real_plain(root, tree);
    if tree.iter().any(|(p, _)| mode_suffix(p).is_some()) {
        // a permission tree: the wanted bits, and everything owned by the
        // unprivileged user the shell will run as
        for (p, _) in tree.iter().rev() {
            let path = format!("{root}/{}", p.join("/"));
            if let Some(m) = mode_suffix(p) {
                let _ = std::fs::set_permissions(&path, std::fs::Permissions::from_mode(m));
            }
            let _ = std::os::unix::fs::lchown(&path, Some(NOBODY), Some(NOBODY));
        }
        let _ = std::os::unix::fs::chown(root, Some(NOBODY), Some(NOBODY));
    }
}

fn populate_real_plain(root: &str, tree: &InitTree) {
    std::fs::create_dir_all(root).unwrap();
    std::fs::set_permissions(root, std::fs::Permissions::from_mode(0o755)).unwrap();
    for (p, c) in tree {
        let path = format!("{root}/{}", p.join("/"));
        match c {
            None => {
                std::fs::create_dir(&path).unwrap();
                std::fs::set_permissions(&path, std::fs::Permissions::from_mode(0o755)).unwrap();
            }
            Some(b) if b.as_slice() == FIFO => {
                let c = cstr(&path);
                if unsafe { libc::mkfifo(c.as_ptr(), 0o644) } != 0 {
                    harness_error(&format!("mkfifo {path}"));
                }
                let _ = std::fs::set_permissions(&path, std::fs::Permissions::from_mode(0o644));
            }
            Some(b) if b.starts_with(LINK) => {
                std::os::unix::fs::symlink(String::from_utf8_lossy(&b[LINK.len()..]).as_ref(), &path).unwrap();
            }
            Some(b) => {
                std::fs::write(&path, b).unwrap();
                let mode = if p.first().map(|s| s.as_str()) == Some("bin") { 0o755 } else { 0o644 };
                std::fs::set_permissions(&path, std::fs::Permissions::from_mode(mode)).unwrap();
            }
        }
    }
}

/// Runs a sequence on a fresh `VirtualSystem`.  `root` is the absolute path of
/// the (simulated) working directory — the same string as on the real side.
fn run_sys_virtual(case: &SysCase, root: &str) -> SysObs {
    run_sys_virtual_w(case, None, root)
}

/// `wops` = Some: a sequence of the wait stream (the case is an empty one).
fn run_sys_virtual_w(case: &SysCase, wops: Option<&[WOp]>, root: &str) -> SysObs {
    let system = VirtualSystem::new();
    let state = Rc::clone(&system.state);
    let sink = MemSink::default();
    let panicked = {
        let sink = sink.clone();
        let state = Rc::clone(&state);
        std::panic::catch_unwind(std::panic::AssertUnwindSafe(move || {
            let executor = yash_executor::Executor::new();
            state.borrow_mut().executor = Some(Rc::new(executor.spawner()));
            populate_virtual(&state, root, &case.tree);
            {
                let mut p = system.current_process_mut();
                p.chdir(yash_env::path::PathBuf::from(root));
            }
            system.umask(Mode::from_bits_retain(case.umask as _));
            {
                use yash_env::system::SetPgid as _;
                let _ = system.setpgid(yash_env::job::Pid(0), yash_env::job::Pid(0));
            }
            let done = Rc::new(Cell::new(false));
            {
                let done = Rc::clone(&done);
                let ops = case.ops.clone();
                let wops: Option<Vec<WOp>> = wops.map(|w| w.to_vec());
                let root = root.to_string();
                let sys = system.clone();
                let task = async move {
                    match &wops {
                        Some(w) => run_wait_ops(&sys, w, &root, &sink).await,
                        None => run_ops(&sys, &ops, &root, &sink, 0).await,
                    }
                    done.set(true);
                };
                // SAFETY: single-threaded, as in yash_env::test_helper::in_virtual_system
                unsafe { executor.spawn_pinned(Box::pin(task)) };
            }
            let mut rounds = 0;
            while !done.get() && rounds < 10_000 {
                executor.run_until_stalled();
                rounds += 1;
                if executor.wake_count() == 0 {
                    break;
                }
            }
        }))
        .is_err()
    };
    let mut raw = sink.0.borrow().clone();
    if panicked {
        raw.push(Res::Panic);
    }
    // (a call that never returned: the rest of the sequence gets `Hang`)
    let res = match wops {
        Some(w) => align_wait(w.len(), &raw),
        None => align(&case.ops, &raw),
    };
    let snap = std::panic::catch_unwind(std::panic::AssertUnwindSafe(|| {
        let read = |p: &str| -> Vec<u8> {
            match state.borrow().file_system.get(p) {
                Ok(inode) => match &inode.borrow().body {
                    FileBody::Regular { content, .. } => content.clone(),
                    _ => vec![],
                },
                Err(_) => vec![],
            }
        };
        let std = vec![read("/dev/stdin"), read("/dev/stdout"), read("/dev/stderr")];
        (snapshot_virtual(&state, root), std)
    }));
    let (tree, std) = snap.unwrap_or_default();
    SysObs { res, tree, std }
}

/// Runs a sequence on the real system; called in the worker process only.
/// Results go to the pipe at `SINK_FD`.
fn run_sys_real(case: &SysCase, wops: Option<&[WOp]>, dir: &str) {
    let sys = unsafe { RealSystem::new() };
    let root = format!("{dir}/root");
    let stdd = format!("{dir}/std");
    let _ = set_nofile(&sys, None);
    let _ = std::fs::remove_dir_all(dir);
    std::fs::create_dir_all(&stdd).unwrap();
    populate_real(&root, &case.tree);
    // descriptor table: 0, 1, 2 = three regular files opened read/write +
    // append (like VirtualSystem::new), nothing else below SINK_FD
    for fd in 0..100 {
        let _ = sys.close(Fd(fd));
    }
    {
        // signal state of the previous case: drop pending instances, unblock, default actions
        use yash_env::system::{CaughtSignals as _, Disposition, Sigaction as _, Sigmask as _, SigmaskOp};
        for i in 0..SIGS.len() {
            let _ = sys.sigaction(RealSystem::sig(i), Disposition::Ignore);
        }
        let empty = <RealSystem as yash_env::system::Sigmask>::Sigset::default();
        let _ = now(sys.sigmask(Some((SigmaskOp::Set, &empty)), None));
        for i in 0..SIGS.len() {
            let _ = sys.sigaction(RealSystem::sig(i), Disposition::Default);
        }
        let _ = sys.caught_signals();
    }
    sys.umask(Mode::from_bits_retain(0o022));
    for i in 0..3 {
        let flags = OpenFlag::Create | OpenFlag::Append;
        let fd = now(sys.open(&cstr(&format!("{stdd}/{i}")), OfdAccess::ReadWrite, flags, Mode::from_bits_retain(0o644)));
        assert_eq!(fd, Some(Ok(Fd(i))), "worker: standard descriptor {i}");
    }
    sys.chdir(&cstr(&root)).unwrap();
    sys.umask(Mode::from_bits_retain(case.umask as _));
    let sink = FdSink;
    let fut = match wops {
        Some(w) => run_wait_ops(&sys, w, &root, &sink),
        None => run_ops(&sys, &case.ops, &root, &sink, 0),
    };
    if now(fut).is_none() {
        sink_line("R hang");
    }
    let _ = set_nofile(&sys, None);
    sys.chdir(&cstr("/")).unwrap();
    sys.umask(Mode::from_bits_retain(0o022));
    sink_line(&format!("T {}", tree_enc(&snapshot_real(&root))));
    let std: Vec<String> =
        (0..3).map(|i| hex(&std::fs::read(format!("{stdd}/{i}")).unwrap_or_default())).collect();
    sink_line(&format!("S {}", std.join(",")));
    unlock_tree(std::path::Path::new(dir));
    let _ = std::fs::remove_dir_all(dir);
}

// ---------------------------------------------------------------------------
// generator of system-call sequences
// ---------------------------------------------------------------------------

/// Classes of inputs on which VirtualSystem is known to deviate from the real
/// system (findings F22-F30 of /verif/known_findings.json; tag = class name).
/// `true` = this case stays clear of the class.  The driver decides what a
/// failing tagged case means (KNOWN-FINDING while the finding is open); a
/// tagged case that passes is an ordinary passing case.
#[derive(Clone, Copy, Debug, Default)]
struct Excl {
    /// VirtualSystem::opendir leaves a descriptor open
    opendir_fd_leak: bool,
    /// O_CREAT through a path with a `..` component fails with ENOENT
    creat_dotdot: bool,
    /// getcwd returns the unnormalised concatenation of the chdir arguments
    getcwd_unnormalized: bool,
    /// `.`/`..` after a component that is not a directory resolves
    dot_after_file: bool,
    /// a directory can be opened for writing
    open_dir_for_writing: bool,
    /// dup2(fd, fd) clears the close-on-exec flag
    dup2_same_fd: bool,
    /// O_CREAT below a missing directory creates the directory
    creat_missing_parent: bool,
    /// a process killed by another process runs on to its next blocking point
    killed_process_keeps_running: bool,
    /// sigaction(sig, Ignore) does not discard a pending instance of sig
    ignore_keeps_pending: bool,
    /// dup(fd, min) with min >= RLIMIT_NOFILE fails with EMFILE, not EINVAL
    dup_min_above_limit: bool,
    /// an open that fails with EMFILE has created / truncated the file
    emfile_open_side_effects: bool,
}

/// New findings that are not registered in /verif/known_findings.json yet are
/// listed in props/C19.json "unregistered_findings" and kept out of the
/// generators until they are (remove the entry then; the cases are tagged with
/// the class name).
fn unregistered(name: &str) -> bool {
    use std::sync::OnceLock;
    static LIST: OnceLock<String> = OnceLock::new();
    let list = LIST.get_or_init(|| {
        let path = std::env::var("YV_C19_PROPS").unwrap_or_else(|_| "/verif/props/C19.json".to_string());
        let text = std::fs::read_to_string(&path).unwrap_or_default();
        text.split("\"unregistered_findings\"")
            .nth(1)
            .and_then(|s| s.split('[').nth(1))
            .and_then(|s| s.split(']').next())
            .unwrap_or("")
            .to_string()
    });
    list.contains(&format!("\"{name}\""))
}

/// Which classes a generated case may touch.  Eight of the nine findings
/// have been repaired in /repo (the tags stay: a failing case of a repaired
/// class is a violation again); their inputs are generated in every case.
/// The class of the finding that is still open (creat-missing-parent, F24)
/// is generated in one case out of four only, so that an unknown deviation is
/// rarely attributed to it.
fn excl_for(seed: u64, idx: usize, salt: u64) -> Excl {
    let mut r = Rng::new(seed ^ salt).fork(idx as u64);
    Excl {
        opendir_fd_leak: false,
        creat_dotdot: false,
        getcwd_unnormalized: false,
        dot_after_file: false,
        open_dir_for_writing: false,
        dup2_same_fd: false,
        creat_missing_parent: !r.chance(1, 4),
        killed_process_keeps_running: false,
        ignore_keeps_pending: false,
        // open findings (F38, F39): like F24 in one case out of four
        dup_min_above_limit: unregistered("dup-min-above-limit") || !r.chance(1, 4),
        emfile_open_side_effects: unregistered("emfile-open-side-effects") || !r.chance(1, 4),
    }
}

#[derive(Clone, Copy, Debug, PartialEq, Eq)]
enum SigEffect {
    Nothing,
    Fatal,
    Stop,
    /// POSIX leaves it open (blocked and ignored)
    Unspecified,
}

#[derive(Clone, Copy, Debug, PartialEq, Eq)]
enum OfdKind {
    Reg,
    Dir,
    PipeR(usize),
    PipeW(usize),
}

#[derive(Clone, Debug)]
struct ProcT {
    fds: BTreeMap<i32, usize>,
    cwd: Vec<String>,
    disp: [Disp; 7],
    mask: BTreeSet<usize>,
    pend: BTreeSet<usize>,
    caught: BTreeSet<usize>,
    /// descriptors with close-on-exec set
    cx: BTreeSet<i32>,
    /// soft RLIMIT_NOFILE
    limit: i32,
    /// identity of the process group, and whether this process leads it
    pg: usize,
    leader: bool,
}

/// What the generator believes about the state (only used to produce mostly
/// valid, never blocking sequences; the Coq model is the judge of the domain).
struct Tracker {
    /// classes of known deviations the sequence touches (found while generating)
    hit: Vec<&'static str>,
    /// the running (forked) process has been killed by a signal
    dead: bool,
    next_pg: usize,
    dirs: BTreeSet<Vec<String>>,
    files: BTreeSet<Vec<String>>,
    ofds: Vec<(OfdKind, bool, bool)>,
    pipes: Vec<usize>,
    procs: Vec<ProcT>,
}

impl Tracker {
    fn hit(&mut self, tag: &'static str) {
        if !self.hit.contains(&tag) {
            self.hit.push(tag);
        }
    }
    fn new(tree: &InitTree) -> Tracker {
        let mut dirs = BTreeSet::new();
        let mut files = BTreeSet::new();
        dirs.insert(vec![]);
        for (p, c) in tree {
            if c.is_none() {
                dirs.insert(p.clone());
            } else {
                files.insert(p.clone());
            }
        }
        let mut fds = BTreeMap::new();
        let mut ofds = vec![];
        for i in 0..3 {
            fds.insert(i, ofds.len());
            ofds.push((OfdKind::Reg, true, true));
        }
        Tracker { hit: vec![], dead: false, next_pg: 1, dirs, files, ofds, pipes: vec![], procs: vec![ProcT {
                fds,
                cwd: vec![],
                disp: [Disp::Default; 7],
                mask: BTreeSet::new(),
                pend: BTreeSet::new(),
                caught: BTreeSet::new(),
                cx: BTreeSet::new(),
                limit: 1024,
                pg: 0,
                leader: true,
            }],
        }
    }
    fn cur(&self) -> &ProcT {
        self.procs.last().unwrap()
    }
    fn cur_mut(&mut self) -> &mut ProcT {
        self.procs.last_mut().unwrap()
    }
    fn lowest_free(&self, min: i32) -> i32 {
        let mut fd = min;
        while self.cur().fds.contains_key(&fd) {
            fd += 1;
        }
        fd
    }
    /// a free descriptor >= min below the limit
    fn can_alloc(&self, min: i32) -> bool {
        self.lowest_free(min) < self.cur().limit
    }
    /// None = EMFILE
    fn install(&mut self, kind: OfdKind, rd: bool, wr: bool) -> Option<i32> {
        if !self.can_alloc(0) {
            return None;
        }
        let fd = self.lowest_free(0);
        let id = self.ofds.len();
        self.ofds.push((kind, rd, wr));
        self.cur_mut().fds.insert(fd, id);
        Some(fd)
    }
    /// What generating `sig` for the process at `idx` of the stack does:
    /// Ok(()) = the tracker has been updated; Err(fatal) = not allowed in the
    /// domain, or (for the running process only) `fatal`/stop is reported back.
    fn generate(&mut self, idx: usize, sig: usize, dry: bool) -> SigEffect {
        let p = &mut self.procs[idx];
        let blocked = p.mask.contains(&sig);
        match (p.disp[sig], blocked) {
            (Disp::Ignore, true) => SigEffect::Unspecified,
            (Disp::Ignore, false) => SigEffect::Nothing,
            (Disp::Catch, false) => {
                if !dry {
                    p.caught.insert(sig);
                }
                SigEffect::Nothing
            }
            (Disp::Catch, true) | (Disp::Default, true) => {
                if !dry {
                    p.pend.insert(sig);
                }
                SigEffect::Nothing
            }
            (Disp::Default, false) => {
                if sig == CHLD {
                    SigEffect::Nothing
                } else if SIGS[sig] == "TSTP" {
                    SigEffect::Stop
                } else {
                    SigEffect::Fatal
                }
            }
        }
    }
    fn live(&self, want: OfdKind) -> bool {
        self.procs.iter().any(|p| p.fds.values().any(|id| self.ofds[*id].0 == want))
    }
    fn open_fds(&self) -> Vec<i32> {
        self.cur().fds.keys().copied().collect()
    }
    fn kind_of(&self, fd: i32) -> Option<(OfdKind, bool, bool)> {
        self.cur().fds.get(&fd).map(|id| self.ofds[*id])
    }
}

const NAMES_NEW: [&str; 4] = ["n1", "n2", "new", "o.txt"];

/// A relative spelling of the absolute (below the root) path `target`, as
/// seen from `cwd`, decorated with `.`, `dir/..` and doubled slashes.
fn spell(r: &mut Rng, t: &Tracker, target: &[String], target_is_dir: bool, mode: Spell) -> String {
    let plain = mode != Spell::Fancy;
    // absolute spelling (from the scratch root) when asked for, or when the
    // plain spelling would need `..`
    let below_cwd = target.len() >= t.cur().cwd.len() && target[..t.cur().cwd.len()] == t.cur().cwd[..];
    if mode == Spell::Abs || (mode == Spell::NoDots && !below_cwd) {
        return format!("/{}", target.join("/"));
    }
    let cwd = &t.cur().cwd;
    let mut k = 0;
    while k < cwd.len() && k < target.len() && cwd[k] == target[k] {
        k += 1;
    }
    // sometimes climb higher than necessary
    if !plain && k > 0 && r.chance(1, 6) {
        k -= 1;
    }
    let mut comps: Vec<String> = vec![];
    let mut at: Vec<String> = cwd.clone();
    for _ in k..cwd.len() {
        comps.push("..".into());
        at.pop();
    }
    let decorate = |r: &mut Rng, comps: &mut Vec<String>, at: &Vec<String>| {
        if plain {
            return;
        }
        if r.chance(1, 8) {
            comps.push(".".into());
        }
        if r.chance(1, 8) {
            // a known sub-directory of `at`, then back
            let subs: Vec<&Vec<String>> =
                t.dirs.iter().filter(|d| d.len() == at.len() + 1 && d[..at.len()] == at[..]).collect();
            if !subs.is_empty() {
                let d = subs[r.below(subs.len())];
                comps.push(d.last().unwrap().clone());
                comps.push("..".into());
            }
        }
    };
    decorate(r, &mut comps, &at);
    for c in &target[k..] {
        comps.push(c.clone());
        at.push(c.clone());
        if t.dirs.contains(&at) {
            decorate(r, &mut comps, &at);
        }
    }
    if comps.is_empty() {
        if mode == Spell::NoDots {
            return format!("/{}", target.join("/"));
        }
        comps.push(".".into());
    }
    let sep = if !plain && r.chance(1, 12) { "//" } else { "/" };
    let mut s = comps.join(sep);
    if !plain && r.chance(1, 10) {
        s = format!("./{s}");
    }
    if target_is_dir && !plain && r.chance(1, 8) {
        s.push('/');
    }
    s
}

#[derive(Clone, Copy, PartialEq, Eq, Debug)]
enum Spell {
    /// decorated with `.`, `dir/..`, `//`, `./`, trailing `/`
    Fancy,
    /// no `.` or `..` at all (absolute if the target is not below the cwd)
    NoDots,
    /// from the scratch root
    Abs,
}

#[derive(Clone, Copy, PartialEq, Eq, Debug)]
enum PathClass {
    File,
    Dir,
    New,
    Missing,
    ThroughFile,
    /// `.` or `..` after a component that is a regular file
    DotAfterFile,
}

fn pick_path(r: &mut Rng, t: &Tracker, class: PathClass, sp: Spell) -> (String, Vec<String>) {
    let sp = if sp == Spell::Fancy && r.chance(1, 8) { Spell::Abs } else { sp };
    let files: Vec<Vec<String>> = t.files.iter().cloned().collect();
    let dirs: Vec<Vec<String>> = t.dirs.iter().cloned().collect();
    match class {
        PathClass::File if !files.is_empty() => {
            let f = files[r.below(files.len())].clone();
            (spell(r, t, &f, false, sp), f)
        }
        PathClass::Dir | PathClass::File => {
            let d = dirs[r.below(dirs.len())].clone();
            (spell(r, t, &d, true, sp), d)
        }
        PathClass::New => {
            let mut d = dirs[r.below(dirs.len())].clone();
            let mut tries = 0;
            loop {
                let n = NAMES_NEW[r.below(NAMES_NEW.len())];
                d.push(n.to_string());
                if !t.files.contains(&d) && !t.dirs.contains(&d) || tries > 6 {
                    break;
                }
                d.pop();
                tries += 1;
            }
            (spell(r, t, &d, false, sp), d)
        }
        PathClass::Missing => {
            let mut d = dirs[r.below(dirs.len())].clone();
            d.push("zz".into());
            if r.chance(1, 2) {
                d.push("y".into());
            }
            (spell(r, t, &d, false, sp), d)
        }
        PathClass::DotAfterFile => {
            let mut f = files[r.below(files.len())].clone();
            let mut target = f.clone();
            match r.below(3) {
                0 => f.push(".".into()),
                1 => {
                    f.push("..".into());
                    target.pop();
                }
                _ => {
                    f.push("..".into());
                    f.push("g".into());
                    target.pop();
                    target.push("g".into());
                }
            }
            // the spelling is the path itself (from the root)
            let _ = target;
            (format!("/{}", f.join("/")), vec!["<none>".into()])
        }
        PathClass::ThroughFile => {
            if files.is_empty() {
                return pick_path(r, t, PathClass::Missing, sp);
            }
            let mut f = files[r.below(files.len())].clone();
            f.push("x".into());
            (spell(r, t, &f, false, sp), f)
        }
    }
}

fn rand_bytes(r: &mut Rng, max: usize) -> Vec<u8> {
    let n = 1 + r.below(max);
    (0..n).map(|_| b"abcdefghij0123456789\n"[r.below(21)]).collect()
}

fn pick_fd(r: &mut Rng, t: &Tracker) -> i32 {
    let open = t.open_fds();
    if !open.is_empty() && !r.chance(1, 10) {
        open[r.below(open.len())]
    } else {
        *r.pick(&[5, 7, 9, 11, 17])
    }
}

/// setpgid / kill (to the caller, its parent, its process group), only where
/// the result is inside the domain: no waiting ancestor and not the first
/// process of the sequence may be killed or stopped, and nothing is sent to a
/// process that blocks and ignores the signal.  Returns false if nothing was
/// generated.
fn gen_kill(r: &mut Rng, t: &mut Tracker, ops: &mut Vec<Op>, depth: usize) -> bool {
    let cur = t.procs.len() - 1;
    match r.below(10) {
        0 => {
            let id = t.next_pg;
            t.next_pg += 1;
            let p = t.cur_mut();
            p.pg = id;
            p.leader = true;
            ops.push(Op::Setpgid0);
            return true;
        }
        1 | 2 if depth == 0 => {
            // prepare a group scenario: this process ignores or catches a signal
            let sig = r.below(6);
            let d = *r.pick(&[Disp::Ignore, Disp::Ignore, Disp::Catch]);
            if d == Disp::Ignore && t.cur().pend.contains(&sig) {
                return false;
            }
            t.cur_mut().disp[sig] = d;
            ops.push(Op::Sigaction(sig, d));
            return true;
        }
        4 if depth > 0 && !t.dead => {
            // death at unblock time: block a signal, have it pending with the default
            // action, (sometimes) move to a process group of its own, unblock
            let sig = r.below(5);
            if t.cur().pend.iter().any(|s| *s != sig && t.cur().disp[*s] == Disp::Default && *s != CHLD) {
                return false;
            }
            let p = t.cur_mut();
            p.mask.insert(sig);
            ops.push(Op::Sigmask(0, vec![sig]));
            p.disp[sig] = Disp::Default;
            ops.push(Op::Sigaction(sig, Disp::Default));
            p.pend.insert(sig);
            ops.push(Op::Kill(Target::Own, sig));
            if r.chance(1, 2) {
                let id = t.next_pg;
                t.next_pg += 1;
                let p = t.cur_mut();
                p.pg = id;
                p.leader = true;
                ops.push(Op::Setpgid0);
            }
            ops.push(Op::Sigmask(1, vec![sig]));
            t.dead = true;
            return true;
        }
        3 if depth > 0 => {
            // the child takes the default action again
            let sig = r.below(6);
            t.cur_mut().disp[sig] = Disp::Default;
            ops.push(Op::Sigaction(sig, Disp::Default));
            return true;
        }
        _ => {}
    }
    let tg = *r.pick(&[Target::Own, Target::Parent, Target::Group0, Target::Group0, Target::NegPgid, Target::NegPgid, Target::NegPid]);
    let sig = r.below(6);
    // the processes that get the signal, the running one last
    let targets: Vec<usize> = match tg {
        Target::Own => vec![cur],
        Target::Parent => {
            if depth == 0 {
                return false;
            }
            vec![cur - 1]
        }
        Target::Group0 | Target::NegPgid => (0..=cur).filter(|i| t.procs[*i].pg == t.procs[cur].pg).collect(),
        Target::NegPid => {
            if !t.procs[cur].leader {
                // ESRCH, no effect
                ops.push(Op::Kill(tg, sig));
                return true;
            }
            (0..=cur).filter(|i| t.procs[*i].pg == t.procs[cur].pg).collect()
        }
    };
    // dry run: is every effect inside the domain?
    for &i in &targets {
        match t.generate(i, sig, true) {
            SigEffect::Nothing => {}
            SigEffect::Unspecified => return false,
            SigEffect::Fatal | SigEffect::Stop => {
                if i != cur || depth == 0 {
                    return false;
                }
            }
        }
    }
    for &i in &targets {
        if t.generate(i, sig, false) == SigEffect::Fatal {
            t.dead = true;
        }
    }
    ops.push(Op::Kill(tg, sig));
    true
}

/// One more operation (appended to `ops`); the tracker is updated with what
/// the operation is expected to do.
fn gen_op(r: &mut Rng, t: &mut Tracker, x: &Excl, ops: &mut Vec<Op>, depth: usize, budget: &mut usize) {
    gen_op_w(r, t, x, ops, depth, budget, None)
}

/// `force`: the kind of operation to try first (an index into the weights below).
fn gen_op_w(r: &mut Rng, t: &mut Tracker, x: &Excl, ops: &mut Vec<Op>, depth: usize, budget: &mut usize, force: Option<usize>) {
    let mut force = force;
    loop {
        let w = force.take().unwrap_or_else(|| r.below(136));
        match w {
            122..=126 => {
                // soft RLIMIT_NOFILE: tight around the descriptors in use, or relaxed again
                let used = t.cur().fds.keys().copied().max().map_or(0, |m| m + 1);
                let n = match r.below(8) {
                    0 => 64,
                    1 => 3 + r.below(8) as i32,
                    2 => used,
                    3 | 4 => used + 1,
                    5 => used + 2,
                    _ => t.lowest_free(0) + 1 + r.below(2) as i32,
                };
                let n = n.clamp(1, 64);
                t.cur_mut().limit = n;
                ops.push(Op::Setrlimit(n as u32));
                return;
            }
            127..=135 => {
                if (0..4).any(|_| gen_kill(r, t, ops, depth)) {
                    return;
                }
                continue;
            }
            108..=121 => {
                // signals (never one whose default action would be taken)
                let sig = r.below(6);
                // SIGCHLD takes part in sigaction (catch / default) and in the mask only
                let sig_or_chld = if r.chance(1, 5) { CHLD } else { sig };
                match r.below(7) {
                    0 | 1 => {
                        let mut d = *r.pick(&[Disp::Catch, Disp::Catch, Disp::Ignore, Disp::Default]);
                        let mut sig = sig_or_chld;
                        if sig == CHLD && d == Disp::Ignore {
                            // (ignoring SIGCHLD changes what wait() does)
                            d = Disp::Catch;
                        }
                        if !x.ignore_keeps_pending && r.chance(1, 2) {
                            // the class: "ignore" for a signal that is pending
                            // (never SIGCHLD: ignoring it is outside the model's domain)
                            if let Some(s) = t.cur().pend.iter().copied().find(|s| *s != CHLD) {
                                sig = s;
                                d = Disp::Ignore;
                            }
                        }
                        if d == Disp::Ignore && t.cur().pend.contains(&sig) {
                            if x.ignore_keeps_pending {
                                continue;
                            }
                            t.hit("ignore-keeps-pending");
                        }
                        let p = t.cur_mut();
                        p.disp[sig] = d;
                        if d == Disp::Ignore {
                            p.pend.remove(&sig);
                        }
                        ops.push(Op::Sigaction(sig, d));
                    }
                    2 => ops.push(Op::GetSigaction(sig)),
                    3 | 4 => {
                        let p = t.cur_mut();
                        if p.mask.contains(&sig) {
                            if p.disp[sig] == Disp::Ignore {
                                // POSIX leaves open whether it stays pending
                                continue;
                            }
                            p.pend.insert(sig);
                        } else {
                            match p.disp[sig] {
                                Disp::Default => continue,
                                Disp::Catch => {
                                    p.caught.insert(sig);
                                }
                                Disp::Ignore => {}
                            }
                        }
                        ops.push(Op::Raise(sig));
                    }
                    5 => {
                        t.cur_mut().caught.clear();
                        ops.push(Op::Caught);
                    }
                    _ => {
                        let how = r.below(3) as u8;
                        let n = r.below(3);
                        let mut sigs: Vec<usize> = (0..n).map(|_| r.below(7)).collect();
                        sigs.dedup();
                        let p = t.cur_mut();
                        let mut new = p.mask.clone();
                        match how {
                            0 => new.extend(sigs.iter().copied()),
                            1 => {
                                for s in &sigs {
                                    new.remove(s);
                                }
                            }
                            _ => new = sigs.iter().copied().collect(),
                        }
                        let unblocked: Vec<usize> = p.pend.iter().copied().filter(|s| !new.contains(s)).collect();
                        let fatal: Vec<usize> =
                            unblocked.iter().copied().filter(|s| p.disp[*s] == Disp::Default && *s != CHLD).collect();
                        if !fatal.is_empty() {
                            // a pending signal with the default action becomes deliverable:
                            // exactly one, fatal, in a forked child: the child dies in this call
                            if fatal.len() == 1 && SIGS[fatal[0]] != "TSTP" && depth > 0 {
                                ops.push(Op::Sigmask(how, sigs));
                                t.dead = true;
                                return;
                            }
                            continue;
                        }
                        for s in unblocked {
                            p.pend.remove(&s);
                            if p.disp[s] == Disp::Catch {
                                p.caught.insert(s);
                            }
                        }
                        p.mask = new;
                        ops.push(Op::Sigmask(how, sigs));
                    }
                }
                return;
            }
            0..=21 => {
                // open
                let (class, acc, fl) = match r.below(19) {
                    16 if !x.open_dir_for_writing => (
                        PathClass::Dir,
                        *r.pick(&[Acc::Wr, Acc::RdWr]),
                        *r.pick(&[
                            Flags::default(),
                            Flags { creat: true, trunc: true, ..Default::default() },
                            Flags { creat: true, append: true, ..Default::default() },
                        ]),
                    ),
                    18 if !x.creat_missing_parent => (
                        PathClass::Missing,
                        Acc::Wr,
                        *r.pick(&[
                            Flags { creat: true, trunc: true, ..Default::default() },
                            Flags { creat: true, excl: true, ..Default::default() },
                        ]),
                    ),
                    17 if !x.dot_after_file => (PathClass::DotAfterFile, *r.pick(&[Acc::Rd, Acc::Wr]), Flags::default()),
                    0..=2 => (PathClass::File, Acc::Rd, Flags::default()),
                    3 => (PathClass::File, Acc::Wr, Flags { creat: true, trunc: true, ..Default::default() }),
                    4 => (PathClass::File, Acc::Wr, Flags { creat: true, append: true, ..Default::default() }),
                    5 => (PathClass::File, Acc::RdWr, Flags { creat: true, ..Default::default() }),
                    6 => (PathClass::File, Acc::Wr, Flags::default()),
                    7 => (PathClass::New, Acc::Wr, Flags { creat: true, trunc: true, ..Default::default() }),
                    8 => (PathClass::New, Acc::RdWr, Flags { creat: true, ..Default::default() }),
                    9 => (PathClass::New, Acc::Wr, Flags { creat: true, excl: true, ..Default::default() }),
                    10 => (PathClass::File, Acc::Wr, Flags { creat: true, excl: true, ..Default::default() }),
                    11 => (PathClass::New, Acc::Rd, Flags::default()),
                    12 => (PathClass::Dir, Acc::Rd, Flags { dir: r.chance(1, 2), ..Default::default() }),
                    13 => (PathClass::File, Acc::Rd, Flags { dir: true, ..Default::default() }),
                    14 => (PathClass::Missing, Acc::Rd, Flags::default()),
                    _ => (PathClass::ThroughFile, *r.pick(&[Acc::Rd, Acc::Wr]), Flags::default()),
                };
                let mut fl = fl;
                if r.chance(1, 5) {
                    fl.cloexec = true;
                }
                if acc != Acc::Rd && !fl.append && r.chance(1, 6) {
                    fl.append = true;
                }
                let sp = if fl.creat && x.creat_dotdot { Spell::NoDots } else { Spell::Fancy };
                let (p, target) = pick_path(r, t, class, sp);
                let mode = *r.pick(&[0o666, 0o666, 0o644, 0o600, 0o777, 0o640]);
                let is_file = t.files.contains(&target);
                let is_dir = t.dirs.contains(&target);
                let parent_ok = !target.is_empty() && t.dirs.contains(&target[..target.len() - 1].to_vec());
                let (rd, wr) = (acc != Acc::Wr, acc != Acc::Rd);
                // classes of known deviations this call is in
                if !t.can_alloc(0) {
                    // (fails with EMFILE whatever the path)
                } else if class == PathClass::DotAfterFile {
                    t.hit("dot-after-file");
                } else if is_dir && wr {
                    t.hit("open-dir-for-writing");
                } else if !is_file && !is_dir && fl.creat {
                    if !parent_ok {
                        t.hit("creat-missing-parent");
                    } else if p.split('/').any(|c| c == "..") {
                        t.hit("creat-dotdot");
                    }
                }
                let mut newfd = None;
                let would_succeed = class != PathClass::DotAfterFile
                    && ((is_file && !(fl.creat && fl.excl) && !fl.dir)
                        || (is_dir && !wr && !fl.creat)
                        || (!is_file && !is_dir && parent_ok && fl.creat && !p.ends_with('/')));
                if !t.can_alloc(0) {
                    // EMFILE, without any effect; which error wins when the open
                    // fails anyway is not specified: not generated
                    if !would_succeed {
                        continue;
                    }
                    if (!is_file && fl.creat) || (is_file && fl.trunc) {
                        // the simulator creates / truncates before it fails
                        if x.emfile_open_side_effects {
                            continue;
                        }
                        t.hit("emfile-open-side-effects");
                    }
                } else if class == PathClass::DotAfterFile {
                    // fails on a POSIX system
                } else if is_file && !(fl.creat && fl.excl) && !fl.dir {
                    newfd = t.install(OfdKind::Reg, rd, wr);
                } else if is_dir && !wr && !fl.creat {
                    newfd = t.install(OfdKind::Dir, true, false);
                } else if !is_file && !is_dir && parent_ok && fl.creat && !p.ends_with('/') {
                    t.files.insert(target);
                    newfd = t.install(OfdKind::Reg, rd, wr);
                }
                if let Some(fd) = newfd {
                    if fl.cloexec {
                        t.cur_mut().cx.insert(fd);
                    } else {
                        t.cur_mut().cx.remove(&fd);
                    }
                }
                ops.push(Op::Open(p, acc, fl, mode));
                return;
            }
            22..=29 => {
                let fd = pick_fd(r, t);
                t.cur_mut().fds.remove(&fd);
                t.cur_mut().cx.remove(&fd);
                ops.push(Op::Close(fd));
                return;
            }
            30..=37 => {
                let fd = pick_fd(r, t);
                let min = *r.pick(&[0, 0, 3, 5, 10, 10, 12]);
                let cx = r.chance(1, 3);
                if t.cur().fds.contains_key(&fd) && min >= t.cur().limit {
                    // POSIX: EINVAL; the simulator: EMFILE
                    if x.dup_min_above_limit {
                        continue;
                    }
                    t.hit("dup-min-above-limit");
                }
                if let Some(id) = t.cur().fds.get(&fd).copied().filter(|_| min < t.cur().limit && t.can_alloc(min)) {
                    let n = t.lowest_free(min);
                    t.cur_mut().fds.insert(n, id);
                    if cx {
                        t.cur_mut().cx.insert(n);
                    } else {
                        t.cur_mut().cx.remove(&n);
                    }
                }
                ops.push(Op::Dup(fd, min, cx));
                return;
            }
            38..=45 => {
                let fd = pick_fd(r, t);
                let mut to = if r.chance(1, 2) { pick_fd(r, t) } else { r.below(14) as i32 };
                if !x.dup2_same_fd && r.chance(1, 3) {
                    to = fd;
                }
                if to == fd {
                    if x.dup2_same_fd {
                        continue;
                    }
                    if t.cur().fds.contains_key(&fd) && t.cur().cx.contains(&fd) {
                        // POSIX: nothing changes; the simulator clears close-on-exec
                        t.hit("dup2-same-fd");
                    }
                    ops.push(Op::Dup2(fd, to));
                    if r.chance(1, 2) {
                        ops.push(Op::Getfd(fd));
                    }
                    return;
                }
                if let Some(id) = t.cur().fds.get(&fd).copied().filter(|_| to < t.cur().limit) {
                    t.cur_mut().fds.insert(to, id);
                    t.cur_mut().cx.remove(&to);
                }
                ops.push(Op::Dup2(fd, to));
                return;
            }
            46..=56 => {
                let fd = pick_fd(r, t);
                let n = 1 + r.below(12);
                if let Some((OfdKind::PipeR(p), _, _)) = t.kind_of(fd) {
                    if t.pipes[p] == 0 {
                        if t.live(OfdKind::PipeW(p)) {
                            continue; // would block
                        }
                    } else {
                        t.pipes[p] -= n.min(t.pipes[p]);
                    }
                }
                ops.push(Op::Read(fd, n));
                return;
            }
            57..=69 => {
                let fd = pick_fd(r, t);
                let b = rand_bytes(r, 10);
                if let Some((OfdKind::PipeW(p), _, _)) = t.kind_of(fd) {
                    if t.live(OfdKind::PipeR(p)) {
                        if t.pipes[p] + b.len() > 900 {
                            continue;
                        }
                        t.pipes[p] += b.len();
                    }
                }
                ops.push(Op::Write(fd, b));
                return;
            }
            70..=77 => {
                let fd = pick_fd(r, t);
                if let Some((OfdKind::Dir, _, _)) = t.kind_of(fd) {
                    continue; // directory offsets are not compared
                }
                let (w, off) = match r.below(6) {
                    0 | 1 => (Whence::Set, r.below(16) as i64),
                    2 => (Whence::Cur, r.range(-6, 6)),
                    3 => (Whence::Cur, 0),
                    4 => (Whence::End, r.range(-8, 4)),
                    _ => (Whence::End, 0),
                };
                ops.push(Op::Lseek(fd, w, off));
                return;
            }
            78..=81 => {
                ops.push(Op::Fstat(pick_fd(r, t)));
                return;
            }
            82..=85 => {
                let mut class = *r.pick(&[PathClass::File, PathClass::Dir, PathClass::Missing, PathClass::ThroughFile, PathClass::New]);
                if !x.dot_after_file && r.chance(1, 8) {
                    class = PathClass::DotAfterFile;
                    t.hit("dot-after-file");
                }
                ops.push(Op::Stat(pick_path(r, t, class, Spell::Fancy).0));
                return;
            }
            86..=88 => {
                ops.push(Op::Umask(*r.pick(&[0o022, 0o077, 0o027, 0, 0o002, 0o777, 0o123])));
                return;
            }
            89..=93 => {
                let class = *r.pick(&[PathClass::Dir, PathClass::Dir, PathClass::Dir, PathClass::File, PathClass::Missing]);
                let sp = if x.getcwd_unnormalized { Spell::NoDots } else { Spell::Fancy };
                let (p, target) = pick_path(r, t, class, sp);
                if t.dirs.contains(&target) {
                    t.cur_mut().cwd = target;
                    if p != "/" && has_dots(&p) {
                        // the simulator's getcwd shows the spelling
                        t.hit("getcwd-unnormalized");
                    }
                }
                ops.push(Op::Chdir(p));
                return;
            }
            94..=96 => {
                ops.push(Op::Getcwd);
                return;
            }
            97..=99 => {
                let p = t.pipes.len();
                t.pipes.push(0);
                if let Some(rfd) = t.install(OfdKind::PipeR(p), true, false) {
                    if t.install(OfdKind::PipeW(p), false, true).is_none() {
                        // EMFILE: the first descriptor is released again
                        t.cur_mut().fds.remove(&rfd);
                    }
                }
                ops.push(Op::Pipe);
                return;
            }
            100..=102 => {
                if x.opendir_fd_leak {
                    continue;
                }
                let class = *r.pick(&[PathClass::Dir, PathClass::Dir, PathClass::File, PathClass::Missing]);
                let (p, target) = pick_path(r, t, class, Spell::Fancy);
                if !t.can_alloc(0) && !t.dirs.contains(&target) {
                    // which error wins is not specified
                    continue;
                }
                if t.dirs.contains(&target) && t.can_alloc(0) {
                    // the simulator leaves a descriptor open
                    t.hit("opendir-fd-leak");
                }
                ops.push(Op::Readdir(p));
                return;
            }
            103 => {
                ops.push(Op::Getfd(pick_fd(r, t)));
                return;
            }
            104 => {
                let (fd, cx) = (pick_fd(r, t), r.chance(1, 2));
                if t.cur().fds.contains_key(&fd) {
                    if cx {
                        t.cur_mut().cx.insert(fd);
                    } else {
                        t.cur_mut().cx.remove(&fd);
                    }
                }
                ops.push(Op::Setfd(fd, cx));
                return;
            }
            105 => {
                ops.push(Op::Access(pick_fd(r, t)));
                return;
            }
            _ => {
                if depth >= 2 || *budget < 3 {
                    continue;
                }
                // fork: the child runs a few operations and exits
                if !t.cur().caught.is_empty() {
                    t.cur_mut().caught.clear();
                    ops.push(Op::Caught);
                }
                ops.push(Op::Fork);
                let mut child = t.cur().clone();
                child.pend.clear();
                child.leader = false;
                t.procs.push(child);
                let n = 1 + r.below(6.min(*budget - 1));
                for _ in 0..n {
                    if *budget == 0 {
                        break;
                    }
                    *budget -= 1;
                    gen_op(r, t, x, ops, depth + 1, budget);
                    if t.dead {
                        // nothing more of this child is executed
                        if r.chance(1, 2) {
                            ops.push(Op::Getcwd);
                        }
                        break;
                    }
                }
                t.dead = false;
                t.procs.pop();
                ops.push(Op::Exit);
                // the parent is told
                let parent = t.procs.len() - 1;
                let _ = t.generate(parent, CHLD, false);
                if t.cur().disp[CHLD] == Disp::Catch && r.chance(2, 3) {
                    t.cur_mut().caught.clear();
                    ops.push(Op::Caught);
                }
                return;
            }
        }
    }
}

fn default_tree(r: &mut Rng) -> InitTree {
    let s = |l: &[&str]| -> Vec<String> { l.iter().map(|x| x.to_string()).collect() };
    let mut t: InitTree = vec![
        (s(&["d"]), None),
        (s(&["d", "s"]), None),
        (s(&["e"]), None),
        (s(&["f"]), Some(b"hello\n".to_vec())),
        (s(&["g"]), Some(vec![])),
        (s(&["d", "h"]), Some(b"abc".to_vec())),
        (s(&["e", "k"]), Some(b"0123456789".to_vec())),
    ];
    if r.chance(1, 3) {
        t.push((s(&["d", "s", "deep"]), Some(rand_bytes(r, 20))));
    }
    if r.chance(1, 4) {
        t[3].1 = Some(rand_bytes(r, 30));
    }
    t
}

/// EMFILE sweep: some preliminary operations, then the descriptor limit set to
/// the lowest free number plus 0, 1 or 2, one allocating operation (open, dup,
/// dup2, pipe, directory listing, fork), the limit relaxed again and probes
/// that show which numbers are really free afterwards.
fn gen_sweep_case(seed: u64, idx: usize) -> SysCase {
    let x = excl_for(seed, idx, 0x5E7);
    let mut r = Rng::new(seed ^ 0xE3F1).fork(idx as u64);
    let tree = default_tree(&mut r);
    let mut t = Tracker::new(&tree);
    let mut ops = vec![];
    let mut budget = 40usize;
    for _ in 0..(1 + r.below(6)) {
        // (no signals / forks in the prefix: descriptors only)
        let w = *r.pick(&[0usize, 5, 10, 22, 30, 33, 38, 46, 57, 97, 104]);
        gen_op_w(&mut r, &mut t, &x, &mut ops, 0, &mut budget, Some(w));
    }
    let rounds = 1 + r.below(3);
    for _ in 0..rounds {
        let n = (t.lowest_free(0) + r.below(3) as i32).clamp(1, 64);
        t.cur_mut().limit = n;
        ops.push(Op::Setrlimit(n as u32));
        let w = *r.pick(&[97usize, 97, 97, 0, 7, 12, 30, 31, 38, 100, 106, 107]);
        gen_op_w(&mut r, &mut t, &x, &mut ops, 0, &mut budget, Some(w));
        if r.chance(1, 2) {
            let w2 = *r.pick(&[97usize, 30, 0]);
            gen_op_w(&mut r, &mut t, &x, &mut ops, 0, &mut budget, Some(w2));
        }
        t.cur_mut().limit = 64;
        ops.push(Op::Setrlimit(64));
        // probes: the lowest free numbers
        gen_op_w(&mut r, &mut t, &x, &mut ops, 0, &mut budget, Some(97));
        let fd = pick_fd(&mut r, &t);
        ops.push(Op::Fstat(fd));
        gen_op_w(&mut r, &mut t, &x, &mut ops, 0, &mut budget, Some(30));
    }
    for _ in 0..r.below(4) {
        gen_op(&mut r, &mut t, &x, &mut ops, 0, &mut budget);
    }
    SysCase { tree, umask: 0o022, ops, tags: t.hit.clone() }
}

/// Permission sub-stream: the process is unprivileged and owns every file;
/// files are created with chosen modes (umask 0), files and directories are
/// chmod'ed by the harness, and open / directory listing / chdir / stat /
/// O_CREAT are tried through them.  All paths are spelled from the root and
/// every descriptor is closed at once, so the only state is the permission bits.
fn gen_perm_case(seed: u64, k: usize) -> SysCase {
    let s = |l: &[&str]| -> Vec<String> { l.iter().map(|x| x.to_string()).collect() };
    let tree: InitTree = vec![
        (s(&["d"]), None),
        (s(&["d", "s"]), None),
        (s(&["e"]), None),
        (s(&["f"]), Some(b"hello\n".to_vec())),
        (s(&["d", "h"]), Some(b"abc".to_vec())),
        (s(&["d", "s", "deep"]), Some(b"xyz".to_vec())),
    ];
    let fl = Flags::default();
    if k == 0 {
        // the minimal case of the open finding no-permission-checks (F44)
        return SysCase {
            tree,
            umask: 0,
            ops: vec![
                Op::DropPriv,
                Op::Chmod("/f".into(), 0),
                Op::Open("/f".into(), Acc::Rd, fl, 0),
                Op::Chmod("/d".into(), 0o311),
                Op::Readdir("/d".into()),
                Op::Stat("/d/h".into()),
            ],
            tags: vec!["no-permission-checks"],
        };
    }
    let mut r = Rng::new(seed ^ 0x9E51).fork(k as u64);
    // permission bits of everything below the root ("" = the root itself)
    let mut perm: BTreeMap<Vec<String>, u32> = BTreeMap::new();
    let mut is_dir: BTreeSet<Vec<String>> = BTreeSet::new();
    perm.insert(vec![], 0o755);
    is_dir.insert(vec![]);
    for (p, c) in &tree {
        perm.insert(p.clone(), if c.is_none() { 0o755 } else { 0o644 });
        if c.is_none() {
            is_dir.insert(p.clone());
        }
    }
    let mut ops = vec![Op::DropPriv];
    let mut tags: Vec<&'static str> = vec![];
    let mut cwd: Vec<String> = vec![];
    let spell = |p: &Vec<String>| -> String { format!("/{}", p.join("/")) };
    // every directory on the way to `p` (not `p` itself) can be searched
    let reachable = |perm: &BTreeMap<Vec<String>, u32>, p: &Vec<String>| -> bool {
        (0..p.len()).all(|i| perm[&p[..i].to_vec()] & 0o100 != 0)
    };
    let n = 4 + r.below(14);
    for _ in 0..n {
        let all: Vec<Vec<String>> = perm.keys().cloned().collect();
        let dirs: Vec<Vec<String>> = all.iter().filter(|p| is_dir.contains(*p)).cloned().collect();
        let files: Vec<Vec<String>> = all.iter().filter(|p| !is_dir.contains(*p)).cloned().collect();
        match r.below(12) {
            0..=2 => {
                let p = all[r.below(all.len())].clone();
                if p.is_empty() && r.chance(2, 3) {
                    continue;
                }
                let m = if is_dir.contains(&p) {
                    *r.pick(&[0u32, 0o100, 0o300, 0o311, 0o400, 0o500, 0o555, 0o600, 0o700, 0o755])
                } else {
                    *r.pick(&[0u32, 0o200, 0o400, 0o444, 0o600, 0o644])
                };
                if reachable(&perm, &p) {
                    perm.insert(p.clone(), m);
                }
                ops.push(Op::Chmod(spell(&p), m));
            }
            3..=5 => {
                let p = files[r.below(files.len())].clone();
                let acc = *r.pick(&[Acc::Rd, Acc::Rd, Acc::Wr, Acc::RdWr]);
                let mut f = fl;
                if acc != Acc::Rd && r.chance(1, 3) {
                    f.trunc = true;
                }
                if acc != Acc::Rd && r.chance(1, 3) {
                    f.append = true;
                }
                if reachable(&perm, &p) {
                    let m = perm[&p];
                    if (acc != Acc::Wr && m & 0o400 == 0) || (acc != Acc::Rd && m & 0o200 == 0) {
                        // POSIX: EACCES; the simulator opens the file
                        tags.push("no-permission-checks");
                    }
                }
                ops.push(Op::Open(spell(&p), acc, f, 0));
                ops.push(Op::Close(3));
            }
            6 => {
                let p = dirs[r.below(dirs.len())].clone();
                if reachable(&perm, &p) && perm[&p] & 0o400 == 0 {
                    tags.push("no-permission-checks");
                }
                if r.chance(1, 2) {
                    ops.push(Op::Readdir(spell(&p)));
                } else {
                    ops.push(Op::Open(spell(&p), Acc::Rd, Flags { dir: r.chance(1, 2), ..fl }, 0));
                    ops.push(Op::Close(3));
                }
            }
            7 => {
                let p = dirs[r.below(dirs.len())].clone();
                if reachable(&perm, &p) {
                    if perm[&p] & 0o100 == 0 {
                        // the simulator only checks the directories on the way
                        tags.push("no-permission-checks");
                    } else {
                        cwd = p.clone();
                    }
                }
                ops.push(Op::Chdir(spell(&p)));
                ops.push(Op::Getcwd);
            }
            8 => {
                let p = all[r.below(all.len())].clone();
                ops.push(Op::Stat(spell(&p)));
            }
            9 | 10 => {
                // O_CREAT of a new name with a chosen mode
                let d = dirs[r.below(dirs.len())].clone();
                let mut p = d.clone();
                p.push((*r.pick(&["n1", "n2", "n3"])).to_string());
                let m = *r.pick(&[0u32, 0o200, 0o400, 0o600, 0o644, 0o666]);
                let excl = r.chance(1, 4);
                if !perm.contains_key(&p) {
                    if reachable(&perm, &p) {
                        if perm[&d] & 0o200 == 0 {
                            tags.push("no-permission-checks");
                        } else {
                            perm.insert(p.clone(), m);
                        }
                    }
                } else if !excl && reachable(&perm, &p) && perm[&p] & 0o200 == 0 {
                    tags.push("no-permission-checks");
                }
                ops.push(Op::Open(spell(&p), Acc::Wr, Flags { creat: true, excl, ..fl }, m));
                ops.push(Op::Close(3));
            }
            _ => {
                // a relative path from the current directory
                let below: Vec<Vec<String>> =
                    all.iter().filter(|p| p.len() > cwd.len() && p[..cwd.len()] == cwd[..]).cloned().collect();
                // (the simulator checks the directories above the current one again,
                // the real OS does not: only when they are all searchable)
                if below.is_empty() || !(0..cwd.len()).all(|i| perm[&cwd[..i].to_vec()] & 0o100 != 0) {
                    continue;
                }
                let p = below[r.below(below.len())].clone();
                ops.push(Op::Stat(p[cwd.len()..].join("/")));
            }
        }
    }
    tags.sort();
    tags.dedup();
    SysCase { tree, umask: 0, ops, tags }
}

/// SIGCHLD accounting sub-stream: who is told when a child ends.  The parent P of
/// the dying child catches SIGCHLD (sometimes blocks it) and collects the caught
/// signals before and after; P is the first process (a group leader), a nested
/// child that is a non-leader member of the first process's group, or a nested
/// child that leads a group of its own; the child C stays in P's group or moves
/// to a group of its own (before or after the signal is pending); C ends by
/// exit, by a fatal signal it sends itself (to itself / its group), or inside
/// its own sigprocmask call that unblocks a pending signal (the mask inherited
/// from P, like a shell's trap, or set by C).  The kernel model covers all of it.
fn gen_chld_case(seed: u64, idx: usize) -> SysCase {
    let mut r = Rng::new(seed ^ 0xC41D).fork(idx as u64);
    let tree = default_tree(&mut r);
    let mut ops = vec![];
    let nested = r.below(3); // 0: P is the first process; 1: P non-leader child; 2: P child leading a group
    let sig = r.below(5);
    let chld_blocked_in_p = r.chance(1, 5);
    ops.push(Op::Sigaction(CHLD, Disp::Catch));
    if nested > 0 {
        if r.chance(1, 2) {
            // the first process does not catch SIGCHLD itself
            ops.pop();
        }
        ops.push(Op::Fork);
        if nested == 2 {
            ops.push(Op::Setpgid0);
        }
        ops.push(Op::Sigaction(CHLD, Disp::Catch));
        ops.push(Op::Caught);
    }
    // how C will end
    let how = r.below(5);
    if how == 3 {
        // like a shell with a trap: caught and blocked in P, inherited by C
        ops.push(Op::Sigaction(sig, Disp::Catch));
        ops.push(Op::Sigmask(0, vec![sig]));
    }
    if chld_blocked_in_p {
        ops.push(Op::Sigmask(0, vec![CHLD]));
    }
    ops.push(Op::Caught);
    ops.push(Op::Fork);
    let own_early = r.chance(1, 3);
    if own_early {
        ops.push(Op::Setpgid0);
    }
    let own_late = !own_early && r.chance(1, 2);
    match how {
        0 => {
            // plain exit
            if own_late {
                ops.push(Op::Setpgid0);
            }
            ops.push(Op::Getcwd);
        }
        1 => {
            // a fatal signal for itself
            if own_late {
                ops.push(Op::Setpgid0);
            }
            ops.push(Op::Sigaction(sig, Disp::Default));
            ops.push(Op::Kill(Target::Own, sig));
            ops.push(Op::Getcwd);
        }
        2 | 4 => {
            // death at unblock time, the mask set by C itself
            ops.push(Op::Sigmask(0, vec![sig]));
            ops.push(Op::Sigaction(sig, Disp::Default));
            ops.push(Op::Kill(Target::Own, sig));
            if own_late {
                ops.push(Op::Setpgid0);
            }
            ops.push(if how == 2 { Op::Sigmask(1, vec![sig]) } else { Op::Sigmask(2, vec![]) });
            ops.push(Op::Getcwd);
        }
        _ => {
            // death at unblock time, the mask inherited from P
            ops.push(Op::Kill(Target::Own, sig));
            if own_late {
                ops.push(Op::Setpgid0);
            }
            ops.push(Op::Sigaction(sig, Disp::Default));
            ops.push(Op::Sigmask(1, vec![sig]));
            ops.push(Op::Getcwd);
        }
    }
    ops.push(Op::Exit);
    // P: has it been told?
    ops.push(Op::Caught);
    if chld_blocked_in_p {
        ops.push(Op::Sigmask(1, vec![CHLD]));
        ops.push(Op::Caught);
    }
    if nested > 0 {
        ops.push(Op::Exit);
        // the first process: told about its own child only
        ops.push(Op::Caught);
    }
    ops.push(Op::Caught);
    SysCase { tree, umask: 0o022, ops, tags: vec![] }
}

// ---------------------------------------------------------------------------
// generator of the wait stream (several children alive together)
// ---------------------------------------------------------------------------

fn corpus_wait() -> Vec<Vec<WOp>> {
    use WOp::*;
    let p = |o: Op| Parent(o);
    vec![
        // two children alive together; the younger one, in a group of its own, dies inside
        // its sigprocmask call (mask inherited from the parent), the older one exits later
        vec![
            p(Op::Sigaction(CHLD, Disp::Catch)), p(Op::Sigmask(0, vec![2])), Fork, Fork,
            Wait(None), Cmd(1, CCmd::Setpgid), Kill(1, 2), p(Op::Caught), Wait(Some(1)),
            Cmd(1, CCmd::Mask(1, vec![2])), p(Op::Caught), Wait(Some(0)), Wait(None), Wait(None),
            Cmd(0, CCmd::Exit(7)), p(Op::Caught), Wait(Some(1)), Wait(Some(0)), Wait(None),
        ],
        // the younger child ends first; wait(-1) must report it although the older one is alive
        vec![Fork, Fork, Cmd(1, CCmd::Exit(3)), Wait(None), Wait(None), Cmd(0, CCmd::Exit(4)), Wait(None), Wait(None)],
        // both are zombies: the pid-specific wait picks the named one, wait(-1) the other
        vec![Fork, Fork, Cmd(0, CCmd::Exit(1)), Cmd(1, CCmd::SelfKill(3)), Wait(Some(1)), Wait(Some(1)), Wait(None), Wait(None), Wait(Some(0))],
        // no children at all
        vec![Wait(None), p(Op::Caught)],
        // SIGCHLD blocked in the parent while two children die: one pending instance
        vec![
            p(Op::Sigaction(CHLD, Disp::Catch)), p(Op::Sigmask(0, vec![CHLD])), Fork, Fork, Fork,
            Kill(2, 0), Cmd(0, CCmd::Exit(0)), p(Op::Caught), p(Op::Sigmask(1, vec![CHLD])), p(Op::Caught),
            Wait(None), Wait(None), Wait(None), Cmd(1, CCmd::Mask(0, vec![1])), Kill(1, 1), Cmd(1, CCmd::Mask(2, vec![])),
            p(Op::Caught), Wait(None), Wait(None),
        ],
    ]
}

fn gen_wait_case(seed: u64, k: usize, thorough: bool) -> Vec<WOp> {
    let c = corpus_wait();
    if k < c.len() {
        return c[k].clone();
    }
    #[derive(Clone, Default)]
    struct Ch {
        running: bool,
        mask: BTreeSet<usize>,
        pend: BTreeSet<usize>,
    }
    let mut r = Rng::new(seed ^ 0x3A17).fork(k as u64);
    let mut ops = vec![];
    let mut pmask: BTreeSet<usize> = BTreeSet::new();
    let mut chs: Vec<Ch> = vec![];
    if r.chance(2, 3) {
        ops.push(WOp::Parent(Op::Sigaction(CHLD, Disp::Catch)));
    }
    if r.chance(1, 2) {
        // the children inherit a blocked fatal signal (like the children of a shell with a trap)
        let sig = r.below(5);
        pmask.insert(sig);
        ops.push(WOp::Parent(Op::Sigmask(0, vec![sig])));
    }
    let want = 2 + r.below(if thorough { 3 } else { 2 });
    let mut budget = if thorough { 10 + r.below(26) } else { 8 + r.below(16) };
    while budget > 0 {
        budget -= 1;
        let running: Vec<usize> = (0..chs.len()).filter(|i| chs[*i].running).collect();
        let w = r.below(20);
        if chs.len() < want && (w < 6 || chs.len() < 2) {
            chs.push(Ch { running: true, mask: pmask.iter().copied().filter(|s| *s < 5).collect(), pend: BTreeSet::new() });
            ops.push(WOp::Fork);
            continue;
        }
        match w {
            0..=5 if !running.is_empty() => {
                // a call of a child
                let i = running[r.below(running.len())];
                let mut sig = r.below(5);
                let mut what = r.below(8);
                if let Some(p) = chs[i].pend.iter().next().copied() {
                    // a pending signal: mostly go on to the death inside sigprocmask
                    // (sometimes from a process group of its own)
                    if r.chance(2, 3) {
                        sig = p;
                        what = if r.chance(1, 3) { 7 } else { 4 };
                    }
                } else if let Some(m) = chs[i].mask.iter().next().copied() {
                    if r.chance(1, 2) {
                        sig = m;
                        what = 2;
                    }
                }
                match what {
                    0 | 1 => {
                        chs[i].running = false;
                        ops.push(WOp::Cmd(i, CCmd::Exit(*r.pick(&[0, 1, 7, 42, 255]))));
                    }
                    2 => {
                        if chs[i].mask.contains(&sig) {
                            chs[i].pend.insert(sig);
                        } else {
                            chs[i].running = false;
                        }
                        ops.push(WOp::Cmd(i, CCmd::SelfKill(sig)));
                    }
                    3 => {
                        chs[i].mask.insert(sig);
                        ops.push(WOp::Cmd(i, CCmd::Mask(0, vec![sig])));
                    }
                    4 | 5 => {
                        // unblock / set: at most one pending signal may become deliverable
                        let (how, sigs, new): (u8, Vec<usize>, BTreeSet<usize>) = if what == 4 || r.chance(1, 2) {
                            let mut n = chs[i].mask.clone();
                            n.remove(&sig);
                            (1, vec![sig], n)
                        } else {
                            let keep: Vec<usize> = chs[i].mask.iter().copied().filter(|_| r.chance(1, 2)).collect();
                            (2, keep.clone(), keep.into_iter().collect())
                        };
                        let deliverable: Vec<usize> = chs[i].pend.iter().copied().filter(|s| !new.contains(s)).collect();
                        if deliverable.len() > 1 {
                            continue;
                        }
                        chs[i].mask = new;
                        if !deliverable.is_empty() {
                            chs[i].running = false;
                        }
                        ops.push(WOp::Cmd(i, CCmd::Mask(how, sigs)));
                    }
                    _ => ops.push(WOp::Cmd(i, CCmd::Setpgid)),
                }
            }
            6..=8 if !running.is_empty() => {
                // the parent sends a signal to a child
                let i = running[r.below(running.len())];
                let mut sig = r.below(5);
                if let Some(m) = chs[i].mask.iter().next().copied() {
                    // mostly a signal the child blocks: it stays pending
                    if r.chance(2, 3) {
                        sig = m;
                    }
                }
                if chs[i].mask.contains(&sig) {
                    chs[i].pend.insert(sig);
                } else {
                    chs[i].running = false;
                }
                ops.push(WOp::Kill(i, sig));
            }
            9..=12 => ops.push(WOp::Wait(None)),
            13..=15 if !chs.is_empty() => ops.push(WOp::Wait(Some(r.below(chs.len())))),
            16 | 17 => ops.push(WOp::Parent(Op::Caught)),
            18 => {
                let how = r.below(2) as u8;
                ops.push(WOp::Parent(Op::Sigmask(how, vec![CHLD])));
            }
            _ => {}
        }
    }
    // collect everything that can be collected, and the SIGCHLD state
    ops.push(WOp::Parent(Op::Sigmask(1, vec![CHLD])));
    ops.push(WOp::Parent(Op::Caught));
    for _ in 0..=chs.len() {
        ops.push(WOp::Wait(None));
    }
    ops
}

fn gen_sys_case(seed: u64, idx: usize, thorough: bool) -> SysCase {
    // every sixth case is an EMFILE sweep
    if idx % 6 == 5 {
        return gen_sweep_case(seed, idx);
    }
    // ... and every sixth a SIGCHLD accounting case
    if idx % 6 == 2 {
        return gen_chld_case(seed, idx);
    }
    let x = excl_for(seed, idx, 0x5E1);
    let mut r = Rng::new(seed ^ 0xC19).fork(idx as u64);
    let tree = default_tree(&mut r);
    let umask = *r.pick(&[0o022, 0o022, 0o077, 0o002, 0]);
    let mut t = Tracker::new(&tree);
    let mut ops = vec![];
    if r.chance(1, 3) {
        t.cur_mut().disp[CHLD] = Disp::Catch;
        ops.push(Op::Sigaction(CHLD, Disp::Catch));
    }
    let mut budget = if thorough { 6 + r.below(34) } else { 4 + r.below(22) };
    while budget > 0 {
        budget -= 1;
        gen_op(&mut r, &mut t, &x, &mut ops, 0, &mut budget);
    }
    SysCase { tree, umask, ops, tags: t.hit.clone() }
}

// ---------------------------------------------------------------------------
// stream 2: one shell main for both systems
// ---------------------------------------------------------------------------

type BuiltinFuture<'a> = Pin<Box<dyn Future<Output = yash_env::builtin::Result> + 'a>>;

/// `echo ARG...` (the shell has no such built-in; same code on both systems)
fn echo_main<S: WriteAll>(env: &mut Env<S>, args: Vec<Field>) -> BuiltinFuture<'_> {
    Box::pin(async move {
        let v: Vec<&str> = args.iter().map(|f| f.value.as_str()).collect();
        let message = format!("{}\n", v.join(" "));
        match env.system.write_all(Fd::STDOUT, message.as_bytes()).await {
            Ok(_) => ExitStatus::SUCCESS.into(),
            Err(_) => ExitStatus::FAILURE.into(),
        }
    })
}

/// `cat`: standard input to standard output
fn cat_main<S: WriteAll + Read>(env: &mut Env<S>, _args: Vec<Field>) -> BuiltinFuture<'_> {
    Box::pin(async move {
        let mut buffer = [0; 256];
        loop {
            match env.system.read(Fd::STDIN, &mut buffer).await {
                Ok(0) => return ExitStatus::SUCCESS.into(),
                Ok(n) => {
                    if env.system.write_all(Fd::STDOUT, &buffer[..n]).await.is_err() {
                        return ExitStatus::FAILURE.into();
                    }
                }
                Err(_) => return ExitStatus::FAILURE.into(),
            }
        }
    })
}

/// `yash -c SCRIPT` re-assembled from the public parts of `yash_cli::main`
/// (which is written for `RealSystem` only), generic in the system.
async fn shell_body<S>(env: &mut Env<S>, script: &str)
where
    S: Chdir
        + Clone
        + GetCwd
        + yash_env::system::resource::GetRlimit
        + yash_env::system::GetUid
        + yash_semantics::Runtime
        + yash_env::system::Sysconf
        + yash_env::system::TcGetPgrp
        + yash_env::system::Times
        + Umask
        + Write
        + 'static,
{
    let argv = vec!["yash".to_string(), "-c".to_string(), script.to_string()];
    let run = match parse_args(argv) {
        Ok(Parse::Run(run)) => run,
        _ => {
            env.exit_status = ExitStatus(2);
            return;
        }
    };
    let work = configure_environment(env, run).await;
    env.builtins.insert("echo", Builtin::new(Type::Mandatory, echo_main));
    env.builtins.insert("cat", Builtin::new(Type::Mandatory, cat_main));
    // PATH is empty, so the substitutive built-ins would be refused: make them
    // regular built-ins (same code on both sides)
    for name in ["pwd", "true", "false"] {
        if let Some(b) = env.builtins.get_mut(name) {
            b.r#type = Type::Mandatory;
        }
    }
    env.system.umask(Mode::from_bits_retain(0o022));
    {
        // the shell leads a process group of its own on both sides (`kill -- -$$`)
        let _ = env.system.setpgid(yash_env::job::Pid(0), yash_env::job::Pid(0));
    }
    let ref_env = RefCell::new(env);
    let lexer = match prepare_input(&ref_env, &work.source).await {
        Ok(lexer) => lexer,
        Err(_) => {
            ref_env.borrow_mut().exit_status = ExitStatus(127);
            return;
        }
    };
    let result = read_eval_loop(&ref_env, &mut { lexer }).await;
    let env = ref_env.into_inner();
    env.apply_result(result);
    match result {
        Continue(())
        | Break(Divert::Continue { .. })
        | Break(Divert::Break { .. })
        | Break(Divert::Return(_))
        | Break(Divert::Interrupt(_))
        | Break(Divert::Exit(_)) => run_exit_trap(env).await,
        Break(Divert::Abort(_)) => (),
    }
}

/// The absolute name of the scratch root is printed as `ROOT`.
fn canon_root(out: &[u8], root: &str) -> Vec<u8> {
    let s = String::from_utf8_lossy(out).into_owned();
    s.replace(root, "ROOT").into_bytes()
}

fn canon_tree(t: Vec<TreeEntry>, root: &str) -> Vec<TreeEntry> {
    t.into_iter().map(|(p, k, m, d)| (p, k, m, canon_root(&d, root))).collect()
}

/// What one run of a script showed.
#[derive(Clone, Debug, Default, PartialEq)]
struct ScriptObs {
    stdout: Vec<u8>,
    /// exit status; -1 = did not finish, -2 = panic, -(100+n) = killed by signal n
    status: i32,
    tree: Vec<TreeEntry>,
    /// not compared (message texts differ by design), kept for the replay
    stderr: String,
}

impl ScriptObs {
    fn coq(&self) -> String {
        format!(
            "(mkScriptObs {} {} {})",
            coq::bytes(&self.stdout),
            coq::z(self.status as i128),
            tree_coq(&self.tree)
        )
    }
}

/// Runs the script on the simulated OS, with `root` (same absolute name as on
/// the real side) as the working directory.
fn run_script_virtual(script: &str, tree: &InitTree, root: &str) -> ScriptObs {
    let script = script.to_string();
    let tree = tree.clone();
    let root_s = root.to_string();
    let r = std::panic::catch_unwind(std::panic::AssertUnwindSafe(move || {
        vsh::drive(
            move |mut env: vsh::VEnv, state: vsh::State| {
                populate_virtual(&state, &root_s, &tree);
                {
                    let mut st = state.borrow_mut();
                    let pid = env.main_pid;
                    st.processes.get_mut(&pid).unwrap().chdir(yash_env::path::PathBuf::from(root_s.as_str()));
                }
                async move {
                    shell_body(&mut env, &script).await;
                    env.exit_status.0
                }
            },
            200_000,
        )
    }));
    match r {
        Ok((res, _deadlock, _timeout, state)) => {
            let read = |p: &str| vsh::read_file(&state, p).unwrap_or_default();
            // the main shell process killed by a signal never finishes its task
            // (what a parent would see from wait(): the process state first)
            let status = {
                use yash_env::job::{ProcessResult, ProcessState};
                let st = state.borrow();
                match st.processes.get(&yash_env::job::Pid(2)).map(|p| p.state()) {
                    Some(ProcessState::Halted(ProcessResult::Signaled { signal, .. })) => -(100 + signal.as_raw()),
                    _ => res.unwrap_or(-1),
                }
            };
            ScriptObs {
                stdout: canon_root(&read("/dev/stdout"), root),
                status,
                tree: canon_tree(snapshot_virtual(&state, root), root),
                stderr: String::from_utf8_lossy(&read("/dev/stderr")).into_owned(),
            }
        }
        Err(_) => ScriptObs { status: -2, ..Default::default() },
    }
}

/// `c19 --real-shell SCRIPT`: this process becomes the shell on the real OS.
fn real_shell_main(script: &str) -> ! {
    use yash_env::system::{Disposition, Sigaction as _, Signals as _};
    if std::env::var("YV_C19_UNPRIV").is_ok() {
        drop_privileges();
    }
    // SAFETY: the only RealSystem of this process
    let system = unsafe { RealSystem::new() };
    system.sigaction(RealSystem::SIGPIPE, Disposition::Default).ok();
    let system = Rc::new(Concurrent::new(system));
    let runner = Rc::clone(&system);
    let script = script.to_string();
    let task = async move {
        let mut env = Env::with_system(system);
        shell_body(&mut env, &script).await;
        yash_env::semantics::exit_or_raise(&env.system, env.exit_status).await
    };
    runner.run_real(task)
}

/// A harness failure (infrastructure, not an observation): never reported as
/// a difference between the two systems.  The driver sees a non-zero exit.
fn harness_error(msg: &str) -> ! {
    eprintln!("c19: HARNESS ERROR (not a property violation): {msg}");
    std::process::exit(4);
}

struct Captured {
    stdout: Vec<u8>,
    stderr: Vec<u8>,
    /// None = the process did not finish within the time limit (it was killed)
    status: Option<std::process::ExitStatus>,
}

/// Runs a child process in a process group of its own and captures its output.
/// What has been read is never thrown away: the readers append to shared
/// buffers, and after the child has exited they are given a long time to reach
/// end-of-file (stragglers that still hold the pipe are killed first).
fn capture(mut cmd: std::process::Command, timeout: Duration) -> Captured {
    use std::os::unix::process::CommandExt;
    use std::process::Stdio;
    use std::sync::{Arc, Mutex};
    cmd.stdin(Stdio::null()).stdout(Stdio::piped()).stderr(Stdio::piped()).process_group(0);
    let mut child = match cmd.spawn() {
        Ok(c) => c,
        Err(e) => harness_error(&format!("cannot start a child process: {e}")),
    };
    let pgid = child.id();
    let spawn_reader = |mut src: Box<dyn std::io::Read + Send>| {
        let buf = Arc::new(Mutex::new(Vec::<u8>::new()));
        let b2 = Arc::clone(&buf);
        let th = std::thread::spawn(move || {
            let mut chunk = [0u8; 4096];
            loop {
                match src.read(&mut chunk) {
                    Ok(0) | Err(_) => break,
                    Ok(n) => b2.lock().unwrap().extend_from_slice(&chunk[..n]),
                }
            }
        });
        (buf, th)
    };
    let (out_buf, out_th) = spawn_reader(Box::new(child.stdout.take().unwrap()));
    let (err_buf, err_th) = spawn_reader(Box::new(child.stderr.take().unwrap()));
    let kill_group = || {
        let _ = std::process::Command::new("/bin/kill").arg("-9").arg(format!("-{pgid}")).status();
    };
    let t0 = Instant::now();
    let status = loop {
        match child.try_wait() {
            Ok(Some(st)) => break Some(st),
            Ok(None) => {
                if t0.elapsed() > timeout {
                    kill_group();
                    let _ = child.kill();
                    let _ = child.wait();
                    break None;
                }
                std::thread::sleep(Duration::from_millis(1));
            }
            Err(_) => break None,
        }
    };
    // the child has exited: everything it wrote is in the pipes already; give
    // the readers time to drain them, whatever the load
    let wait_readers = |limit: Duration| {
        let t1 = Instant::now();
        while !(out_th.is_finished() && err_th.is_finished()) && t1.elapsed() < limit {
            std::thread::sleep(Duration::from_millis(1));
        }
        out_th.is_finished() && err_th.is_finished()
    };
    if !wait_readers(Duration::from_secs(20)) {
        // descendants still hold the pipes
        kill_group();
        wait_readers(Duration::from_secs(60));
    }
    let stdout = out_buf.lock().unwrap().clone();
    let stderr = err_buf.lock().unwrap().clone();
    Captured { stdout, stderr, status }
}

/// Runs the script with this binary as the shell, in a fresh directory.
fn run_script_real(script: &str, tree: &InitTree, dir: &str) -> ScriptObs {
    run_script_real_with(script, tree, dir, None)
}

/// `shell` = None: this binary (`--real-shell`); Some(path): that binary (`-c`).
fn run_script_real_with(script: &str, tree: &InitTree, dir: &str, shell: Option<&str>) -> ScriptObs {
    use std::os::unix::process::ExitStatusExt;
    let root = format!("{dir}/root");
    // a time limit only guards against a hang; it is generous and a run that
    // exceeds it is repeated once with a much longer one before giving up
    for (attempt, limit) in [(1, 60u64), (2, 300u64)] {
        let _ = std::fs::remove_dir_all(dir);
        populate_real(&root, tree);
        let mut cmd = match shell {
            None => {
                let mut c = std::process::Command::new(std::env::current_exe().unwrap());
                c.arg("--real-shell");
                c
            }
            Some(path) => {
                let mut c = std::process::Command::new(path);
                c.arg("-c");
                c
            }
        };
        cmd.arg(script).current_dir(&root).env_clear();
        if tree.iter().any(|(p, _)| mode_suffix(p).is_some()) {
            cmd.env("YV_C19_UNPRIV", "1");
        }
        let c = capture(cmd, Duration::from_secs(limit));
        let Some(st) = c.status else {
            if attempt == 2 {
                harness_error(&format!("the shell on the real OS did not finish within {limit} s: {script:?}"));
            }
            continue;
        };
        let status = match (st.code(), st.signal()) {
            (Some(c), _) => c,
            (None, Some(s)) => -(100 + s),
            _ => -1,
        };
        let tree = canon_tree(snapshot_real(&root), &root);
        let _ = std::fs::remove_dir_all(dir);
        return ScriptObs {
            stdout: canon_root(&c.stdout, &root),
            status,
            tree,
            stderr: String::from_utf8_lossy(&c.stderr).into_owned(),
        };
    }
    unreachable!()
}

// ---------------------------------------------------------------------------
// generator of scripts
// ---------------------------------------------------------------------------

#[derive(Clone, Debug)]
struct ScriptCase {
    tree: InitTree,
    script: String,
    tags: Vec<&'static str>,
    kinds: Vec<&'static str>,
}

fn script_tree() -> InitTree {
    let s = |l: &[&str]| -> Vec<String> { l.iter().map(|x| x.to_string()).collect() };
    let big: Vec<u8> = (0..1500u32).map(|i| if i % 50 == 49 { b'\n' } else { b'a' + (i % 26) as u8 }).collect();
    vec![
        (s(&["d"]), None),
        (s(&["d", "s"]), None),
        (s(&["e"]), None),
        (s(&["f"]), Some(b"hello world\nsecond line\n".to_vec())),
        (s(&["g"]), Some(vec![])),
        (s(&["d", "h"]), Some(b"abc\n".to_vec())),
        (s(&["e", "k"]), Some(b"0123456789\n".to_vec())),
        (s(&["big"]), Some(big)),
        (s(&["lib.sh"]), Some(b"echo sourced $1\nv=7\n".to_vec())),
    ]
}

struct SGen<'a> {
    r: &'a mut Rng,
    x: Excl,
    /// current directory of the main shell, below the root
    cwd: Vec<&'static str>,
    globs: usize,
    tags: Vec<&'static str>,
    kinds: Vec<&'static str>,
}

impl SGen<'_> {
    fn up(&self) -> String {
        "../".repeat(self.cwd.len())
    }
    /// an existing regular file, spelled from the current directory
    fn file(&mut self) -> String {
        let f = *self.r.pick(&["f", "g", "d/h", "e/k", "f", "lib.sh"]);
        format!("{}{}", self.up(), f)
    }
    fn newfile(&mut self) -> String {
        let f = *self.r.pick(&["n1", "n2", "d/n3", "e/n4", "d/s/n5"]);
        if self.cwd.is_empty() || self.x.creat_dotdot {
            // (with the creat-dotdot class excluded: only below the cwd)
            if self.cwd.is_empty() { f.to_string() } else { (*self.r.pick(&["n1", "n2"])).to_string() }
        } else {
            self.tag("creat-dotdot");
            format!("{}{}", self.up(), f)
        }
    }
    fn dir(&mut self) -> String {
        let d = *self.r.pick(&["d", "e", "d/s"]);
        format!("{}{}", self.up(), d)
    }
    fn word(&mut self) -> &'static str {
        *self.r.pick(&["alpha", "'b c'", "12", "\"x y\"", "w-1", "Z"])
    }
    fn fd(&mut self) -> u32 {
        3 + self.r.below(4) as u32
    }
    fn tag(&mut self, t: &'static str) {
        if !self.tags.contains(&t) {
            self.tags.push(t);
        }
    }
    /// Pathname expansion in the main shell.  On the simulator every
    /// directory that is read leaves a descriptor open (finding
    /// opendir-fd-leak), which is only visible to a script that then refers to
    /// a descriptor it has not opened: `self.globs` bounds the number of leaked
    /// descriptors (at most 2 per expansion here), and the "descriptor 9 is
    /// closed" tests are only generated while 3 + globs*2 <= 9.
    fn glob_ok(&mut self) -> bool {
        if self.globs >= 3 {
            return false;
        }
        self.globs += 1;
        true
    }
    fn fd9_is_closed(&self) -> bool {
        3 + self.globs * 2 <= 9
    }

    fn stmt(&mut self) -> String {
        loop {
            let k = self.r.below(72);
            let (kind, s): (&'static str, String) = match k {
                68..=71 => {
                    // a background child that dies the moment it unblocks a pending signal
                    // (blocked because the parent traps it), the parent then waits for it
                    if !self.cwd.is_empty() {
                        continue;
                    }
                    ("unblock-death", unblock_death_stmt(self.r))
                }
                0 => ("redir-out", format!("echo {} > {}", self.word(), self.newfile())),
                1 => ("redir-out", format!("echo {} > {}; echo {} >> {}", self.word(), "n1", self.word(), "n1")),
                2 => ("redir-append", format!("echo {} >> {}", self.word(), self.file())),
                3 => ("redir-clobber", format!("echo {} >| {}", self.word(), self.file())),
                4 => ("redir-in", format!("cat < {}", self.file())),
                5 => ("err-missing", format!("cat < {}nope; echo $?", self.up())),
                6 => ("err-dir-as-file", format!("cat < {}; echo $?", self.dir())),
                7 => ("err-file-as-dir", format!("echo {} > {}/x; echo $?", self.word(), self.file())),
                8 => {
                    if self.x.creat_missing_parent {
                        continue;
                    }
                    self.tag("creat-missing-parent");
                    ("err-missing-dir", format!("echo {} > {}zz/x; echo $?", self.word(), self.up()))
                }
                9 => {
                    let f = self.file();
                    ("noclobber", format!("set -C; echo {} > {f}; echo $?; echo {} > {}; echo $?; set +C", self.word(), self.word(), self.newfile()))
                }
                10 => {
                    let (n, f) = (self.fd(), self.newfile());
                    ("exec-fd-out", format!("exec {n}> {f}; echo a >&{n}; echo {} >&{n}; exec {n}>&-; cat < {f}", self.word()))
                }
                11 => {
                    let (n, f) = (self.fd(), self.file());
                    ("exec-fd-in", format!("exec {n}< {f}; read x <&{n}; echo \"[$x]\"; cat <&{n}; exec {n}<&-"))
                }
                12 => {
                    let (n, f) = (self.fd(), self.file());
                    ("exec-fd-rw", format!("exec {n}<> {f}; echo {} >&{n}; read y <&{n}; echo \"[$y]\"; exec {n}>&-", self.word()))
                }
                13 if self.fd9_is_closed() => ("err-closed-fd", format!("echo {} >&9; echo $?", self.word())),
                14 if self.fd9_is_closed() => ("err-closed-fd", "cat <&9; echo $?".to_string()),
                15 => {
                    let (n, f) = (self.fd(), self.file());
                    ("fd-dup", format!("exec {n}< {f}; exec 8<&{n}; read a <&{n}; read b <&8; echo \"$a/$b\"; exec {n}<&- 8<&-"))
                }
                16 => {
                    if self.cwd.len() >= 2 {
                        continue;
                    }
                    let d = if self.cwd.is_empty() { *self.r.pick(&["d", "e"]) } else if self.cwd == ["d"] { "s" } else { continue };
                    self.cwd.push(d);
                    ("cd", format!("cd {d}; pwd"))
                }
                17 => {
                    if self.cwd.is_empty() {
                        continue;
                    }
                    self.cwd.pop();
                    ("cd-up", "cd ..; pwd".to_string())
                }
                18 => ("cd-error", format!("cd {}nope; echo $?; cd {}; echo $?; pwd", self.up(), self.file())),
                19 => {
                    let d = self.dir();
                    ("subshell-cd", format!("(cd {d} && pwd && echo {} > sub.txt); pwd", self.word()))
                }
                20 => {
                    if !self.glob_ok() {
                        continue;
                    }
                    let pat = *self.r.pick(&["*", "d/*", "*/", "nomatch*", "[fg]", "?", "d/*/*", "e/k*", ".*"]);
                    ("glob", format!("echo {}{}", self.up(), pat))
                }
                21 => ("pipe", format!("echo {} | cat", self.word())),
                22 => ("pipe", format!("cat < {} | cat | cat", self.file())),
                23 => ("pipe-read", "echo a b c | { read p q; echo \"$q $p\"; }".to_string()),
                24 => ("pipe-status", (*self.r.pick(&["true | false; echo $?", "! false | true; echo $?", "false | true; echo $?", "(exit 3) | (exit 5); echo $?"])).to_string()),
                25 => ("pipe-big", format!("cat < {}big | cat > out.big; cat < out.big | {{ read l; echo \"$l\"; }}", self.up())),
                26 => ("cmdsubst", format!("v=$(cat < {}); echo \"<$v>\"", self.file())),
                27 => ("cmdsubst", (*self.r.pick(&["echo \"$(echo a; echo b)\"", "v=$(exit 3); echo $?", "echo $(echo $(echo deep))", "echo \"$(echo x >&2)\"|cat"])).to_string()),
                28 => ("cmdsubst-big", format!("v=$(cat < {}big); echo ${{#v}}", self.up())),
                29 => ("subshell", (*self.r.pick(&["(exit 4); echo $?", "(exec 3> sub3.txt; echo z >&3; exec 3>&-); echo $?", "(v=1; exit 0); echo \"[$v]\""])).to_string()),
                30 => ("subshell-umask", format!("(umask 077; echo {} > {}); umask", self.word(), self.newfile())),
                31 => ("trap-self-signal", (*self.r.pick(&[
                    "trap 'echo T1' USR1; kill -s USR1 $$; echo after",
                    "trap '' TERM; kill $$; echo alive",
                    "trap 'echo I; trap - INT' INT; kill -s INT $$; echo next",
                    "trap 'echo U2 $?' USR2; (exit 3); kill -s USR2 $$; echo $?",
                    "trap 'echo H' HUP; (kill -s HUP $$); echo sub=$?",
                ])).to_string()),
                32 => ("trap-exit", (*self.r.pick(&["trap 'echo bye $?' EXIT", "trap 'echo bye > bye.txt' EXIT", "(trap 'echo subbye' EXIT; exit 2); echo $?"])).to_string()),
                33 => {
                    let m = *self.r.pick(&["027", "077", "002", "0", "u=rwx,g=rx,o="]);
                    ("umask", format!("umask {m}; echo {} > {}; umask; umask -S; umask 022", self.word(), self.newfile()))
                }
                34 => ("wait", (*self.r.pick(&[
                    "(exit 3) & wait $!; echo $?",
                    "true & false & wait; echo $?",
                    "(echo bg > bg.txt) & wait; cat < bg.txt",
                    "wait 99999; echo $?",
                    "(exit 7) & p=$!; wait $p; echo $?; wait $p; echo $?",
                    "(exit 1) & (exit 2) & wait $!; echo $?; wait; echo $?",
                ])).to_string()),
                35 => ("heredoc", format!("read a b <<EOF\nx y z\nEOF\necho \"$a|$b\"; cat <<EOF > {}\nline1\nline $a\nEOF", self.newfile())),
                36 => ("kill", (*self.r.pick(&["kill -0 $$; echo $?", "kill -s 0 $$ && echo self", "kill -l 15; kill -l TERM"])).to_string()),
                37 => ("while-read", format!("while read l; do echo \"<$l>\"; done < {}", self.file())),
                38 => ("for-redirect", format!("for i in 1 2 3; do echo $i; done > {}; echo $?", self.newfile())),
                39 => ("group-redirect", format!("{{ echo a; echo b >&2; }} > {} 2>&1", self.newfile())),
                40 => ("fd-dup-stdout", "exec 7>&1; echo viafd7 >&7; exec 7>&-; echo viafd7 >&7; echo $?".to_string()),
                41 => ("function", format!("fn() {{ echo in-fn \"$@\"; return 5; }}; fn a b > {}; echo $?", self.newfile())),
                42 => {
                    if self.x.getcwd_unnormalized {
                        // only spellings without `.` / `..`
                        let d = if self.cwd.is_empty() {
                            *self.r.pick(&["d", "e", "d/s"])
                        } else if self.cwd == ["d"] {
                            "s"
                        } else {
                            continue
                        };
                        ("cd-physical", format!("(cd -P {d}; pwd; pwd -P)"))
                    } else {
                        self.tag("getcwd-unnormalized");
                        let d = self.dir();
                        ("cd-physical", format!("(cd -P {d}/.; pwd; cd -P ..; pwd -P)"))
                    }
                }
                43 => ("source", format!(". {}lib.sh arg; echo $v", if self.cwd.is_empty() { "./".to_string() } else { self.up() })),
                44 => {
                    if self.x.open_dir_for_writing {
                        continue;
                    }
                    self.tag("open-dir-for-writing");
                    ("err-write-dir", format!("echo {} > {}; echo $?", self.word(), self.dir()))
                }
                46 => {
                    // an older child that is still running while a later one is done
                    let up = self.up();
                    ("wait-slow-child", match self.r.below(4) {
                        0 => format!("(cat < {up}big | cat > o1.tmp) & true & wait; echo $?"),
                        1 => format!("(cat < {up}big | cat > /dev/null; exit 3) & (exit 2) & wait $!; echo $?; wait; echo $?"),
                        2 => format!("(cat < {up}big | cat | cat > o2.tmp; exit 5) & p=$!; true & wait $!; wait $p; echo $?"),
                        _ => format!("(v=$(cat < {up}big); exit 4) & true & true & wait; echo $?"),
                    })
                }
                47 => {
                    let f = self.file();
                    ("shared-offset-fork", format!("exec 5< {f}; (read a <&5; echo \"sub[$a]\"); read b <&5; echo \"main[$b]\"; exec 5<&-"))
                }
                48 => ("pipe-subshell", "{ echo a; echo b; echo c; } | (read x; echo \"first=$x\"; cat)".to_string()),
                49 => ("pipe-to-file", format!("echo {} | cat | cat > {}; echo $?", self.word(), self.newfile())),
                50 => {
                    let d = self.dir();
                    ("pipe-cd", format!("(cd {d}; echo *; pwd) | cat"))
                }
                51 => ("signal-from-child", (*self.r.pick(&[
                    "trap 'echo got' USR1; (kill -s USR1 $$) & wait $!; echo done",
                    "trap 'echo got2' USR2; (kill -s USR2 $$; exit 3); echo sub=$?",
                    "trap 'echo T; exit 9' TERM; (kill $$); echo unreachable",
                ])).to_string()),
                52 => ("cmdsubst-fd", "exec 7>&1; v=$(echo inner >&7; echo captured); echo \"[$v]\"; exec 7>&-".to_string()),
                53 => ("cmdsubst-bg", "v=$(echo a & wait; echo b); echo \"[$v]\"".to_string()),
                54 => {
                    let f = self.file();
                    ("truncate", format!(": > {f}; cat < {f}; echo x >> {f}; cat < {f} > {f}; cat < {f}; echo $?"))
                }
                55 => {
                    let (n, f, d) = (self.fd(), self.newfile(), self.dir());
                    ("fd-survives-cd", format!("exec {n}> {f}; (cd {d}; echo sub >&{n}); echo main >&{n}; exec {n}>&-; cat < {f}"))
                }
                56 => ("heredoc-big", format!("cat <<EOF | {{ read a; read b; echo \"$b\"; cat > /dev/null; }}\n{}EOF", "0123456789abcdefghijklmnopqrstuvwxyz0123456789abcdefghijklmnopqrstuvwxyz\n".repeat(20))),
                59 => {
                    // a child kills its parent, which has the default disposition
                    if self.x.killed_process_keeps_running {
                        continue;
                    }
                    self.tag("killed-process-keeps-running");
                    let f = self.newfile();
                    ("signal-default-from-child", format!("(kill -s TERM $$); echo x > {f}; echo unreachable"))
                }
                61 | 62 => {
                    // RLIMIT_NOFILE in a subshell: EMFILE at pipes, redirections,
                    // command substitution, descriptor saving
                    let n = 3 + self.r.below(6);
                    let f = self.file();
                    let body = match self.r.below(8) {
                        0 => "echo x | cat; echo $?".to_string(),
                        1 => format!("exec 3< {f} 4< {f}; echo $?; cat <&3"),
                        2 => format!("v=$(echo hi); echo \"$? $v\"; cat < {f} | cat | cat; echo $?"),
                        3 => "for i in 1 2 3; do echo $i; done | { read a; echo \"$a\"; cat; } | cat; echo $?".to_string(),
                        4 => format!("cat < {f}; echo $?; exec 5< {f}; echo $?; ulimit -n"),
                        5 => "echo a >&2; echo $?; { echo b; } 2>&1; echo $?".to_string(),
                        6 => "(echo deep | cat); echo $?; v=$(echo a | cat); echo \"$? $v\"".to_string(),
                        _ => {
                            // an output redirection: with no descriptor left the file must
                            // not be created
                            if n == 3 {
                                if self.x.emfile_open_side_effects {
                                    continue;
                                }
                                self.tag("emfile-open-side-effects");
                            }
                            "echo a > lim.txt; echo $?; cat < lim.txt; echo $?".to_string()
                        }
                    };
                    ("ulimit-emfile", format!("(ulimit -n {n}; {body}); echo $?"))
                }
                65 | 66 | 67 => {
                    // a named FIFO held open read/write by the shell keeps a background
                    // child blocked in `read`: signals for a live child (also one in a
                    // process group of its own, `set -m`), the parent woken up in `wait`,
                    // a younger child ending before an older one.  Only at the root.
                    if !self.cwd.is_empty() {
                        continue;
                    }
                    ("fifo-live-child", (*self.r.pick(&[
                        "trap 'echo T' TERM; exec 3<>fifo; { read y <&3; echo child-got $y; } & kill -s TERM $!; wait $!; echo $?; exec 3>&-",
                        "exec 3<>fifo; { read y <&3; echo child-got $y; exit 6; } & echo hello >&3; wait $!; echo $?; exec 3>&-",
                        "exec 3<>fifo; { read y <&3; exit 5; } & a=$!; { exit 7; } & b=$!; wait $b; echo $?; echo go >&3; wait $a; echo $?; exec 3>&-",
                        "exec 3<>fifo; { read y <&3; exit 5; } & { exit 7; } & echo go >&3; wait; echo $?; exec 3>&-",
                        "trap 'echo T' HUP; exec 3<>fifo; { read y <&3; echo no; } & a=$!; (exit 3) & wait $!; echo $?; kill -s HUP $a; wait $a; echo $?; exec 3>&-",
                        "set -m; trap 'echo T' TERM; exec 3<>fifo; { read y <&3; echo no; } & kill -s TERM $!; wait $!; echo $?; exec 3>&-; set +m",
                        "trap '' INT; exec 3<>fifo; { trap - INT; read y <&3; echo no; } & kill -s INT $!; wait $!; echo $?; exec 3>&-",
                        "set -m; trap 'echo H' HUP; exec 3<>fifo; { read y <&3; echo no; } & a=$!; kill -s HUP $a; wait $a; echo $?; exec 3>&-; set +m",
                        "set -m; exec 3<>fifo; { read y <&3; exit 4; } & a=$!; { exit 9; } & wait $!; echo $?; echo go >&3; wait $a; echo $?; exec 3>&-; set +m",
                        "set -m; trap 'echo T' TERM; exec 3<>fifo; { read y <&3; echo no; } & a=$!; (exit 2) & wait $!; echo $?; kill -s TERM $a; wait; echo $?; exec 3>&-; set +m",
                    ])).to_string())
                }
                64 => {
                    // symbolic links (in the initial tree): the simulator's open() does not
                    // follow them (open finding open-symlink-not-followed); only at the root
                    if !self.cwd.is_empty() {
                        continue;
                    }
                    self.tag("open-symlink-not-followed");
                    ("symlink", (*self.r.pick(&[
                        "cat < lnk_f; echo $?",
                        "echo via-link >> lnk_f; echo $?; cat < f",
                        "echo new > lnk_f; echo $?; cat < f",
                        "cat < lnk_d/h; echo $?",
                        "(cd lnk_d; pwd; pwd -P; cat < h); echo $?",
                        "echo lnk_d/*; echo lnk_*",
                        "cat < lnk_dangling; echo $?; echo x > lnk_dangling; echo $?; cat < nowhere",
                        "set -C; echo x > lnk_f; echo $?; set +C; cat < f",
                        "cat < lnk_loop1; echo $?",
                        "cat < d/lnk_up/f; echo $?; cat < e/lnk_k",
                        "exec 3< lnk_f; read l <&3; echo \"$l\"; exec 3<&-",
                        "while read l; do echo \"<$l>\"; done < lnk_d/h; echo $?",
                        "(cd -P lnk_d; pwd); cd d/lnk_up; pwd; pwd -P; cd -P .; pwd",
                    ])).to_string())
                }
                63 => ("kill-group", (*self.r.pick(&[
                    // the shell leads its process group on both sides; only signals
                    // whose numbers POSIX fixes
                    "trap '' TERM; (trap - TERM; kill -s TERM -- -$$; echo unreachable); echo $?",
                    "trap 'echo got' TERM; (kill -s TERM 0; echo sub-unreachable); echo sub=$?",
                    "trap '' HUP; kill -s HUP 0; echo alive; (kill -s HUP -- -$$; echo child-ignores-too); echo $?",
                    "trap 'echo I' INT; kill -s INT -- -$$; echo after",
                    "trap '' TERM; (trap - TERM; kill 0; echo unreachable) | cat; echo $?",
                    "trap '' INT; (trap - INT; kill -s INT 0; echo no) & wait $!; echo $?",
                    "trap '' HUP; (trap - HUP; (kill -s HUP 0; echo inner); echo outer $?); echo $?",
                ])).to_string()),
                60 => {
                    // a descriptor the script never opened, after a pathname expansion
                    if self.x.opendir_fd_leak || self.globs > 0 {
                        continue;
                    }
                    self.tag("opendir-fd-leak");
                    self.globs += 3;
                    ("fd-after-glob", format!("echo {}*; : <&3 && echo open || echo closed", self.up()))
                }
                58 => ("signal-default-self", (*self.r.pick(&[
                    // only signals whose numbers POSIX fixes (the simulator's other numbers differ)
                    "kill -s HUP $$; echo unreachable",
                    "kill $$; echo unreachable",
                    "kill -s INT $$; echo unreachable",
                    "kill -s KILL $$; echo unreachable",
                    "kill -s ALRM $$; echo unreachable",
                    "trap '' HUP; kill -s HUP $$; echo ignored; trap - HUP; kill -s HUP $$; echo unreachable",
                ])).to_string()),
                _ if k == 57 && !self.x.dot_after_file => {
                    self.tag("dot-after-file");
                    ("err-dot-after-file", format!("cat < {}/../g; echo $?", self.file()))
                }
                _ => continue,
            };
            self.kinds.push(kind);
            return s;
        }
    }
}

/// The parent traps a signal (so it is blocked in a freshly forked child until
/// the child has reset its traps and its mask), starts a background child that
/// would block on a FIFO, sends the signal at once and waits: the child dies
/// inside its own sigprocmask call (or, if it was faster, by the default action
/// while reading: the script shows the same either way) and its PARENT must be
/// woken up.  Variants: job control (the child in a process group of its own),
/// the waiting parent is the shell itself (a group leader), a subshell, a
/// subshell of a subshell or a member of a pipeline (not group leaders), the
/// signal sent once or twice, one or two traps, three ways of waiting.  On the
/// simulator a lost SIGCHLD is a deadlock: the run does not finish.
fn unblock_death_stmt(r: &mut Rng) -> String {
    // (not INT / QUIT: a background child of a shell without job control ignores them)
    let sig = *r.pick(&["TERM", "HUP", "ALRM", "TERM"]);
    let jobctl = r.chance(1, 3);
    let wait = *r.pick(&["wait $!; echo $?", "wait; echo $?", "wait $!; echo $?; wait $!; echo $?"]);
    let kills = if r.chance(1, 3) { format!("kill -s {sig} $!; kill -s {sig} $!") } else { format!("kill -s {sig} $!") };
    let traps = if r.chance(1, 3) { format!("trap 'echo T' {sig}; trap 'echo U' USR1") } else { format!("trap 'echo T' {sig}") };
    let body = *r.pick(&["read y <&3; echo no", "read y <&3", "read y <&3; exit 5"]);
    let core = format!("{traps}; exec 3<>fifo; {{ {body}; }} & {kills}; {wait}; exec 3>&-");
    // (job control only in the shell itself: what `set -m` does in a subshell without a
    // terminal is not what this check is about)
    if jobctl {
        return format!("set -m; {core}; set +m");
    }
    match r.below(5) {
        0 => format!("({core}); echo $?"),
        1 => format!("(({core}); echo in=$?); echo $?"),
        2 => format!("{{ {core}; }} | cat"),
        _ => core,
    }
}

fn gen_script_case(seed: u64, idx: usize, thorough: bool) -> ScriptCase {
    let mut r = Rng::new(seed ^ 0x5C21).fork(idx as u64);
    let n = if thorough { 2 + r.below(8) } else { 2 + r.below(5) };
    let mut g = SGen { r: &mut r, x: excl_for(seed, idx, 0x5C2), cwd: vec![], globs: 0, tags: vec![], kinds: vec![] };
    let mut lines = vec![];
    if g.r.chance(1, 4) {
        // start below the root so that `..` spellings are exercised
        let d = *g.r.pick(&["d", "e", "d/s"]);
        g.cwd = d.split('/').collect();
        g.kinds.push("cd");
        lines.push(format!("cd {d}"));
    }
    for _ in 0..n {
        lines.push(g.stmt());
    }
    lines.push(match g.r.below(4) {
        0 => "exit 3".to_string(),
        1 => "false".to_string(),
        _ => "echo end=$?".to_string(),
    });
    let script = lines.join("\n");
    ScriptCase { tree: tree_for(&script), script, tags: g.tags.clone(), kinds: g.kinds.clone() }
}

/// The initial tree of a script: the large file only if the script uses it
/// (it dominates the size of the Coq terms).
fn tree_for(script: &str) -> InitTree {
    let mut t = script_tree();
    if !script.contains("big") {
        t.retain(|(p, _)| p != &vec!["big".to_string()]);
    }
    if script.contains("fifo") {
        t.push((vec!["fifo".to_string()], Some(FIFO.to_vec())));
    }
    if script.contains("lnk_") {
        let link = |path: &[&str], target: &str| -> (Vec<String>, Option<Vec<u8>>) {
            let mut c = LINK.to_vec();
            c.extend_from_slice(target.as_bytes());
            (path.iter().map(|x| x.to_string()).collect(), Some(c))
        };
        t.push(link(&["lnk_f"], "f"));
        t.push(link(&["lnk_d"], "d"));
        t.push(link(&["lnk_dangling"], "nowhere"));
        t.push(link(&["lnk_loop1"], "lnk_loop2"));
        t.push(link(&["lnk_loop2"], "lnk_loop1"));
        t.push(link(&["d", "lnk_up"], ".."));
        t.push(link(&["e", "lnk_k"], "../e/k"));
    }
    t
}

// ---------------------------------------------------------------------------
// stream 3: scripts of real built-ins only, also run by the yash3 binary
// ---------------------------------------------------------------------------

fn builtin_tree() -> InitTree {
    let s = |l: &[&str]| -> Vec<String> { l.iter().map(|x| x.to_string()).collect() };
    vec![
        (s(&["bin"]), None),
        // found on $PATH, so that the substitutive built-ins pwd/true/false are used
        (s(&["bin", "pwd"]), Some(vec![])),
        (s(&["bin", "true"]), Some(vec![])),
        (s(&["bin", "false"]), Some(vec![])),
        (s(&["d"]), None),
        (s(&["d", "s"]), None),
        (s(&["f"]), Some(b"hello world\nsecond line\n".to_vec())),
        (s(&["g"]), Some(vec![])),
        (s(&["d", "h"]), Some(b"abc\n".to_vec())),
    ]
}

fn gen_builtin_script(seed: u64, idx: usize) -> ScriptCase {
    let mut r = Rng::new(seed ^ 0xB17).fork(idx as u64);
    let n = 3 + r.below(5);
    let mut lines = vec!["PATH=$PWD/bin".to_string()];
    let mut kinds = vec![];
    for _ in 0..n {
        let (k, s): (&'static str, &str) = *r.pick(&[
            ("b:pwd", "pwd"),
            ("b:cd", "cd d; pwd; cd s; pwd; cd ../..; pwd"),
            ("b:cd-error", "cd nope; x=$?; typeset -p x; cd f; x=$?; typeset -p x; pwd"),
            ("b:subshell-cd", "(cd d/s; pwd > where.txt); pwd; read -r w < d/s/where.txt; typeset -p w"),
            ("b:umask", "umask 027; umask; umask -S; pwd > n1; umask 022"),
            ("b:subshell-umask", "(umask 077; umask > n2); umask"),
            ("b:redir-out", "pwd > n3; umask >> n3; read -r a < n3; typeset -p a"),
            ("b:redir-clobber", "set -C; pwd > f; x=$?; typeset -p x; pwd >| g; set +C"),
            ("b:read-file", "while read -r l; do typeset -p l; done < f"),
            ("b:exec-fd", "exec 3< f; read -r a <&3; read -r b <&3; exec 3<&-; typeset -p a b; read -r c <&3; x=$?; typeset -p x"),
            ("b:exec-fd-out", "exec 4> n4; pwd >&4; umask >&4; exec 4>&-; while read -r l; do typeset -p l; done < n4"),
            ("b:shared-offset", "exec 5< f; (read -r a <&5; typeset -p a); read -r b <&5; typeset -p b; exec 5<&-"),
            ("b:err-missing", "read -r q < nope; x=$?; typeset -p x"),
            ("b:err-closed-fd", "pwd >&9; x=$?; typeset -p x"),
            ("b:err-file-as-dir", "pwd > f/x; x=$?; typeset -p x"),
            ("b:pipe", "pwd | { read -r v; typeset -p v; }"),
            ("b:pipe2", "umask | (read -r v; typeset -p v) | { read -r w; typeset -p w; }"),
            ("b:pipe-status", "true | false; x=$?; typeset -p x; ! false | true; x=$?; typeset -p x"),
            ("b:cmdsubst", "v=$(pwd); typeset -p v; w=$(umask; exit 3); x=$?; typeset -p w x"),
            ("b:subshell-status", "(exit 4); x=$?; typeset -p x"),
            ("b:trap-self", "trap 'pwd' USR1; kill -s USR1 $$; trap 'x=caught; typeset -p x' INT; kill -s INT $$"),
            ("b:trap-ignore", "trap '' TERM; kill $$; x=alive; typeset -p x"),
            ("b:trap-exit", "trap 'pwd > bye.txt' EXIT"),
            ("b:signal-from-child", "trap 'x=got; typeset -p x' USR2; (kill -s USR2 $$) & wait $!; x=done; typeset -p x"),
            ("b:wait", "(exit 3) & wait $!; x=$?; typeset -p x; true & false & wait; x=$?; typeset -p x"),
            ("b:wait-twice", "(exit 7) & p=$!; wait $p; x=$?; wait $p; y=$?; typeset -p x y"),
            ("b:heredoc", "read -r a b <<EOF\none two three\nEOF\ntypeset -p a b"),
            ("b:kill-l", "kill -l 15; kill -l TERM; kill -0 $$; x=$?; typeset -p x"),
            ("b:function", "fn() { pwd; return 5; }; fn > n5; x=$?; typeset -p x"),
            ("b:kill-group", "trap '' TERM; (trap - TERM; kill -s TERM -- -$$; x=no; typeset -p x); x=$?; typeset -p x"),
            ("b:kill-group0", "trap 'x=got; typeset -p x' HUP; (kill -s HUP 0; x=no; typeset -p x); x=$?; typeset -p x"),
            ("b:ulimit", "(ulimit -n 4; pwd | { read -r v; typeset -p v; }; x=$?; typeset -p x); x=$?; typeset -p x"),
            ("b:ulimit2", "(ulimit -n 5; exec 3< f 4< g; x=$?; typeset -p x; read -r a <&3; typeset -p a; ulimit -n)"),
            ("b:glob", "set -- *; x=\"$1,$2,$#\"; typeset -p x; set -- d/*; x=\"$#,$1\"; typeset -p x"),
        ]);
        kinds.push(k);
        lines.push(s.to_string());
    }
    lines.push((*r.pick(&["exit 3", "false", "x=$?; typeset -p x"])).to_string());
    ScriptCase { tree: builtin_tree(), script: lines.join("\n"), tags: vec![], kinds }
}

/// Builds the real shell binary from the repository under test; returns its
/// path.
fn build_yash3() -> String {
    let repo = std::env::var("YV_REPO").unwrap_or_else(|_| "/repo".to_string());
    let target = std::env::var("CARGO_TARGET_DIR").unwrap_or_else(|_| "/verif/.cache/target".to_string());
    let target = format!("{target}/yash3");
    let out = std::process::Command::new("cargo")
        .args(["build", "--offline", "--locked", "-p", "yash-cli", "--manifest-path"])
        .arg(format!("{repo}/Cargo.toml"))
        .env("CARGO_TARGET_DIR", &target)
        .env("CARGO_NET_OFFLINE", "true")
        .output()
        .expect("cargo");
    if !out.status.success() {
        eprintln!("building yash3 failed:\n{}", String::from_utf8_lossy(&out.stderr));
        std::process::exit(3);
    }
    format!("{target}/debug/yash3")
}

fn emit_script3(w: &mut CasesWriter, case: &ScriptCase, v: &ScriptObs, r: &ScriptObs, y: &ScriptObs) {
    let term = format!("(CScript3 {} {} {})", v.coq(), r.coq(), y.coq());
    let side = |o: &ScriptObs| {
        format!(
            "{{\"status\":{},\"stdout\":{},\"stderr\":{},\"files\":{}}}",
            o.status,
            json_str(&String::from_utf8_lossy(&o.stdout)),
            json_str(&o.stderr),
            json_str(&tree_show(&o.tree))
        )
    };
    let json = format!(
        "{{\"stream\":\"builtin-script\",\"script\":{},\"virtual\":{},\"real\":{},\"yash3\":{}}}",
        json_str(&case.script),
        side(v),
        side(r),
        side(y)
    );
    for k in &case.kinds {
        w.count(&format!("script3:{k}"));
    }
    let key = if !y.stdout.is_empty() { Some(format!("3:{}", case.script)) } else { None };
    w.push(&term, &json, &case.tags, key);
}

/// Permission scripts: run by an unprivileged real shell that owns the tree.
fn gen_perm_script(seed: u64, idx: usize) -> ScriptCase {
    let s = |l: &[&str]| -> Vec<String> { l.iter().map(|x| x.to_string()).collect() };
    let tree: InitTree = vec![
        (s(&["d"]), None),
        (s(&["f"]), Some(b"hello world\n".to_vec())),
        (s(&["ro_555"]), None),
        (s(&["ro_555", "in"]), Some(b"inside\n".to_vec())),
        (s(&["nolist_311"]), None),
        (s(&["nolist_311", "f"]), Some(b"listed?\n".to_vec())),
        (s(&["nosearch_600"]), None),
        (s(&["nosearch_600", "f"]), Some(b"unreachable\n".to_vec())),
        (s(&["secret_000"]), Some(b"secret\n".to_vec())),
        (s(&["rdonly_444"]), Some(b"read me\n".to_vec())),
        (s(&["wronly_200"]), Some(b"write me\n".to_vec())),
    ];
    let mut r = Rng::new(seed ^ 0x9E52).fork(idx as u64);
    // (statement, is it in the class of the open finding no-permission-checks?)
    let menu: [(&str, bool); 16] = [
        ("cat < secret_000; echo $?", true),
        ("echo x >> rdonly_444; echo $?", true),
        ("cat < wronly_200; echo $?", true),
        ("echo x > wronly_200; echo $?", false),
        ("cat < rdonly_444; echo $?", false),
        ("echo nolist_311/*", true),
        ("cat < nolist_311/f; echo $?", false),
        ("cat < nosearch_600/f; echo $?", false),
        ("cd nosearch_600; echo $?; pwd", true),
        ("(cd nolist_311 && pwd && cat < f)", false),
        ("echo new > ro_555/n; echo $?", true),
        ("echo x >> ro_555/in; echo $?; cat < ro_555/in", false),
        ("(umask 777; echo x > mk0; cat < mk0; echo $?)", true),
        ("(umask 377; echo x > mk4; echo y >> mk4; echo $?); cat < mk4", true),
        ("(cd ro_555; echo *; cat < in; echo y > made; echo $?)", true),
        ("exec 3<> rdonly_444; echo $?", true),
    ];
    let n = if idx == 0 { 1 } else { 2 + r.below(5) };
    let mut lines = vec![];
    let mut tagged = false;
    for k in 0..n {
        let (st, f44) = if idx == 0 { menu[0] } else { menu[r.below(menu.len())] };
        let _ = k;
        lines.push(st.to_string());
        tagged |= f44;
    }
    lines.push("echo end=$?".to_string());
    ScriptCase {
        tree,
        script: lines.join("\n"),
        tags: if tagged { vec!["no-permission-checks"] } else { vec![] },
        kinds: vec!["perm-script"],
    }
}

fn corpus_scripts() -> Vec<ScriptCase> {
    let mk = |s: &str| ScriptCase { tree: tree_for(s), script: s.to_string(), tags: vec![], kinds: vec!["corpus"] };
    let mk_tagged = |tag: &'static str, s: &str| ScriptCase {
        tree: tree_for(s),
        script: s.to_string(),
        tags: vec![tag],
        kinds: vec!["corpus"],
    };
    vec![
        // a background child in a process group of its own that dies the moment it
        // unblocks the pending SIGTERM: its parent must be told (SIGCHLD) and wake up in wait
        mk("set -m; trap 'echo T' TERM; exec 3<>fifo; { read y <&3; echo no; } & kill -s TERM $!; wait $!; echo $?; exec 3>&-; set +m"),
        // two children alive together, the younger one ends first
        mk("exec 3<>fifo; { read y <&3; exit 5; } & a=$!; { exit 7; } & b=$!; wait $b; echo $?; echo go >&3; wait $a; echo $?; exec 3>&-"),
        // known deviation of the simulator (F41): open() does not follow symbolic links
        mk_tagged("open-symlink-not-followed", "cat < lnk_f; echo $?"),
        // ... nor in an intermediate component,
        mk_tagged("open-symlink-not-followed", "cat < lnk_d/h; echo $?"),
        // ... nor when a directory is listed through a link,
        mk_tagged("open-symlink-not-followed", "echo lnk_d/*"),
        // ... getcwd after chdir through a link gives the link's spelling,
        mk_tagged("open-symlink-not-followed", "(cd lnk_d; pwd -P)"),
        // ... and a loop of links is not ELOOP
        mk_tagged("open-symlink-not-followed", "cat < lnk_loop1; echo $?"),
        // known deviation of the simulator (F28): the killed shell runs on
        mk_tagged("killed-process-keeps-running", "(kill -s TERM $$); echo x > n1"),
        // known deviation of the simulator (F48): two asynchronous writers on one pipe,
        // each with more than the pipe holds: the first to finish clears O_NONBLOCK
        // on the shared open file description (TemporaryNonBlockingGuard), the other
        // then blocks inside the simulated write and run_virtual never polls it again
        mk_tagged(
            "concurrent-pipe-writers-deadlock",
            "x=abcdefgh; x=$x$x$x$x; x=$x$x$x$x; x=$x$x$x$x; x=$x$x$x$x; { echo $x & echo $x & wait; } | cat | { while read -r l; do :; done; }; echo $?",
        ),
        mk_tagged(
            "concurrent-pipe-writers-deadlock",
            "x=abcdefgh; x=$x$x$x$x; x=$x$x$x$x; x=$x$x$x$x; x=$x$x$x$x; { echo $x$x & echo $x & echo $x$x$x & wait; } | cat | { while read -r l; do :; done; }; echo $?",
        ),
        // F6: the simulated fork did not copy umask / cwd
        mk("umask 077; (umask); cd d; (pwd); (echo x > made); umask"),
        // F8: wait for any child while an older child is still alive
        mk("(cat < big | cat > o1) & true & wait; echo $?; cat < o1 | { read l; echo \"$l\"; }"),
        mk("echo a > n1; echo b >> n1; cat < n1; exec 3< n1; read x <&3; echo $x; exec 3<&-; cat <&3; echo $?"),
        mk("trap 'echo T' USR1; kill -s USR1 $$; echo after; trap 'echo bye' EXIT; (exit 9); echo $?"),
        mk("v=$(cat < big); echo ${#v}; cat < big | cat | { read l; echo $l; cat > /dev/null; }; echo $?"),
        // death inside the child's own unblock call: the parent traps TERM (blocked in the fresh
        // child); a lost SIGCHLD leaves the simulated parent in wait for ever (verdict 23)
        mk("trap 'echo T' TERM; exec 3<>fifo; { read y <&3; } & kill -s TERM $!; wait $!; echo $?; exec 3>&-"),
        // ... the waiting parent is a subshell: not a process group leader
        mk("(trap 'echo T' TERM; exec 3<>fifo; { read y <&3; echo no; } & kill -s TERM $!; wait $!; echo $?); echo $?"),
        // ... a member of a pipeline, the signal sent twice, wait without operands
        mk("{ trap 'echo H' HUP; exec 3<>fifo; { read y <&3; } & kill -s HUP $!; kill -s HUP $!; wait; echo $?; } | cat"),
        // ... a subshell of a subshell
        mk("((trap 'echo A' ALRM; exec 3<>fifo; { read y <&3; exit 5; } & kill -s ALRM $!; wait $!; echo $?); echo in=$?); echo $?"),
    ]
}

fn script_case(seed: u64, idx: usize, thorough: bool) -> ScriptCase {
    let c = corpus_scripts();
    if idx < c.len() { c[idx].clone() } else { gen_script_case(seed, idx, thorough) }
}

fn same_obs(a: &ScriptObs, b: &ScriptObs) -> bool {
    a.stdout == b.stdout && a.status == b.status && a.tree == b.tree
}

/// The check must not depend on real-OS timing.  A real-side observation that
/// differs from the simulated one is repeated three more times: only a
/// difference that shows in every run is reported.  If some run agrees with the
/// simulator the agreeing observation is used and the case is counted as
/// `real-side-unstable` (a flaky observation in the evidence, not a violation).
#[allow(clippy::too_many_arguments)]
fn settle_real(
    w: &mut CasesWriter,
    what: &str,
    idx: usize,
    case: &ScriptCase,
    v: &ScriptObs,
    first: &ScriptObs,
    dir: &str,
    shell: Option<&str>,
) -> ScriptObs {
    if same_obs(v, first) {
        return first.clone();
    }
    let mut runs = vec![first.clone()];
    for _ in 0..3 {
        runs.push(run_script_real_with(&case.script, &case.tree, dir, shell));
    }
    if let Some(agree) = runs.iter().find(|o| same_obs(v, o)) {
        w.count("real-side-unstable");
        w.count(&format!("real-side-unstable:{what}#{idx}"));
        eprintln!(
            "c19: flaky real-side observation ({what} #{idx}): {} of 4 runs differ from the simulator; script: {:?}",
            runs.iter().filter(|o| !same_obs(v, o)).count(),
            case.script
        );
        return agree.clone();
    }
    if !runs.iter().all(|o| same_obs(&runs[0], o)) {
        // differs from the simulator every time, but not always in the same way
        w.count("real-side-varies-and-always-differs");
    }
    first.clone()
}

fn emit_script(w: &mut CasesWriter, case: &ScriptCase, v: &ScriptObs, r: &ScriptObs) {
    let term = format!("(CScript {} {})", v.coq(), r.coq());
    let json = format!(
        "{{\"stream\":\"script\",\"script\":{},\"virtual\":{{\"status\":{},\"stdout\":{},\"stderr\":{},\"files\":{}}},\"real\":{{\"status\":{},\"stdout\":{},\"stderr\":{},\"files\":{}}}}}",
        json_str(&case.script),
        v.status,
        json_str(&String::from_utf8_lossy(&v.stdout)),
        json_str(&v.stderr),
        json_str(&tree_show(&v.tree)),
        r.status,
        json_str(&String::from_utf8_lossy(&r.stdout)),
        json_str(&r.stderr),
        json_str(&tree_show(&r.tree)),
    );
    for k in &case.kinds {
        w.count(&format!("script:{k}"));
    }
    // non-trivial: the script printed something and left a file changed/created
    let key = if !v.stdout.is_empty() && case.kinds.len() >= 2 { Some(case.script.clone()) } else { None };
    w.push(&term, &json, &case.tags, key);
}

// ---------------------------------------------------------------------------
// corpus of stream 1
// ---------------------------------------------------------------------------

fn corpus_sys() -> Vec<SysCase> {
    let tree = {
        let mut r0 = Rng::new(0);
        let mut t = default_tree(&mut r0);
        t.truncate(7);
        t[3].1 = Some(b"hello\n".to_vec());
        t
    };
    let fl = Flags::default();
    let mk = |ops: Vec<Op>| SysCase { tree: tree.clone(), umask: 0o022, ops, tags: vec![] };
    let mk_tagged = |tag: &'static str, ops: Vec<Op>| SysCase { tree: tree.clone(), umask: 0o022, ops, tags: vec![tag] };
    vec![
        // dup shares the offset; dup2 clears cloexec
        mk(vec![
            Op::Open("f".into(), Acc::Rd, Flags { cloexec: true, ..fl }, 0),
            Op::Dup(3, 10, true),
            Op::Read(3, 2),
            Op::Read(10, 2),
            Op::Lseek(3, Whence::Cur, 0),
            Op::Dup2(10, 4),
            Op::Getfd(10),
            Op::Getfd(4),
            Op::Close(3),
            Op::Read(4, 10),
        ]),
        // O_APPEND writes at the end whatever the offset; O_TRUNC; O_EXCL
        mk(vec![
            Op::Open("e/k".into(), Acc::RdWr, Flags { append: true, ..fl }, 0),
            Op::Lseek(3, Whence::Set, 2),
            Op::Write(3, b"XY".to_vec()),
            Op::Lseek(3, Whence::Cur, 0),
            Op::Open("e/k".into(), Acc::Wr, Flags { creat: true, excl: true, ..fl }, 0o666),
            Op::Open("e/k".into(), Acc::Wr, Flags { creat: true, trunc: true, ..fl }, 0o666),
            Op::Fstat(3),
            Op::Read(3, 4),
        ]),
        // umask masks creation bits; write beyond the end fills with zeros
        mk(vec![
            Op::Umask(0o027),
            Op::Open("d/n1".into(), Acc::RdWr, Flags { creat: true, ..fl }, 0o666),
            Op::Fstat(3),
            Op::Lseek(3, Whence::Set, 3),
            Op::Write(3, b"z".to_vec()),
            Op::Lseek(3, Whence::Set, 0),
            Op::Read(3, 10),
            Op::Stat("d/n1".into()),
            Op::Readdir("d".into()),
        ]),
        // the child inherits descriptors, cwd, umask; shares offsets; its own
        // changes to the table / cwd / umask stay in the child
        mk(vec![
            Op::Open("f".into(), Acc::Rd, fl, 0),
            Op::Chdir("d".into()),
            Op::Umask(0o077),
            Op::Fork,
            Op::Getcwd,
            Op::Umask(0),
            Op::Read(3, 3),
            Op::Close(3),
            Op::Chdir("s".into()),
            Op::Open("n2".into(), Acc::Wr, Flags { creat: true, ..fl }, 0o666),
            Op::Exit,
            Op::Getcwd,
            Op::Umask(0o022),
            Op::Read(3, 10),
            Op::Stat("s/n2".into()),
        ]),
        // pipe: data, EOF after the last writer is closed, EPIPE without reader
        mk(vec![
            Op::Pipe,
            Op::Write(4, b"abc".to_vec()),
            Op::Fork,
            Op::Close(4),
            Op::Read(3, 2),
            Op::Exit,
            Op::Close(4),
            Op::Read(3, 5),
            Op::Read(3, 5),
            Op::Pipe,
            Op::Close(4),
            Op::Write(5, b"q".to_vec()),
            Op::Lseek(5, Whence::Cur, 0),
            Op::Fstat(5),
        ]),
        // signals: caught at once, pending while blocked, inherited by the child
        mk(vec![
            Op::Sigaction(0, Disp::Catch),
            Op::Raise(0),
            Op::Caught,
            Op::Sigmask(0, vec![0, 2]),
            Op::Raise(0),
            Op::Raise(0),
            Op::Caught,
            Op::Sigaction(1, Disp::Ignore),
            Op::Raise(1),
            Op::Fork,
            Op::GetSigaction(0),
            Op::GetSigaction(1),
            Op::Sigmask(1, vec![0]),
            Op::Caught,
            Op::Exit,
            Op::Sigmask(2, vec![]),
            Op::Caught,
            Op::Sigaction(0, Disp::Default),
        ]),
        // RLIMIT_NOFILE: a pipe that gets only one descriptor keeps none; the
        // next open gets the freed number; dup/dup2 at the limit; the child
        // inherits the limit; an open that fails with EMFILE creates nothing
        mk(vec![
            Op::Setrlimit(4),
            Op::Pipe,
            Op::Open("f".into(), Acc::Rd, fl, 0),
            Op::Pipe,
            Op::Open("g".into(), Acc::Wr, fl, 0),
            Op::Stat("n1".into()),
            Op::Dup(3, 0, false),
            Op::Dup2(3, 4),
            Op::Dup2(3, 2),
            Op::Fork,
            Op::Close(2),
            Op::Pipe,
            Op::Dup(0, 0, false),
            Op::Setrlimit(6),
            Op::Pipe,
            Op::Exit,
            Op::Close(3),
            Op::Setrlimit(5),
            Op::Pipe,
            Op::Fstat(4),
        ]),
        // signals for the caller's own process group: the parent ignores or
        // catches them, the child (default action) dies; kill(-getpid()) by a
        // process that leads no group; a child in a group of its own; a stopped
        // child is continued
        mk(vec![
            Op::Sigaction(2, Disp::Ignore),
            Op::Sigaction(4, Disp::Catch),
            Op::Sigaction(5, Disp::Ignore),
            Op::Kill(Target::Group0, 2),
            Op::Kill(Target::NegPid, 4),
            Op::Caught,
            Op::Fork,
            Op::Kill(Target::NegPid, 2),
            Op::Sigaction(2, Disp::Default),
            Op::Kill(Target::NegPgid, 2),
            Op::Getcwd,
            Op::Exit,
            Op::Fork,
            Op::Sigaction(4, Disp::Default),
            Op::Kill(Target::Group0, 4),
            Op::Exit,
            Op::Caught,
            Op::Fork,
            Op::Setpgid0,
            Op::Fork,
            Op::Kill(Target::Parent, 4),
            Op::Kill(Target::NegPgid, 2),
            Op::Exit,
            Op::Caught,
            Op::Kill(Target::NegPid, 4),
            Op::Caught,
            Op::Exit,
            Op::Fork,
            Op::Sigaction(5, Disp::Default),
            Op::Kill(Target::Own, 5),
            Op::Kill(Target::Group0, 5),
            Op::Getcwd,
            Op::Exit,
            Op::GetSigaction(2),
        ]),
        // SIGCHLD goes to the parent, also when the child is in a process group of
        // its own and dies inside its own sigmask call (a pending fatal signal
        // delivered at the moment it is unblocked)
        mk(vec![
            Op::Sigaction(CHLD, Disp::Catch),
            Op::Sigaction(2, Disp::Catch),
            Op::Sigmask(0, vec![2]),
            Op::Fork,
            Op::Kill(Target::Own, 2),
            Op::Sigaction(2, Disp::Default),
            Op::Setpgid0,
            Op::Sigmask(1, vec![2]),
            Op::Getcwd,
            Op::Exit,
            Op::Caught,
            Op::Fork,
            Op::Setpgid0,
            Op::Exit,
            Op::Caught,
            Op::Sigmask(0, vec![CHLD]),
            Op::Fork,
            Op::Exit,
            Op::Caught,
            Op::Sigmask(1, vec![CHLD]),
            Op::Caught,
        ]),
        // ---- new findings (generated once they are registered) ----
        mk_tagged(
            "emfile-open-side-effects",
            vec![
                Op::Setrlimit(3),
                Op::Open("n1".into(), Acc::Wr, Flags { creat: true, ..fl }, 0o666),
                Op::Open("f".into(), Acc::Wr, Flags { trunc: true, ..fl }, 0),
                Op::Stat("n1".into()),
                Op::Stat("f".into()),
            ],
        ),
        mk_tagged("dup-min-above-limit", vec![Op::Setrlimit(5), Op::Dup(0, 5, false), Op::Dup(0, 10, true)]),
        // ---- one minimal case per known deviation of the simulator (F22-F30) ----
        mk_tagged("opendir-fd-leak", vec![Op::Readdir("d".into()), Op::Open("f".into(), Acc::Rd, fl, 0)]),
        mk_tagged("creat-dotdot", vec![Op::Open("d/../n1".into(), Acc::Wr, Flags { creat: true, ..fl }, 0o666)]),
        mk_tagged("creat-missing-parent", vec![Op::Open("zz/x".into(), Acc::Wr, Flags { creat: true, ..fl }, 0o666)]),
        mk_tagged("getcwd-unnormalized", vec![Op::Chdir("d/.".into()), Op::Getcwd]),
        mk_tagged("dot-after-file", vec![Op::Stat("f/.".into())]),
        mk_tagged("open-dir-for-writing", vec![Op::Open("d".into(), Acc::Wr, fl, 0)]),
        mk_tagged(
            "dup2-same-fd",
            vec![Op::Open("f".into(), Acc::Rd, Flags { cloexec: true, ..fl }, 0), Op::Dup2(3, 3), Op::Getfd(3)],
        ),
        // a pending signal is discarded when its action is set to "ignore"
        mk_tagged("ignore-keeps-pending", vec![
            Op::Sigaction(3, Disp::Catch),
            Op::Sigmask(0, vec![3]),
            Op::Raise(3),
            Op::Sigaction(3, Disp::Ignore),
            Op::Sigaction(3, Disp::Catch),
            Op::Sigmask(1, vec![3]),
            Op::Caught,
        ]),
        // errors: missing file, file as directory, closed descriptor, directory
        mk(vec![
            Op::Open("zz".into(), Acc::Rd, fl, 0),
            Op::Open("f/x".into(), Acc::Rd, fl, 0),
            Op::Read(9, 1),
            Op::Write(9, b"a".to_vec()),
            Op::Open("d".into(), Acc::Rd, fl, 0),
            Op::Read(3, 1),
            Op::Fstat(3),
            Op::Chdir("f".into()),
            Op::Chdir("zz".into()),
            Op::Open("f".into(), Acc::Rd, Flags { dir: true, ..fl }, 0),
            Op::Open("f".into(), Acc::Rd, fl, 0),
            Op::Write(4, b"a".to_vec()),
            Op::Lseek(4, Whence::Cur, -3),
            Op::Dup(9, 0, false),
            Op::Dup2(9, 3),
        ]),
    ]
}

// ---------------------------------------------------------------------------
// running the real side in worker processes
// ---------------------------------------------------------------------------

fn has_dots(p: &str) -> bool {
    p.split('/').any(|c| c == "." || c == "..") || p.contains("//") || p.ends_with('/')
}

/// Number of generated (privileged) sequences, and of permission sequences.
fn n_sys_gen(thorough: bool) -> usize {
    if thorough { 12000 } else { 600 }
}
fn n_sys_perm(thorough: bool) -> usize {
    if thorough { 1500 } else { 125 }
}
/// First index of the permission sub-stream (run by unprivileged workers).
fn perm_base(thorough: bool) -> usize {
    corpus_sys().len() + n_sys_gen(thorough)
}

/// The wait stream (several children alive together) comes after the
/// permission sub-stream in the index space of the real-side workers.
fn n_wait(thorough: bool) -> usize {
    corpus_wait().len() + if thorough { 3000 } else { 150 }
}
fn wait_base(thorough: bool) -> usize {
    perm_base(thorough) + n_sys_perm(thorough)
}
fn empty_sys_case() -> SysCase {
    SysCase { tree: vec![], umask: 0o022, ops: vec![], tags: vec![] }
}

fn sys_case(seed: u64, idx: usize, thorough: bool) -> SysCase {
    if idx >= wait_base(thorough) {
        return empty_sys_case();
    }
    let c = corpus_sys();
    if idx >= perm_base(thorough) {
        return gen_perm_case(seed, idx - perm_base(thorough));
    }
    if idx < c.len() {
        let mut case = c[idx].clone();
        if case.tags.iter().any(|tag| unregistered(tag)) {
            // (a finding that is not registered yet: see `unregistered`)
            case.ops.clear();
            case.tags.clear();
        }
        case
    } else {
        gen_sys_case(seed, idx, thorough)
    }
}

const NOBODY: u32 = 65534;

/// The process becomes an ordinary user for good (no supplementary groups).
fn drop_privileges() {
    unsafe {
        if libc::geteuid() != 0 {
            return;
        }
        let ok = libc::setgroups(0, std::ptr::null()) == 0
            && libc::setresgid(NOBODY, NOBODY, NOBODY) == 0
            && libc::setresuid(NOBODY, NOBODY, NOBODY) == 0;
        if !ok || libc::geteuid() == 0 || libc::setuid(0) == 0 {
            harness_error("cannot drop privileges on the real side");
        }
    }
}

/// Makes everything below `path` removable / readable by its owner again.
fn unlock_tree(path: &std::path::Path) {
    if let Ok(md) = std::fs::symlink_metadata(path) {
        if md.is_dir() {
            let _ = std::fs::set_permissions(path, std::fs::Permissions::from_mode(0o700));
            if let Ok(rd) = std::fs::read_dir(path) {
                for e in rd.flatten() {
                    unlock_tree(&e.path());
                }
            }
        }
    }
}

/// `c19 --real-sys-worker SEED TIER FROM TO RUNDIR [unpriv]`
fn real_sys_worker(a: &[String]) -> ! {
    let seed: u64 = a[0].parse().unwrap();
    let thorough = a[1] != "quick";
    let from: usize = a[2].parse().unwrap();
    let to: usize = a[3].parse().unwrap();
    let run = &a[4];
    if a.get(5).map(|s| s.as_str()) == Some("unpriv") {
        drop_privileges();
    }
    let sys = unsafe { RealSystem::new() };
    // the result channel: our standard output, moved out of the way
    let sink = sys.dup(Fd(1), Fd(SINK_FD), FdFlag::CloseOnExec.into()).unwrap();
    assert_eq!(sink.0, SINK_FD);
    for idx in from..to {
        let case = sys_case(seed, idx, thorough);
        sink_line(&format!("C {idx}"));
        if idx >= wait_base(thorough) {
            let wops = gen_wait_case(seed, idx - wait_base(thorough), thorough);
            run_sys_real(&case, Some(&wops), &format!("{run}/c{idx}"));
        } else {
            run_sys_real(&case, None, &format!("{run}/c{idx}"));
        }
    }
    sink_line("E");
    std::process::exit(0);
}

fn parse_worker_output(text: &str, align_of: &dyn Fn(usize, &[Res]) -> Vec<Res>) -> BTreeMap<usize, SysObs> {
    let mut out: BTreeMap<usize, SysObs> = BTreeMap::new();
    let mut cur: Option<usize> = None;
    for line in text.lines() {
        let (k, rest) = line.split_at(1.min(line.len()));
        let rest = rest.strip_prefix(' ').unwrap_or(rest);
        match k {
            "C" => {
                let idx: usize = rest.parse().unwrap();
                out.insert(idx, SysObs::default());
                cur = Some(idx);
            }
            "R" => {
                if let Some(o) = cur.and_then(|i| out.get_mut(&i)) {
                    o.res.push(Res::dec(rest));
                }
            }
            "T" => {
                if let Some(o) = cur.and_then(|i| out.get_mut(&i)) {
                    o.tree = tree_dec(rest);
                }
            }
            "S" => {
                if let Some(o) = cur.and_then(|i| out.get_mut(&i)) {
                    o.std = rest.split(',').map(unhex).collect();
                }
            }
            _ => {}
        }
    }
    for (idx, o) in out.iter_mut() {
        o.res = align_of(*idx, &o.res);
    }
    out
}

/// Real-side observations of the cases `0..n`, computed by a pool of worker
/// processes.
fn real_sys_all(args: &Args, n: usize, run: &str) -> BTreeMap<usize, SysObs> {
    let exe = std::env::current_exe().unwrap();
    let chunk = 25;
    // the permission sub-stream has workers of its own (they drop their privileges)
    let pb = perm_base(args.thorough()).min(n);
    let wb = wait_base(args.thorough()).min(n);
    let mut chunks: Vec<(usize, usize)> = (0..pb).step_by(chunk).map(|a| (a, (a + chunk).min(pb))).collect();
    chunks.extend((pb..wb).step_by(chunk).map(|a| (a, (a + chunk).min(wb))));
    chunks.extend((wb..n).step_by(chunk).map(|a| (a, (a + chunk).min(n))));
    let par = std::thread::available_parallelism().map(|x| x.get()).unwrap_or(4).min(16);
    let next = std::sync::Arc::new(std::sync::Mutex::new(0usize));
    let results = std::sync::Arc::new(std::sync::Mutex::new(String::new()));
    let mut threads = vec![];
    for _ in 0..par {
        let next = next.clone();
        let results = results.clone();
        let chunks = chunks.clone();
        let exe = exe.clone();
        let seed = args.seed;
        let tier = args.tier.clone();
        let run = run.to_string();
        threads.push(std::thread::spawn(move || {
            loop {
                let k = {
                    let mut g = next.lock().unwrap();
                    let k = *g;
                    *g += 1;
                    k
                };
                if k >= chunks.len() {
                    break;
                }
                let (a, b) = chunks[k];
                let mut cmd = std::process::Command::new(&exe);
                cmd.arg("--real-sys-worker")
                    .arg(seed.to_string())
                    .arg(&tier)
                    .arg(a.to_string())
                    .arg(b.to_string())
                    .arg(&run)
                    .env_clear();
                if a >= pb && a < wb {
                    cmd.arg("unpriv");
                }
                // the worker regenerates the sequences: same generator configuration
                for k in ["YV_C19_SCRATCH", "YV_C19_PROPS"] {
                    if let Ok(v) = std::env::var(k) {
                        cmd.env(k, v);
                    }
                }
                // complete = every case of the chunk reported its tree and files
                let complete = |text: &str| {
                    text.lines().any(|l| l == "E")
                        && text.lines().filter(|l| l.starts_with("S ")).count() == b - a
                        && !text.lines().any(|l| l == "R hang")
                };
                let mut text = String::new();
                for (attempt, limit) in [(1, 300u64), (2, 1200u64)] {
                    let mut c2 = std::process::Command::new(cmd.get_program());
                    c2.args(cmd.get_args()).env_clear();
                    for (k, v) in cmd.get_envs() {
                        if let Some(v) = v {
                            c2.env(k, v);
                        }
                    }
                    let c = capture(c2, Duration::from_secs(limit));
                    text = String::from_utf8_lossy(&c.stdout).into_owned();
                    if complete(&text) {
                        break;
                    }
                    if attempt == 2 {
                        harness_error(&format!(
                            "the real-system worker for cases {a}..{b} did not deliver complete results \
                             (exit {:?}); its standard error: {}",
                            c.status,
                            String::from_utf8_lossy(&c.stderr)
                        ));
                    }
                }
                results.lock().unwrap().push_str(&text);
            }
        }));
    }
    for t in threads {
        let _ = t.join();
    }
    let text = results.lock().unwrap().clone();
    let thorough = args.thorough();
    let seed = args.seed;
    parse_worker_output(&text, &|idx, raw| {
        if idx >= wait_base(thorough) {
            align_wait(gen_wait_case(seed, idx - wait_base(thorough), thorough).len(), raw)
        } else {
            align(&sys_case(seed, idx, thorough).ops, raw)
        }
    })
}

/// Real-side observations of all scripts (a pool of threads, each running one
/// shell process at a time).
fn real_scripts_all(cases: &[ScriptCase], run: &str, shell: Option<String>) -> Vec<ScriptObs> {
    let n = cases.len();
    let par = std::thread::available_parallelism().map(|x| x.get()).unwrap_or(4).min(16);
    let next = std::sync::Arc::new(std::sync::Mutex::new(0usize));
    let results = std::sync::Arc::new(std::sync::Mutex::new(vec![ScriptObs::default(); n]));
    let input: std::sync::Arc<Vec<(String, InitTree)>> =
        std::sync::Arc::new(cases.iter().map(|c| (c.script.clone(), c.tree.clone())).collect());
    let mut threads = vec![];
    for _ in 0..par {
        let (next, results, input, run) = (next.clone(), results.clone(), input.clone(), run.to_string());
        let shell = shell.clone();
        threads.push(std::thread::spawn(move || {
            loop {
                let k = {
                    let mut g = next.lock().unwrap();
                    let k = *g;
                    *g += 1;
                    k
                };
                if k >= input.len() {
                    break;
                }
                let o = run_script_real_with(&input[k].0, &input[k].1, &format!("{run}/s{k}"), shell.as_deref());
                results.lock().unwrap()[k] = o;
            }
        }));
    }
    for t in threads {
        let _ = t.join();
    }
    let v = results.lock().unwrap().clone();
    v
}

fn emit_sys(w: &mut CasesWriter, case: &SysCase, v: &SysObs, r: &SysObs) {
    let tree: Vec<String> = case
        .tree
        .iter()
        .map(|(p, c)| format!("({}, {})", coq_names(p), coq::opt(c.as_ref().map(|b| coq::bytes(b)))))
        .collect();
    let ops: Vec<String> = case.ops.iter().map(|o| o.coq()).collect();
    let term = format!(
        "(CSys {} {} {} {} {})",
        if tree.is_empty() { "(@nil init_entry)".to_string() } else { coq::list(&tree) },
        coq::n(case.umask as u64),
        if ops.is_empty() { "(@nil op)".to_string() } else { coq::list(&ops) },
        v.coq(),
        r.coq()
    );
    let mut steps = vec![];
    for (i, op) in case.ops.iter().enumerate() {
        let a = v.res.get(i).map(|x| x.show()).unwrap_or_default();
        let b = r.res.get(i).map(|x| x.show()).unwrap_or_default();
        if a == b {
            steps.push(format!("{} -> {}", op.show(), a));
        } else {
            steps.push(format!("{} -> VIRTUAL {} / REAL {}", op.show(), a, b));
        }
        w.count(&format!("op:{}", op.class()));
    }
    let json = format!(
        "{{\"stream\":\"syscalls\",\"umask\":\"{:o}\",\"init\":{},\"steps\":[{}],\"virtual_tree\":{},\"real_tree\":{}}}",
        case.umask,
        json_str(&case.tree.iter().map(|(p, c)| match c {
            None => format!("{}/", p.join("/")),
            Some(b) => format!("{}={:?}", p.join("/"), String::from_utf8_lossy(b)),
        }).collect::<Vec<_>>().join(" ")),
        steps.iter().map(|s| json_str(s)).collect::<Vec<_>>().join(","),
        json_str(&tree_show(&v.tree)),
        json_str(&tree_show(&r.tree)),
    );
    let forks = case.ops.iter().filter(|o| **o == Op::Fork).count();
    w.count(&format!("forks:{}", forks.min(3)));
    w.count(&format!("len:{}", (case.ops.len() / 10) * 10));
    let errs = v.res.iter().filter(|x| matches!(x, Res::Err(_))).count();
    // non-trivial: at least 5 calls succeeded and at least one failed
    let key = if v.res.len() - errs >= 5 && errs >= 1 {
        Some(case.ops.iter().map(|o| o.show()).collect::<Vec<_>>().join(";"))
    } else {
        None
    };
    let tags: Vec<&str> = case.tags.clone();
    w.push(&term, &json, &tags, key);
}

fn emit_wait(w: &mut CasesWriter, wops: &[WOp], v: &[Res], r: &[Res]) {
    let ops: Vec<String> = wops.iter().map(|o| o.coq()).collect();
    let vs: Vec<String> = v.iter().map(|x| x.wcoq()).collect();
    let rs: Vec<String> = r.iter().map(|x| x.wcoq()).collect();
    let l = |v: &[String], ty: &str| if v.is_empty() { format!("(@nil {ty})") } else { coq::list(v) };
    let term = format!("(CWait {} {} {})", l(&ops, "wop"), l(&vs, "wres"), l(&rs, "wres"));
    let mut steps = vec![];
    for (i, op) in wops.iter().enumerate() {
        let a = v.get(i).map(|x| x.show()).unwrap_or_default();
        let b = r.get(i).map(|x| x.show()).unwrap_or_default();
        if a == b {
            steps.push(format!("{} -> {}", op.show(), a));
        } else {
            steps.push(format!("{} -> VIRTUAL {} / REAL {}", op.show(), a, b));
        }
        w.count(&format!("wait-op:{}", op.class()));
    }
    let json = format!(
        "{{\"stream\":\"wait\",\"steps\":[{}]}}",
        steps.iter().map(|s| json_str(s)).collect::<Vec<_>>().join(",")
    );
    let forks = wops.iter().filter(|o| **o == WOp::Fork).count();
    w.count(&format!("wait-children:{forks}"));
    let got = v.iter().filter(|x| matches!(x, Res::WGot(..))).count();
    let died_in_mask = wops.iter().zip(v.iter()).filter(|(o, x)| matches!(o, WOp::Cmd(_, CCmd::Mask(..))) && **x == Res::Skip).count();
    if died_in_mask > 0 {
        w.count("wait:death-inside-sigmask");
    }
    // non-trivial: two children were reported by wait
    let key = if got >= 2 { Some(wops.iter().map(|o| o.show()).collect::<Vec<_>>().join(";")) } else { None };
    w.push(&term, &json, &[], key);
}

/// The real side must not depend on how the check was started: a signal that
/// is ignored on entry (`nohup`: SIGHUP; a background job of a non-interactive
/// shell: SIGINT, SIGQUIT) cannot be trapped by a POSIX shell, and an inherited
/// signal mask changes what is delivered.  Every signal gets its default
/// action and nothing is blocked, in this process and so in all its children.
fn standard_signal_state() {
    use yash_env::system::{Disposition, Sigaction as _, Sigmask as _, SigmaskOp};
    let sys = unsafe { RealSystem::new() };
    for raw in 1..=64 {
        // SIGKILL/SIGSTOP cannot be changed; SIGPIPE stays as the Rust runtime set it
        // (std resets it to the default in every child it spawns)
        if raw == 9 || raw == 19 || raw == 13 {
            continue;
        }
        let n = yash_env::signal::Number::from_raw_unchecked(std::num::NonZero::new(raw).unwrap());
        let _ = sys.sigaction(n, Disposition::Default);
    }
    let empty = <RealSystem as yash_env::system::Sigmask>::Sigset::default();
    let _ = now(sys.sigmask(Some((SigmaskOp::Set, &empty)), None));
}

fn main() {
    standard_signal_state();
    let raw: Vec<String> = std::env::args().collect();
    if raw.len() > 1 && raw[1] == "--real-sys-worker" {
        real_sys_worker(&raw[2..]);
    }
    if raw.len() > 2 && raw[1] == "--real-shell" {
        real_shell_main(&raw[2]);
    }
    if raw.len() > 2 && raw[1] == "--script" {
        let run = format!("{}/manual/{}", scratch_base(), std::process::id());
        let tree = tree_for(&raw[2]);
        let v = run_script_virtual(&raw[2], &tree, &format!("{run}/root"));
        let r = run_script_real(&raw[2], &tree, &run);
        for (n, o) in [("VIRTUAL", &v), ("REAL", &r)] {
            println!("== {n}: status {}\n-- stdout:\n{}-- stderr:\n{}-- files: {}", o.status,
                String::from_utf8_lossy(&o.stdout), o.stderr, tree_show(&o.tree));
        }
        println!("== {}", if v.stdout == r.stdout && v.status == r.status && v.tree == r.tree { "AGREE" } else { "DIFFER" });
        std::process::exit(0);
    }
    if raw.len() > 3 && raw[1] == "--stress-script" {
        // c19 --stress-script N SCRIPT [yash3-path]: N runs on the real side (16 at a time),
        // the distinct observations with their counts
        let n: usize = raw[2].parse().unwrap();
        let run = format!("{}/manual/{}", scratch_base(), std::process::id());
        let case = ScriptCase { tree: tree_for(&raw[3]), script: raw[3].clone(), tags: vec![], kinds: vec![] };
        let cases: Vec<ScriptCase> = (0..n).map(|_| case.clone()).collect();
        let obs = real_scripts_all(&cases, &run, raw.get(4).cloned());
        let mut count: BTreeMap<String, usize> = BTreeMap::new();
        for o in obs {
            *count.entry(format!("status {} stdout {:?} files {}", o.status, String::from_utf8_lossy(&o.stdout), tree_show(&o.tree))).or_insert(0) += 1;
        }
        for (k, v) in count {
            println!("{v} x {k}");
        }
        let _ = std::fs::remove_dir_all(&run);
        let _ = std::fs::remove_dir(format!("{}/manual", scratch_base()));
        std::process::exit(0);
    }
    let args = Args::parse();
    // quick: one wave of 16 shards; thorough: many small shards
    let mut w = CasesWriter::new(&args, "Yv.C19.Run", if args.thorough() { 80 } else { 74 });
    let run = format!("{}/{}/{}-{}", scratch_base(), args.seed, args.tier, std::process::id());
    std::fs::create_dir_all(&run).unwrap();
    // (the unprivileged workers of the permission sub-stream create their directories in it)
    let _ = std::fs::set_permissions(&run, std::fs::Permissions::from_mode(0o777));

    // ---- stream 1 ----
    let n_sys = perm_base(args.thorough()) + n_sys_perm(args.thorough());
    let n_w = n_wait(args.thorough());
    let real = real_sys_all(&args, n_sys + n_w, &run);
    for idx in 0..n_sys {
        let case = sys_case(args.seed, idx, args.thorough());
        if std::env::var("YV_C19_DEBUG").is_ok() {
            eprintln!("case {idx}: {}", case.ops.iter().map(|o| o.show()).collect::<Vec<_>>().join("; "));
        }
        let root = format!("{run}/c{idx}/root");
        let v = run_sys_virtual(&case, &root);
        let Some(r) = real.get(&idx).cloned() else {
            harness_error(&format!("no result of the real system for sequence {idx}"));
        };
        emit_sys(&mut w, &case, &v, &r);
    }

    // ---- stream 2 ----
    let n_scr = corpus_scripts().len() + args.scale(400, 6000);
    let cases: Vec<ScriptCase> = (0..n_scr).map(|i| script_case(args.seed, i, args.thorough())).collect();
    let reals = real_scripts_all(&cases, &run, None);
    for (i, case) in cases.iter().enumerate() {
        let v = run_script_virtual(&case.script, &case.tree, &format!("{run}/s{i}/root"));
        let r = settle_real(&mut w, "script", i, case, &v, &reals[i], &format!("{run}/s{i}"), None);
        emit_script(&mut w, case, &v, &r);
    }

    // ---- stream 2, permission sub-stream (unprivileged real shell) ----
    let n_ps = args.scale(60, 600);
    let casesp: Vec<ScriptCase> = (0..n_ps).map(|i| gen_perm_script(args.seed, i)).collect();
    let realsp = real_scripts_all(&casesp, &format!("{run}/p"), None);
    for (i, case) in casesp.iter().enumerate() {
        let v = run_script_virtual(&case.script, &case.tree, &format!("{run}/p/s{i}/root"));
        let r = settle_real(&mut w, "perm-script", i, case, &v, &realsp[i], &format!("{run}/p/s{i}"), None);
        emit_script(&mut w, case, &v, &r);
    }

    // ---- stream 3 ----
    let yash3 = build_yash3();
    let n3 = args.scale(150, 1500);
    let cases3: Vec<ScriptCase> = (0..n3).map(|i| gen_builtin_script(args.seed, i)).collect();
    let reals3 = real_scripts_all(&cases3, &format!("{run}/h"), None);
    let yash3s = real_scripts_all(&cases3, &format!("{run}/y"), Some(yash3.clone()));
    for (i, case) in cases3.iter().enumerate() {
        // (the same directory name as on the harness-shell side: $PWD is printed as ROOT anyway)
        let v = run_script_virtual(&case.script, &case.tree, &format!("{run}/h/s{i}/root"));
        let r = settle_real(&mut w, "script3-harness-shell", i, case, &v, &reals3[i], &format!("{run}/h/s{i}"), None);
        let y = settle_real(&mut w, "script3-yash3", i, case, &v, &yash3s[i], &format!("{run}/y/s{i}"), Some(&yash3));
        emit_script3(&mut w, case, &v, &r, &y);
    }
    // ---- stream 4: several children alive together ----
    for k in 0..n_w {
        let idx = wait_base(args.thorough()) + k;
        let wops = gen_wait_case(args.seed, k, args.thorough());
        if std::env::var("YV_C19_DEBUG").is_ok() {
            eprintln!("wait case {k}: {}", wops.iter().map(|o| o.show()).collect::<Vec<_>>().join("; "));
        }
        let v = run_sys_virtual_w(&empty_sys_case(), Some(&wops), &format!("{run}/c{idx}/root"));
        let Some(r) = real.get(&idx).cloned() else {
            harness_error(&format!("no result of the real system for wait sequence {k}"));
        };
        emit_wait(&mut w, &wops, &v.res, &r.res);
    }
    let _ = std::fs::remove_dir_all(&run);
    // (the per-seed directory too, if no other run is using it)
    let _ = std::fs::remove_dir(format!("{}/{}", scratch_base(), args.seed));
    w.finish(
        "stream 1: random system-call sequences (4-40 calls, up to 2 nested forks) on a fixed small \
         tree, run on VirtualSystem and RealSystem; non-trivial = at least 5 calls succeeded and at \
         least one failed; distinct = by call sequence.  stream 2: random scripts (2-10 statements \
         from 58 templates) run by the same generic shell main on the simulated and the real OS; \
         non-trivial = printed something.  stream 3: scripts of real built-ins only, additionally \
         run by the yash3 binary built from the repository.  stream 4: 8-40 interleaved calls of a \
         parent and its 2-4 live children (wait, SIGCHLD, death inside sigprocmask, own process \
         groups); non-trivial = two children were reported by wait",
    );
}
