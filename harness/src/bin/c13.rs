//! C13 — children are started, awaited and reaped correctly under every schedule.
//!
//! Streams (Coq side: coq/C13/Run.v):
//!
//! * K `CKern`: fork / exit / wait / sigmask / sigaction / caught_signals on the
//!   real `VirtualSystem`, in lock step with the kernel part of the model, with a
//!   snapshot of the process table after every operation.
//! * S `CScript`: scripts rendered from a list of model commands (asynchronous
//!   children, pipelines, subshells, `wait`, `wait PID`, probes of `$?`/`$!`), run
//!   on the simulated OS under a schedule-controlling executor: seeded random
//!   policies, and depth-first enumeration of all schedules for tiny scripts
//!   (thorough).
//! * X `CCross`: generated race-free scripts with nesting (subshells, pipelines
//!   that move data, command substitutions, asynchronous lists) run under several
//!   schedules; the main shell's observations must be identical.
//! * N `CNest`: nested process trees against the sequential reference; T `CTrap`:
//!   `wait` interrupted by a trapped signal.
//! * P `CPipeFd`: pipelines of 2..5 members started with an unusual descriptor
//!   table (each of 0, 1, 2 open or closed, extras at 3..5), in the main shell or a
//!   subshell; status, data received by the last member, and the descriptors each
//!   member has open (built-in `fdmap`) against the PipeSet model of coq/C13/Fds.v.
//! * S, N, X and P put 0, 1 or 2 earlier children that were waited for (foreground
//!   subshell, pipeline, asynchronous child + `wait`) before the generated part, so
//!   that later forks copy an initialised SIGCHLD / select-mask state.  A stalled run
//!   (no runnable task, processes alive; decided by the scheduler, not by wall time)
//!   is reported as `deadlock` and is verdict 20, a violation.
#[path = "c13_sched.rs"]
mod sched;

use futures_util::FutureExt as _;
use sched::{Policy, Sched, SchedInfo, next_prefix, run_shell_sched};
use std::cell::Cell;
use std::future::Future;
use std::panic::{AssertUnwindSafe, catch_unwind};
use std::pin::Pin;
use std::rc::Rc;
use std::task::{Context, Poll};
use std::time::Duration;
use yash_env::builtin::{Builtin, Type};
use yash_env::job::{Pid, ProcessResult, ProcessState};
use yash_env::semantics::{ExitStatus, Field};
use yash_env::system::concurrency::Sleep as _;
use yash_env::system::r#virtual::sigset::Sigset as VSigset;
use yash_env::system::r#virtual::{SIGCHLD, SIGCONT, SIGSTOP, VirtualSystem};
use yash_env::system::{
    CaughtSignals as _, Disposition, Errno, Exit as _, Fork as _, SendSignal as _, Sigaction as _, Sigmask as _,
    SigmaskOp, Sigset as _, Wait as _,
};
use yv_harness::cli::Args;
use yv_harness::out::CasesWriter;
use yv_harness::rng::Rng;
use yv_harness::vsh::{BuiltinFuture, Outcome, RunOpts, VEnv};
use yv_harness::{coq, json_str};

// ---------------------------------------------------------------------------
// built-ins

/// `work N [STATUS]`: sleeps N times one virtual millisecond, returns STATUS.
fn work_main(env: &mut VEnv, args: Vec<Field>) -> BuiltinFuture<'_> {
    Box::pin(async move {
        let n = args.first().and_then(|f| f.value.parse::<u32>().ok()).unwrap_or(1);
        let st = args.get(1).and_then(|f| f.value.parse::<i32>().ok()).unwrap_or(0);
        for _ in 0..n {
            env.system.sleep(Duration::from_millis(1)).await;
        }
        ExitStatus(st).into()
    })
}

/// `burst N`: writes N bytes (lines of nine `x` and a newline) to its standard output.
fn burst_main(env: &mut VEnv, args: Vec<Field>) -> BuiltinFuture<'_> {
    Box::pin(async move {
        use yash_env::system::concurrency::WriteAll as _;
        let n = args.first().and_then(|f| f.value.parse::<usize>().ok()).unwrap_or(0);
        let data: Vec<u8> = (0..n).map(|i| if i % 10 == 9 { b'\n' } else { b'x' }).collect();
        match env.system.write_all(yash_env::io::Fd::STDOUT, &data).await {
            Ok(()) => ExitStatus::SUCCESS.into(),
            Err(_) => ExitStatus::FAILURE.into(),
        }
    })
}

/// `fdmap TAG`: records which of the descriptors 0..9 this process has open
/// (fcntl F_GETFD), as the record `fdmap [TAG, "0 1 2"]`.
fn fdmap_main(env: &mut VEnv, args: Vec<Field>) -> BuiltinFuture<'_> {
    Box::pin(async move {
        use yash_env::system::{Fcntl as _, GetPid as _};
        let open: Vec<String> =
            (0..10).filter(|fd| env.system.fcntl_getfd(yash_env::io::Fd(*fd)).is_ok()).map(|fd| fd.to_string()).collect();
        yv_harness::vsh::trace_push(yv_harness::vsh::TraceItem {
            kind: "fdmap".into(),
            status: env.exit_status.0,
            args: vec![args.first().map(|f| f.value.clone()).unwrap_or_default(), open.join(" ")],
            in_main: env.system.getpid() == env.main_pid,
        });
        ExitStatus(env.exit_status.0).into()
    })
}

pub fn install(env: &mut VEnv) {
    env.builtins.insert("fdmap", Builtin::new(Type::Mandatory, fdmap_main));
    env.builtins.insert("burst", Builtin::new(Type::Mandatory, burst_main));
    env.builtins.insert("work", Builtin::new(Type::Mandatory, work_main));
}

// ---------------------------------------------------------------------------
// Stream K

struct Gate(Rc<Cell<bool>>);
impl Future for Gate {
    type Output = ();
    fn poll(self: Pin<&mut Self>, _: &mut Context<'_>) -> Poll<()> {
        if self.0.get() { Poll::Ready(()) } else { Poll::Pending }
    }
}

#[derive(Clone, Debug)]
enum KOp {
    Fork(i32),
    Exit(usize),
    /// `true` = SIGSTOP, `false` = SIGCONT
    Sig(bool, usize),
    Wait(Option<usize>),
    Block,
    Unblock,
    Catch(bool),
    Take,
}

fn stream_k_case(w: &mut CasesWriter, r: &mut Rng, nops: usize, forced: Option<Vec<KOp>>) {
    stream_k_case_tagged(w, r, nops, forced, &[]);
}

fn stream_k_case_tagged(w: &mut CasesWriter, r: &mut Rng, nops: usize, forced: Option<Vec<KOp>>, tags: &[&str]) {
    WATCHDOG.with(|wd| wd.tick("stream K"));
    let vs = VirtualSystem::new();
    let state = Rc::clone(&vs.state);
    let sched = Sched::new();
    state.borrow_mut().executor = Some(Rc::new(sched.clone()));
    let mut gates: Vec<Rc<Cell<bool>>> = vec![];
    let mut running: Vec<usize> = vec![];
    let mut stopped: Vec<usize> = vec![];
    let mut hist = vec![];
    let mut human = vec![];
    let chld = {
        let mut s = VSigset::new();
        s.insert(SIGCHLD).unwrap();
        s
    };
    let mut forced_it = forced.clone().map(|f| f.into_iter());
    let n = forced.as_ref().map_or(nops, |f| f.len());
    let mut reaped_any = false;
    let mut collapsed = false;
    let mut blocked = false;
    let mut exits_while_blocked = 0;
    for _ in 0..n {
        let op = if let Some(it) = forced_it.as_mut() {
            it.next().unwrap()
        } else {
            loop {
                let op = match r.below(100) {
                    0..=17 => KOp::Fork(*r.pick(&[0, 0, 1, 2, 7, 42, 127, 255])),
                    18..=33 => {
                        if running.is_empty() {
                            continue;
                        }
                        KOp::Exit(running[r.below(running.len())])
                    }
                    34..=39 => {
                        // signals go to live children only (a signal to a terminated
                        // process has no effect: corpus case F9; `kill` on a reaped pid still
                        // reports success in the simulator, which is outside the domain)
                        let live: Vec<usize> = running.iter().chain(stopped.iter()).copied().collect();
                        if live.is_empty() {
                            continue;
                        }
                        KOp::Sig(r.chance(1, 2), live[r.below(live.len())])
                    }
                    40..=54 => KOp::Wait(None),
                    55..=74 => KOp::Wait(Some(r.below(gates.len() + 2))),
                    75..=80 => KOp::Block,
                    81..=86 => KOp::Unblock,
                    87..=92 => KOp::Catch(r.chance(3, 4)),
                    _ => KOp::Take,
                };
                if gates.len() >= 7 && matches!(op, KOp::Fork(_)) {
                    continue;
                }
                break op;
            }
        };
        let (op_t, obs_t, desc) = match &op {
            KOp::Fork(st) => {
                let gate = Rc::new(Cell::new(false));
                let st2 = *st;
                let (res, _) = vs.run_in_child_process(
                    Rc::clone(&gate),
                    async move |child: VirtualSystem, gate: Rc<Cell<bool>>| {
                        Gate(gate).await;
                        child.exit(ExitStatus(st2)).await;
                    },
                );
                let idx = match res {
                    Ok(pid) => (pid.0 - 3) as usize,
                    Err(_) => 9999,
                };
                sched.task_count();
                gates.push(gate);
                running.push(gates.len() - 1);
                (
                    format!("(KFork 0 {})", coq::n(*st as u64)),
                    format!("(BPid {})", coq::nat(idx)),
                    format!("fork({st}) -> child {idx}"),
                )
            }
            KOp::Exit(i) => {
                gates[*i].set(true);
                sched.poll(*i);
                running.retain(|x| x != i);
                if blocked {
                    exits_while_blocked += 1;
                    if exits_while_blocked >= 2 {
                        collapsed = true;
                    }
                }
                (format!("(KExit {})", coq::nat(*i)), "BUnit".into(), format!("exit({i})"))
            }
            KOp::Sig(stop, i) => {
                let sig = if *stop { SIGSTOP } else { SIGCONT };
                let _ = vs.kill(Pid(3 + *i as i32), Some(sig)).now_or_never();
                if *stop {
                    if running.contains(i) {
                        running.retain(|x| x != i);
                        stopped.push(*i);
                    }
                } else if stopped.contains(i) {
                    stopped.retain(|x| x != i);
                    running.push(*i);
                }
                (
                    format!("(KSig {} {})", if *stop { "SStop" } else { "SCont" }, coq::nat(*i)),
                    "BUnit".into(),
                    format!("kill({}, {i})", if *stop { "STOP" } else { "CONT" }),
                )
            }
            KOp::Wait(t) => {
                let pid = match t {
                    None => Pid(-1),
                    Some(i) => Pid(3 + *i as i32),
                };
                let res = vs.wait(pid);
                let (o, d) = match res {
                    Ok(Some((p, ProcessState::Halted(ProcessResult::Exited(st))))) => {
                        reaped_any = true;
                        (
                            format!("(WSome {} {})", coq::nat((p.0 - 3) as usize), coq::n(st.0 as u64)),
                            format!("child {} exited {}", p.0 - 3, st.0),
                        )
                    }
                    Ok(Some((p, ProcessState::Halted(ProcessResult::Stopped(_))))) => (
                        format!("(WStop {})", coq::nat((p.0 - 3) as usize)),
                        format!("child {} stopped", p.0 - 3),
                    ),
                    Ok(Some((p, ProcessState::Running))) => (
                        format!("(WCont {})", coq::nat((p.0 - 3) as usize)),
                        format!("child {} continued", p.0 - 3),
                    ),
                    Ok(Some((p, other))) => (
                        // a state the model does not know: the oracle rejects it
                        format!("(WSome {} 99999%N)", coq::nat((p.0 - 3) as usize)),
                        format!("child {} {:?}", p.0 - 3, other),
                    ),
                    Ok(None) => ("WNone".into(), "none yet".into()),
                    Err(Errno::ECHILD) => ("WEchild".into(), "ECHILD".into()),
                    Err(e) => ("(WSome 99999 0%N)".into(), format!("{e:?}")),
                };
                let tt = match t {
                    None => "TAny".to_string(),
                    Some(i) => format!("(TPid {})", coq::nat(*i)),
                };
                (format!("(KWait {tt})"), format!("(BWait {o})"), format!("wait({}) -> {d}", pid.0))
            }
            KOp::Block => {
                vs.sigmask(Some((SigmaskOp::Add, &chld)), None).now_or_never().unwrap().unwrap();
                blocked = true;
                exits_while_blocked = 0;
                ("KBlock".into(), "BUnit".into(), "block".into())
            }
            KOp::Unblock => {
                vs.sigmask(Some((SigmaskOp::Remove, &chld)), None).now_or_never().unwrap().unwrap();
                blocked = false;
                ("KUnblock".into(), "BUnit".into(), "unblock".into())
            }
            KOp::Catch(b) => {
                vs.sigaction(SIGCHLD, if *b { Disposition::Catch } else { Disposition::Default }).unwrap();
                (format!("(KCatch {})", coq::b(*b)), "BUnit".into(), format!("sigaction({b})"))
            }
            KOp::Take => {
                let l = vs.caught_signals();
                let nn = l.iter().filter(|s| **s == SIGCHLD).count();
                ("KTake".into(), format!("(BTaken {})", coq::nat(nn)), format!("caught -> {nn}"))
            }
        };
        // snapshot
        let (kids, pending) = {
            let st = state.borrow();
            let kids: Vec<String> = st
                .processes
                .iter()
                .filter(|(pid, _)| pid.0 != 2)
                .map(|(_, p)| {
                    let c = match (p.state(), p.state_has_changed()) {
                        (ProcessState::Running, false) => 0,
                        (ProcessState::Running, true) => 4,
                        (st, ch) if st.is_stopped() => {
                            if ch { 5 } else { 3 }
                        }
                        (_, true) => 1,
                        (_, false) => 2,
                    };
                    coq::nat(c)
                })
                .collect();
            let pending = st.processes[&Pid(2)].pending_signals().contains(SIGCHLD) == Ok(true);
            (kids, pending)
        };
        hist.push(format!("({op_t}, {obs_t}, ({}, {}))", coq::list(&kids), coq::b(pending)));
        human.push(format!("{desc} [{} pending={pending}]", kids.join("").replace("%nat", "")));
        w.count(match op {
            KOp::Fork(_) => "K.op:fork",
            KOp::Exit(_) => "K.op:exit",
            KOp::Sig(true, _) => "K.op:kill(STOP)",
            KOp::Sig(false, _) => "K.op:kill(CONT)",
            KOp::Wait(None) => "K.op:wait(-1)",
            KOp::Wait(Some(_)) => "K.op:wait(pid)",
            KOp::Block | KOp::Unblock => "K.op:sigmask",
            KOp::Catch(_) => "K.op:sigaction",
            KOp::Take => "K.op:caught_signals",
        });
    }
    sched.clear();
    let term = format!("(CKern {})", coq::list(&hist));
    let json = format!(
        "{{\"stream\":\"K\",\"ops\":[{}]}}",
        human.iter().map(|h| json_str(h)).collect::<Vec<_>>().join(",")
    );
    if collapsed {
        w.count("K.case:two-exits-while-blocked");
    }
    let key = if reaped_any && gates.len() >= 2 { Some(format!("K:{}", human.join(";"))) } else { None };
    w.push(&term, &json, tags, key);
}

// ---------------------------------------------------------------------------
// Stream S

/// What a child does before it exits.
#[derive(Clone, Debug, PartialEq)]
enum Act {
    Work,
    /// `true` = SIGSTOP, `false` = SIGCONT; target = index of a child
    Kill(bool, usize),
}

fn works(n: u32) -> Vec<Act> {
    vec![Act::Work; n as usize]
}

fn acts_coq(a: &[Act]) -> String {
    let v: Vec<String> = a
        .iter()
        .map(|x| match x {
            Act::Work => "AWork".to_string(),
            Act::Kill(stop, t) => {
                format!("(AKill {} {})", if *stop { "SStop" } else { "SCont" }, coq::nat(*t))
            }
        })
        .collect();
    coq::list(&v)
}

/// The commands of a child: its actions, then `work 0 STATUS` to set the exit status.
fn acts_sh(a: &[Act], st: i32) -> String {
    let mut parts: Vec<String> = vec![];
    let mut w = 0;
    for x in a {
        match x {
            Act::Work => w += 1,
            Act::Kill(stop, t) => {
                if w > 0 {
                    parts.push(format!("work {w}"));
                    w = 0;
                }
                parts.push(format!("kill -{} {}", if *stop { "STOP" } else { "CONT" }, 3 + t));
            }
        }
    }
    parts.push(format!("work {w} {st}"));
    parts.join("; ")
}

#[derive(Clone, Debug)]
enum Cmd {
    Async(Vec<Act>, i32),
    Pipe(Vec<(Vec<Act>, i32)>, bool),
    Wait(Option<usize>),
    Probe,
}

fn has_stop(p: &[Cmd]) -> bool {
    p.iter().any(|c| match c {
        Cmd::Async(a, _) => a.iter().any(|x| matches!(x, Act::Kill(true, _))),
        Cmd::Pipe(l, _) => l.iter().any(|(a, _)| a.iter().any(|x| matches!(x, Act::Kill(true, _)))),
        _ => false,
    })
}

fn cmds_coq(p: &[Cmd]) -> String {
    let v: Vec<String> = p
        .iter()
        .map(|c| match c {
            Cmd::Async(w, st) => format!("(CAsync {} {})", acts_coq(w), coq::n(*st as u64)),
            Cmd::Pipe(l, pf) => {
                let m: Vec<String> =
                    l.iter().map(|(w, st)| format!("({}, {})", acts_coq(w), coq::n(*st as u64))).collect();
                format!("(CPipe {} {})", coq::list(&m), coq::b(*pf))
            }
            Cmd::Wait(None) => "(CWait None)".into(),
            Cmd::Wait(Some(i)) => format!("(CWait (Some {}))", coq::nat(*i)),
            Cmd::Probe => "CProbe".into(),
        })
        .collect();
    coq::list(&v)
}

fn render(p: &[Cmd]) -> String {
    let mut s = String::new();
    let mut nkids = 0usize;
    let mut asyncs: Vec<usize> = vec![];
    let mut pipefail = false;
    for c in p {
        match c {
            Cmd::Async(w, st) => {
                s.push_str(&format!("{{ {}; }} &\np{nkids}=$!\n", acts_sh(w, *st)));
                asyncs.push(nkids);
                nkids += 1;
            }
            Cmd::Pipe(l, pf) => {
                if *pf != pipefail {
                    s.push_str(if *pf { "set -o pipefail\n" } else { "set +o pipefail\n" });
                    pipefail = *pf;
                }
                if l.len() == 1 {
                    s.push_str(&format!("( {} )\n", acts_sh(&l[0].0, l[0].1)));
                } else {
                    let m: Vec<String> = l.iter().map(|(w, st)| format!("{{ {}; }}", acts_sh(w, *st))).collect();
                    s.push_str(&format!("{}\n", m.join(" | ")));
                }
                nkids += l.len();
            }
            Cmd::Wait(None) => s.push_str("wait\n"),
            Cmd::Wait(Some(i)) => {
                if asyncs.contains(i) {
                    s.push_str(&format!("wait $p{i}\n"));
                } else {
                    s.push_str(&format!("wait {}\n", 3 + i));
                }
            }
            Cmd::Probe => s.push_str("args \"$!\"\n"),
        }
    }
    s
}

/// 0, 1 or 2 earlier children that the shell has waited for before the generated
/// part starts: foreground subshell, pipeline, asynchronous child + `wait`.
fn gen_s_prefix(r: &mut Rng) -> Vec<Cmd> {
    let mut p = vec![];
    for _ in 0..r.below(3) {
        let st = *r.pick(&[0, 1, 3]);
        match r.below(3) {
            0 => p.push(Cmd::Pipe(vec![(works(r.below(2) as u32), st)], false)),
            1 => p.push(Cmd::Pipe(vec![(works(r.below(2) as u32), 0), (works(r.below(2) as u32), st)], false)),
            _ => {
                p.push(Cmd::Async(works(r.below(2) as u32), st));
                p.push(Cmd::Wait(None));
            }
        }
    }
    p
}

fn gen_prog(r: &mut Rng, maxlen: usize, maxw: u32) -> Vec<Cmd> {
    gen_prog_after(r, maxlen, maxw, vec![])
}

fn gen_prog_after(r: &mut Rng, maxlen: usize, maxw: u32, prefix: Vec<Cmd>) -> Vec<Cmd> {
    let n = 1 + r.below(maxlen);
    let mut nkids: usize = prefix
        .iter()
        .map(|c| match c {
            Cmd::Async(..) => 1,
            Cmd::Pipe(l, _) => l.len(),
            _ => 0,
        })
        .sum();
    let mut p = prefix;
    let mut asyncs: Vec<usize> = vec![];
    let sts = [0, 0, 0, 1, 2, 7, 42, 127, 255];
    for _ in 0..n {
        match r.below(100) {
            0..=29 => {
                p.push(Cmd::Async(works(r.below(maxw as usize + 1) as u32), *r.pick(&sts)));
                asyncs.push(nkids);
                nkids += 1;
            }
            30..=54 => {
                let k = 1 + r.below(4);
                let l: Vec<(Vec<Act>, i32)> =
                    (0..k).map(|_| (works(r.below(maxw as usize + 1) as u32), *r.pick(&sts))).collect();
                nkids += k;
                p.push(Cmd::Pipe(l, r.chance(1, 3)));
            }
            55..=64 => p.push(Cmd::Wait(None)),
            65..=89 => {
                let t = match r.below(10) {
                    0..=5 if !asyncs.is_empty() => *r.pick(&asyncs),
                    6..=7 if nkids > 0 => r.below(nkids),
                    _ => nkids + 5 + r.below(50),
                };
                p.push(Cmd::Wait(Some(t)));
            }
            _ => p.push(Cmd::Probe),
        }
        if r.chance(2, 3) {
            p.push(Cmd::Probe);
        }
    }
    if r.chance(2, 3) {
        p.push(Cmd::Wait(None));
        p.push(Cmd::Probe);
    }
    p
}

/// Scripts in which a helper (an asynchronous child started first) stops another
/// child and continues it later; `work` delays in virtual time make the order of
/// the signals deterministic (the target is alive at both).
///   kind 0: foreground subshell stopped by the helper
///   kind 1: foreground subshell that stops itself, continued by the helper
///   kind 2: first member of a pipeline stopped
///   kind 3: last member of a pipeline (pipefail) stopped
///   kind 4: asynchronous job stopped, then `wait PID`
///   kind 5: asynchronous job stopped, then `wait`
fn stop_prog(kind: usize, at: u32, gap: u32, base: usize, r: &mut Rng) -> Vec<Cmd> {
    let st = *r.pick(&[0, 3, 5, 42]);
    let st2 = *r.pick(&[0, 1, 7]);
    let long = at + gap + 2 + r.below(3) as u32;
    let helper = |t: usize| {
        let mut v = works(at);
        v.push(Act::Kill(true, t));
        v.extend(works(gap));
        v.push(Act::Kill(false, t));
        v
    };
    let h = base; // index of the helper
    let mut p = match kind {
        0 => vec![Cmd::Async(helper(h + 1), 0), Cmd::Pipe(vec![(works(long), st)], false), Cmd::Probe],
        1 => {
            let mut me = works(at);
            me.push(Act::Kill(true, h + 1));
            me.extend(works(1));
            let mut hp = works(at + gap);
            hp.push(Act::Kill(false, h + 1));
            vec![Cmd::Async(hp, 0), Cmd::Pipe(vec![(me, st)], false), Cmd::Probe]
        }
        2 => vec![
            Cmd::Async(helper(h + 1), 0),
            Cmd::Pipe(vec![(works(long), st2), (works(1), st)], false),
            Cmd::Probe,
        ],
        3 => vec![
            Cmd::Async(helper(h + 2), 0),
            Cmd::Pipe(vec![(works(0), st2), (works(long), st)], true),
            Cmd::Probe,
        ],
        4 => vec![
            Cmd::Async(helper(h + 1), 0),
            Cmd::Async(works(long), st),
            Cmd::Wait(Some(h + 1)),
            Cmd::Probe,
        ],
        _ => vec![Cmd::Async(helper(h + 1), 0), Cmd::Async(works(long), st), Cmd::Wait(None), Cmd::Probe],
    };
    p.push(Cmd::Wait(None));
    p.push(Cmd::Probe);
    p
}

struct SRun {
    o: Outcome,
    info: SchedInfo,
}

thread_local! {
    static WATCHDOG: sched::Watchdog = sched::Watchdog::start(Duration::from_secs(600));
}

fn run_script(script: &str, policy: Policy) -> SRun {
    // scripts that send signals rely on virtual time for the order of their
    // events: time advances only when no process can run
    sched::EARLY_TICK.store(!script.contains("kill -"), std::sync::atomic::Ordering::SeqCst);
    WATCHDOG.with(|wd| wd.tick(script));
    let (o, info) = run_shell_sched(
        RunOpts { argv: vec!["-c".into(), script.into()], ..Default::default() },
        |env, _| install(env),
        policy,
        200_000,
    );
    SRun { o, info }
}

fn emit_s_case(w: &mut CasesWriter, p: &[Cmd], script: &str, pol_name: &str, run: &SRun) {
    let o = &run.o;
    let trace: Vec<String> = o
        .trace
        .iter()
        .filter(|t| t.kind == "args" && t.in_main)
        .map(|t| {
            let bg = t.args.first().and_then(|a| a.parse::<i64>().ok()).map(|pid| coq::nat((pid - 3).max(0) as usize));
            // a negative status is outside N: make it visible as a large number
            let st = if t.status < 0 { 1_000_000 + (-t.status) as u64 } else { t.status as u64 };
            format!("({}, {})", coq::n(st), coq::opt(bg))
        })
        .collect();
    let left: Vec<String> = run
        .info
        .children
        .iter()
        .filter(|(_, alive, unreaped)| *alive || *unreaped)
        .map(|(pid, _, _)| coq::nat((*pid - 3) as usize))
        .collect();
    let term = format!(
        "(CScript {} (mkSObs {} {} {} {} {}))",
        cmds_coq(p),
        coq::list(&trace),
        coq::z(o.status as i128),
        coq::b(o.deadlock || o.timeout),
        coq::b(o.panicked.is_some()),
        coq::list(&left)
    );
    let json = format!(
        "{{\"stream\":\"S\",\"script\":{},\"policy\":{},\"trace\":{},\"status\":{},\"deadlock\":{},\"timeout\":{},\"panic\":{},\"children\":{},\"choices\":{},\"stderr\":{}}}",
        json_str(script),
        json_str(pol_name),
        json_str(&trace.join(" ").replace("%N", "").replace("%nat", "")),
        o.status,
        o.deadlock,
        o.timeout,
        json_str(&o.panicked.clone().unwrap_or_default()),
        json_str(&format!("{:?}", run.info.children)),
        json_str(&format!("{:?}", run.info.path.iter().map(|(k, _)| *k).collect::<Vec<_>>())),
        json_str(&o.stderr.chars().take(300).collect::<String>())
    );
    let nk = run.info.children.len();
    w.count(&format!("S.children:{}", nk.min(6)));
    w.count(&format!("S.policy:{}", pol_name.split(':').next().unwrap()));
    if has_stop(p) {
        w.count("S.script:stop-and-continue");
    }
    let branches = run.info.path.iter().filter(|(_, n)| *n > 1).count();
    w.count(&format!("S.choice-points:{}", if branches >= 8 { "8+".to_string() } else { branches.to_string() }));
    let key = if nk >= 2 && branches >= 1 {
        Some(format!("S:{script}:{:?}", run.info.path.iter().map(|(k, _)| *k).collect::<Vec<_>>()))
    } else {
        None
    };
    w.push(&term, &json, &[], key);
}

fn policy_of(kind: usize, seed: u64) -> (Policy, String) {
    match kind {
        0 => (Policy::First, "first".into()),
        1 => (Policy::Last, "last".into()),
        2 => (Policy::MainLast(Rng::new(seed)), format!("mainlast:{seed}")),
        3 => (Policy::MainFirst(Rng::new(seed)), format!("mainfirst:{seed}")),
        _ => (Policy::Random(Rng::new(seed)), format!("random:{seed}")),
    }
}

// ---------------------------------------------------------------------------
// Stream X: nested race-free scripts

fn gen_inner(r: &mut Rng, depth: usize, var: &mut usize) -> String {
    // a command list that writes one short line to its standard output
    let word = *r.pick(&["a", "bc", "d e", "0", "x1"]);
    match r.below(if depth == 0 { 3 } else { 8 }) {
        0 => format!("echo {word}"),
        1 => format!("work {}; echo {word}", r.below(3)),
        2 => format!("work {} {} ; echo $?", r.below(3), r.below(4)),
        3 => format!("( work {}; echo {word} ) | cat", r.below(3)),
        4 => format!("work {} {} & wait $!; echo $?", r.below(3), *r.pick(&[0, 3, 9])),
        5 => format!("echo \"$( {} )\"", gen_inner(r, depth - 1, var)),
        6 => format!(
            "{{ work {}; echo {word}; }} | {{ work {}; cat; }} | cat",
            r.below(3),
            r.below(3)
        ),
        _ => format!("( {} )", gen_inner(r, depth - 1, var)),
    }
}

/// A first statement in which a helper (pid 3) stops the next child (pid 4) and
/// continues it later, while the main shell waits for that child in different
/// ways (command substitution, subshell, pipeline, self-stopping subshell).
fn gen_stop_stmt(r: &mut Rng) -> String {
    let at = 1 + r.below(3);
    let gap = 1 + r.below(3);
    let long = at + gap + 2 + r.below(3);
    let helper = format!("{{ work {at}; kill -STOP 4; work {gap}; kill -CONT 4; }} &\nh0=$!\n");
    match r.below(7) {
        // the substitution's output ends early (stdout closed), so the shell is already
        // waiting for the subshell when it gets stopped
        5 | 6 => format!(
            "{helper}s0=$( echo held; exec >&-; work {long}; exit {} )\nargs \"$?\" \"$s0\"\n",
            r.below(7)
        ),
        0 => format!("{helper}s0=$( work {long}; echo held )\nargs \"$?\" \"$s0\"\n"),
        1 => format!("{helper}( work {long}; exit {} )\nargs \"$?\"\n", r.below(7)),
        2 => format!("{helper}{{ work {long}; echo data; }} | {{ cat; work 1 {}; }}\nargs \"$?\"\n", r.below(5)),
        3 => format!(
            "{{ work {}; kill -CONT 4; }} &\nh0=$!\n( work {at}; kill -STOP 4; work 1; exit {} )\nargs \"$?\"\n",
            at + gap,
            r.below(7)
        ),
        _ => format!("{helper}s0=$( ( work {long}; echo deep ) | cat )\nargs \"$?\" \"$s0\"\n"),
    }
}

fn gen_nested(r: &mut Rng) -> String {
    let mut s = String::new();
    let mut var = 0usize;
    let mut pending: Vec<usize> = vec![];
    if r.chance(1, 4) {
        s.push_str(&gen_stop_stmt(r));
        s.push_str("wait $h0\n");
    } else {
        // earlier children that have been waited for before any nested tree is forked
        for _ in 0..r.below(3) {
            match r.below(3) {
                0 => s.push_str(&format!("( work {} {} )\n", r.below(2), r.below(3))),
                1 => s.push_str(&format!("work {} | work {}\n", r.below(2), r.below(2))),
                _ => s.push_str(&format!("work {} {} & wait\n", r.below(2), r.below(3))),
            }
        }
        // ... and a tree that has to wait for a child of its own
        match r.below(4) {
            0 => s.push_str(&format!("( ( work {} 3 ); exit $? )\nargs \"$?\"\n", r.below(2))),
            1 => s.push_str(&format!("( work {} 2 | work {} 4 )\nargs \"$?\"\n", r.below(2), r.below(2))),
            2 => s.push_str(&format!("( work {} 1 & wait $! )\nargs \"$?\"\n", r.below(2))),
            _ => s.push_str(&format!("{{ work {} 6 & wait $!; }} &\nwait $!\nargs \"$?\"\n", r.below(2))),
        }
    }
    let n = 2 + r.below(6);
    for _ in 0..n {
        match r.below(10) {
            0..=1 => {
                s.push_str(&format!("( work {}; exit {} )\nargs \"$?\"\n", r.below(3), r.below(5)));
            }
            2..=3 => {
                let v = var;
                var += 1;
                s.push_str(&format!("v{v}=$( {} )\nargs \"$?\" \"$v{v}\"\n", gen_inner(r, 2, &mut var)));
            }
            4 => {
                let v = var;
                var += 1;
                s.push_str(&format!(
                    "{{ work {} {}; }} &\nq{v}=$!\n",
                    r.below(4),
                    *r.pick(&[0, 1, 5, 100])
                ));
                pending.push(v);
            }
            5 => {
                if let Some(v) = pending.pop() {
                    s.push_str(&format!("wait $q{v}\nargs \"$?\"\n"));
                } else {
                    s.push_str("wait\nargs \"$?\"\n");
                }
            }
            6 => {
                s.push_str(&format!(
                    "work {} {} | ( work {}; exit {} ) | work {} {}\nargs \"$?\"\n",
                    r.below(3),
                    r.below(3),
                    r.below(3),
                    r.below(3),
                    r.below(3),
                    r.below(3)
                ));
            }
            7 => {
                let v = var;
                var += 1;
                s.push_str(&format!(
                    "v{v}=$( {{ work {}; echo one; work {}; echo two; }} | {{ cat; echo three; }} )\nargs \"$v{v}\"\n",
                    r.below(3),
                    r.below(3)
                ));
            }
            8 => {
                s.push_str(&format!(
                    "( ( work {} {} ) ; ( work {} ; exit {} ) )\nargs \"$?\"\n",
                    r.below(3),
                    r.below(3),
                    r.below(3),
                    r.below(6)
                ));
            }
            _ => {
                s.push_str(&format!(
                    "set -o pipefail\nwork {} {} | work {} {}\nargs \"$?\"\nset +o pipefail\n",
                    r.below(3),
                    *r.pick(&[0, 4]),
                    r.below(3),
                    *r.pick(&[0, 6])
                ));
            }
        }
    }
    s.push_str("wait\nargs \"$?\" end\n");
    s
}

fn gobs_term(run: &SRun) -> String {
    let o = &run.o;
    let recs: Vec<String> = o
        .trace
        .iter()
        .filter(|t| t.in_main)
        .map(|t| {
            let a: Vec<String> = t.args.iter().map(|x| coq::s(x)).collect();
            format!("({}, {})", coq::z(t.status as i128), coq::list(&a))
        })
        .collect();
    let left = run.info.children.iter().filter(|(_, alive, unreaped)| *alive || *unreaped).count();
    format!(
        "({}, {}, {}, {}, {})",
        coq::list(&recs),
        coq::z(o.status as i128),
        coq::b(o.deadlock || o.timeout),
        coq::b(o.panicked.is_some()),
        coq::nat(left)
    )
}

fn stream_x_case(w: &mut CasesWriter, r: &mut Rng, script: &str, nsched: usize) {
    stream_x_case_tagged(w, r, script, nsched, &[]);
}

fn stream_x_case_tagged(w: &mut CasesWriter, r: &mut Rng, script: &str, nsched: usize, tags: &[&str]) {
    let mut terms = vec![];
    let mut descr = vec![];
    let mut maxkids = 0;
    for j in 0..nsched {
        let (pol, name) = policy_of(if j == 0 { 0 } else if j == 1 { 1 } else { 2 + r.below(3) }, r.next_u64() % 1_000_000);
        let run = run_script(script, pol);
        maxkids = maxkids.max(run.info.children.len());
        let main_trace: Vec<String> = run
            .o
            .trace
            .iter()
            .filter(|t| t.in_main)
            .map(|t| format!("{}:{}", t.status, t.args.join(",")))
            .collect();
        descr.push(format!(
            "{{\"policy\":{},\"trace\":{},\"status\":{},\"deadlock\":{},\"timeout\":{},\"panic\":{},\"left\":{},\"stderr\":{}}}",
            json_str(&name),
            json_str(&main_trace.join(" | ")),
            run.o.status,
            run.o.deadlock,
            run.o.timeout,
            json_str(&run.o.panicked.clone().unwrap_or_default()),
            run.info.children.iter().filter(|(_, a, u)| *a || *u).count(),
            json_str(&run.o.stderr.chars().take(200).collect::<String>())
        ));
        terms.push(gobs_term(&run));
    }
    let term = format!("(CCross true {})", coq::list(&terms));
    let json = format!("{{\"stream\":\"X\",\"script\":{},\"runs\":[{}]}}", json_str(script), descr.join(","));
    w.count(&format!("X.processes:{}", (maxkids + 1).min(9)));
    if script.contains("kill -STOP") {
        w.count("X.script:stop-and-continue");
    }
    let key = if maxkids >= 3 { Some(format!("X:{script}")) } else { None };
    w.push(&term, &json, tags, key);
}

// ---------------------------------------------------------------------------
// Stream N: nested process trees against the sequential reference

#[derive(Clone, Debug)]
enum NCmd {
    Work(u32, i32),
    Sub(Vec<NCmd>),
    Pipe(Vec<Vec<NCmd>>, bool),
    AsyncWait(Vec<NCmd>),
    Subst(Vec<NCmd>),
    Exit(i32),
    Burst(usize),
}

fn nlist_coq(l: &[NCmd]) -> String {
    let v: Vec<String> = l.iter().map(ncmd_coq).collect();
    coq::list(&v)
}

fn ncmd_coq(c: &NCmd) -> String {
    match c {
        NCmd::Work(w, st) => format!("(NWork {} {})", coq::nat(*w as usize), coq::n(*st as u64)),
        NCmd::Sub(b) => format!("(NSub {})", nlist_coq(b)),
        NCmd::Pipe(ms, pf) => {
            let v: Vec<String> = ms.iter().map(|m| nlist_coq(m)).collect();
            format!("(NPipe {} {})", coq::list(&v), coq::b(*pf))
        }
        NCmd::AsyncWait(b) => format!("(NAsyncWait {})", nlist_coq(b)),
        NCmd::Subst(b) => format!("(NSubst {})", nlist_coq(b)),
        NCmd::Exit(st) => format!("(NExit {})", coq::n(*st as u64)),
        NCmd::Burst(n) => format!("(NBurst {})", coq::nat(*n)),
    }
}

fn nlist_sh(l: &[NCmd]) -> String {
    let v: Vec<String> = l.iter().map(ncmd_sh).collect();
    v.join("; ")
}

fn ncmd_sh(c: &NCmd) -> String {
    match c {
        NCmd::Work(w, st) => format!("work {w} {st}"),
        NCmd::Sub(b) => format!("( {} )", nlist_sh(b)),
        NCmd::Pipe(ms, _) => {
            let v: Vec<String> = ms.iter().map(|m| format!("{{ {}; }}", nlist_sh(m))).collect();
            v.join(" | ")
        }
        NCmd::AsyncWait(b) => format!("{{ {}; }} & wait $!", nlist_sh(b)),
        NCmd::Subst(b) => format!("v=$( {} )", nlist_sh(b)),
        NCmd::Exit(st) => format!("exit {st}"),
        NCmd::Burst(n) => format!("burst {n}"),
    }
}

fn count_procs(c: &NCmd) -> usize {
    match c {
        NCmd::Work(..) | NCmd::Exit(_) | NCmd::Burst(_) => 0,
        NCmd::Sub(b) | NCmd::AsyncWait(b) | NCmd::Subst(b) => 1 + b.iter().map(count_procs).sum::<usize>(),
        NCmd::Pipe(ms, _) => ms.iter().map(|m| 1 + m.iter().map(count_procs).sum::<usize>()).sum(),
    }
}

fn gen_nbody(r: &mut Rng, depth: usize) -> Vec<NCmd> {
    let n = 1 + r.below(3);
    let mut v: Vec<NCmd> = (0..n).map(|_| gen_ncmd(r, depth)).collect();
    if r.chance(1, 3) {
        // leave the enclosing subshell early
        let at = r.below(v.len() + 1);
        v.insert(at, NCmd::Exit(*r.pick(&[0, 2, 9, 100])));
    }
    v
}

fn gen_ncmd(r: &mut Rng, depth: usize) -> NCmd {
    let sts = [0, 0, 1, 3, 7, 42];
    if depth == 0 {
        return NCmd::Work(r.below(3) as u32, *r.pick(&sts));
    }
    match r.below(10) {
        0..=1 => NCmd::Work(r.below(3) as u32, *r.pick(&sts)),
        2..=3 => NCmd::Sub(gen_nbody(r, depth - 1)),
        4..=6 => {
            let k = 2 + r.below(2);
            NCmd::Pipe((0..k).map(|_| gen_nbody(r, depth - 1)).collect(), false)
        }
        7..=8 => NCmd::AsyncWait(gen_nbody(r, depth - 1)),
        _ => NCmd::Subst(gen_nbody(r, depth - 1)),
    }
}

/// A pipeline whose producers write more than anybody reads: the consumers
/// (commands that never read their input) exit early, so the producers must get
/// EPIPE -- which requires the shell to have closed its own copies of the pipe
/// ends before it waits.
fn gen_early_exit_pipe(r: &mut Rng) -> NCmd {
    let k = 2 + r.below(3);
    let sizes = [5000usize, 3000, 1025, 1024, 2049, 100];
    let mut ms: Vec<Vec<NCmd>> = vec![vec![NCmd::Burst(*r.pick(&sizes))]];
    for i in 1..k {
        let last = i == k - 1;
        if !last && r.chance(1, 3) {
            ms.push(vec![NCmd::Burst(*r.pick(&sizes))]);
        } else if r.chance(1, 2) {
            ms.push(vec![NCmd::Exit(*r.pick(&[0, 5, 9]))]);
        } else {
            ms.push(gen_nbody(r, 1));
        }
    }
    NCmd::Pipe(ms, false)
}

fn stream_n_case(w: &mut CasesWriter, cmds: &[NCmd], pk: usize, seed: u64) {
    fn any_pf(c: &NCmd) -> bool {
        match c {
            NCmd::Pipe(ms, f) => *f || ms.iter().any(|m| m.iter().any(any_pf)),
            NCmd::Sub(b) | NCmd::AsyncWait(b) | NCmd::Subst(b) => b.iter().any(any_pf),
            _ => false,
        }
    }
    let mut script = String::new();
    if cmds.iter().any(any_pf) {
        script.push_str("set -o pipefail\n");
    }
    for c in cmds {
        script.push_str(&ncmd_sh(c));
        script.push_str("\nargs \"$?\"\n");
    }
    let (pol, name) = policy_of(pk, seed);
    let run = run_script(&script, pol);
    let o = &run.o;
    let obs: Vec<String> =
        o.trace.iter().filter(|t| t.in_main && t.kind == "args").map(|t| coq::z(t.status as i128)).collect();
    let left = run.info.children.iter().filter(|(_, a, u)| *a || *u).count();
    let term = format!(
        "(CNest {} {} {} {} {} {})",
        nlist_coq(cmds),
        coq::list(&obs),
        coq::z(o.status as i128),
        coq::b(o.deadlock || o.timeout),
        coq::b(o.panicked.is_some()),
        coq::nat(left)
    );
    let json = format!(
        "{{\"stream\":\"N\",\"script\":{},\"policy\":{},\"observed\":{},\"deadlock\":{},\"timeout\":{},\"left\":{},\"stderr\":{}}}",
        json_str(&script),
        json_str(&name),
        json_str(&obs.join(" ").replace("%Z", "")),
        o.deadlock,
        o.timeout,
        left,
        json_str(&o.stderr.chars().take(200).collect::<String>())
    );
    let procs: usize = cmds.iter().map(count_procs).sum();
    w.count(&format!("N.processes:{}", if procs >= 12 { "12+".to_string() } else { format!("{}", procs / 3 * 3) }));
    if script.contains("burst") {
        w.count("N.script:early-exiting consumer");
    }
    let key = if procs >= 3 { Some(format!("N:{script}:{name}")) } else { None };
    w.push(&term, &json, &[], key);
}

// ---------------------------------------------------------------------------
// Stream P: pipelines started with an unusual descriptor table

/// `lay[i]` = descriptor i (0..5) is open when the pipeline starts; `pre` = earlier
/// children that have been waited for; `wrap` = the whole thing runs in a subshell.
fn pipefd_script(lay: &[bool; 6], k: usize, st: i32, pre: usize, wrap: bool) -> String {
    let mut s = String::new();
    for j in 0..pre {
        s.push_str(match (j + k + st as usize) % 3 {
            0 => "( work 0 1 )\n",
            1 => "work 0 | work 0 2\n",
            _ => "work 0 3 & wait\n",
        });
    }
    let mut redirs: Vec<String> = vec![];
    for fd in 3..6 {
        if lay[fd] {
            redirs.push(format!("{fd}>&2"));
        }
    }
    if !lay[0] {
        redirs.push("0<&-".into());
    }
    if !lay[1] {
        redirs.push("1>&-".into());
    }
    if !lay[2] {
        redirs.push("2>&-".into());
    }
    let mut body = String::new();
    if !redirs.is_empty() {
        body.push_str(&format!("exec {}\n", redirs.join(" ")));
    }
    let mut ms: Vec<String> = vec!["{ fdmap 0; echo a; }".into()];
    for i in 1..k - 1 {
        ms.push(format!("{{ fdmap {i}; read y; echo \"${{y}}{i}\"; }}"));
    }
    ms.push(format!("{{ fdmap {}; read y; args got \"$y\"; exit {st}; }}", k - 1));
    body.push_str(&ms.join(" | "));
    body.push('\n');
    if wrap {
        s.push_str(&format!("(\n{body})\n"));
    } else {
        s.push_str(&body);
    }
    s.push_str("args \"$?\"\n");
    s
}

fn stream_p_case(w: &mut CasesWriter, lay: &[bool; 6], k: usize, st: i32, pre: usize, wrap: bool, pk: usize, seed: u64) {
    let script = pipefd_script(lay, k, st, pre, wrap);
    let (pol, name) = policy_of(pk, seed);
    let run = run_script(&script, pol);
    let o = &run.o;
    let obs: Vec<String> =
        o.trace.iter().filter(|t| t.in_main && t.kind == "args").map(|t| coq::z(t.status as i128)).collect();
    let got: Vec<String> = o
        .trace
        .iter()
        .filter(|t| t.kind == "args" && t.args.first().map(|a| a == "got").unwrap_or(false))
        .map(|t| coq::s(t.args.get(1).map(|x| x.as_str()).unwrap_or("")))
        .collect();
    let mut fds: Vec<(usize, String)> = o
        .trace
        .iter()
        .filter(|t| t.kind == "fdmap")
        .map(|t| {
            let i = t.args[0].parse::<usize>().unwrap_or(99);
            let l: Vec<String> =
                t.args[1].split_whitespace().map(|x| coq::nat(x.parse::<usize>().unwrap_or(99))).collect();
            (i, coq::list(&l))
        })
        .collect();
    fds.sort();
    let fds_t: Vec<String> = fds.iter().map(|(i, l)| format!("({}, {})", coq::nat(*i), l)).collect();
    let left = run.info.children.iter().filter(|(_, a, u)| *a || *u).count();
    let lay_t: Vec<String> = lay.iter().map(|b| coq::b(*b)).collect();
    let term = format!(
        "(CPipeFd {} {} {} {} {} {} {} {} {})",
        coq::list(&lay_t),
        coq::nat(k),
        coq::n(st as u64),
        coq::list(&got),
        coq::list(&fds_t),
        coq::list(&obs),
        coq::b(o.deadlock || o.timeout),
        coq::b(o.panicked.is_some()),
        coq::nat(left)
    );
    let json = format!(
        "{{\"stream\":\"P\",\"script\":{},\"policy\":{},\"observed\":{},\"got\":{},\"fds\":{},\"deadlock\":{},\"timeout\":{},\"left\":{},\"stderr\":{}}}",
        json_str(&script),
        json_str(&name),
        json_str(&obs.join(" ").replace("%Z", "")),
        json_str(&got.join(" ")),
        json_str(&fds_t.join(" ").replace("%nat", "")),
        o.deadlock,
        o.timeout,
        left,
        json_str(&o.stderr.chars().take(200).collect::<String>())
    );
    w.count(&format!("P.members:{k}"));
    w.count(&format!(
        "P.closed:{}",
        (0..3).filter(|i| !lay[*i]).map(|i| i.to_string()).collect::<Vec<_>>().join("+")
    ));
    w.count(&format!("P.extra-open(3..5):{}", (3..6).filter(|i| lay[*i]).count()));
    w.count(&format!("P.earlier-children-waited-for:{pre}"));
    w.count(if wrap { "P.where:subshell" } else { "P.where:main shell" });
    let key = if k >= 3 && lay[..3].iter().any(|b| !*b) { Some(format!("P:{script}:{name}")) } else { None };
    w.push(&term, &json, &[], key);
}

// ---------------------------------------------------------------------------
// Stream T: `wait` interrupted by a trapped signal

const SIGUSR1_NO: u64 = 124; // yash_env::system::virtual::SIGUSR1

fn trap_script(by_pid: bool, k: usize, st: i32, at: u32, gap: u32) -> String {
    let long = at + gap * k as u32 + 2;
    let mut s = String::from("trap 'args trapped' USR1\n");
    s.push_str(&format!("work {long} {st} &\np=$!\n"));
    if k > 0 {
        let mut h = format!("{{ work {at}; kill -USR1 2");
        for _ in 1..k {
            h.push_str(&format!("; work {gap}; kill -USR1 2"));
        }
        h.push_str("; } &\nh=$!\n");
        s.push_str(&h);
    }
    let w = if by_pid { "wait $p" } else { "wait" };
    for _ in 0..k + 2 {
        s.push_str(&format!("{w}\nargs \"$?\" probe\n"));
    }
    s.push_str("wait\nargs \"$?\" probe\n");
    s
}

fn stream_t_case(w: &mut CasesWriter, by_pid: bool, k: usize, st: i32, at: u32, gap: u32, pk: usize, seed: u64) {
    let script = trap_script(by_pid, k, st, at, gap);
    let (pol, name) = policy_of(pk, seed);
    let run = run_script(&script, pol);
    let o = &run.o;
    let recs: Vec<String> = o
        .trace
        .iter()
        .filter(|t| t.in_main && t.kind == "args")
        .map(|t| {
            let kind = if t.args.first().map(|a| a == "trapped").unwrap_or(false) { 0 } else { 1 };
            format!("({}, {})", coq::n(kind), coq::z(t.status as i128))
        })
        .collect();
    let left = run.info.children.iter().filter(|(_, a, u)| *a || *u).count();
    let term = format!(
        "(CTrap {} {} {} {} {} {} {} {} {})",
        coq::b(by_pid),
        coq::nat(k),
        coq::n(st as u64),
        coq::n(SIGUSR1_NO),
        coq::list(&recs),
        coq::z(o.status as i128),
        coq::b(o.deadlock || o.timeout),
        coq::b(o.panicked.is_some()),
        coq::nat(left)
    );
    let json = format!(
        "{{\"stream\":\"T\",\"script\":{},\"policy\":{},\"trace\":{},\"status\":{},\"deadlock\":{},\"timeout\":{},\"left\":{},\"stderr\":{}}}",
        json_str(&script),
        json_str(&name),
        json_str(&recs.join(" ").replace("%N", "").replace("%Z", "")),
        o.status,
        o.deadlock,
        o.timeout,
        left,
        json_str(&o.stderr.chars().take(200).collect::<String>())
    );
    w.count(&format!("T.signals:{k}"));
    w.count(if by_pid { "T.form:wait PID" } else { "T.form:wait" });
    let key = if k >= 1 { Some(format!("T:{script}:{name}")) } else { None };
    w.push(&term, &json, &[], key);
}

// ---------------------------------------------------------------------------

fn main() {
    let args = Args::parse();
    std::panic::set_hook(Box::new(|_| {}));
    if let Some(script) = args.opt("script") {
        // debugging aid: run one script under one policy and print what happened
        let (pol, _) = policy_of(
            match args.opt("policy").unwrap_or("first") {
                "first" => 0,
                "last" => 1,
                "mainlast" => 2,
                "mainfirst" => 3,
                _ => 4,
            },
            args.seed,
        );
        let run = run_script(script, pol);
        let o = &run.o;
        println!("status={} deadlock={} timeout={} panic={:?}", o.status, o.deadlock, o.timeout, o.panicked);
        println!("stdout={:?}\nstderr={:?}", o.stdout, o.stderr);
        for t in &o.trace {
            println!("  {} {:?} $?={} main={}", t.kind, t.args, t.status, t.in_main);
        }
        println!("polled={:?} children={:?}", run.info.polled, run.info.children);
        return;
    }
    let mut rng = Rng::new(args.seed);
    let mut w = CasesWriter::new(&args, "Yv.C13.Run", args.scale(25, 150));

    // ---- corpus -----------------------------------------------------------------
    {
        let mut r = rng.fork(1);
        // the F8 history: an older child is still running while a younger one has been reaped
        stream_k_case(
            &mut w,
            &mut r,
            0,
            Some(vec![
                KOp::Fork(7),
                KOp::Fork(0),
                KOp::Wait(None),
                KOp::Exit(1),
                KOp::Wait(None),
                KOp::Wait(None),
                KOp::Wait(Some(1)),
                KOp::Exit(0),
                KOp::Wait(None),
                KOp::Wait(None),
            ]),
        );
        // SIGCHLD: blocked exits collapse into one pending signal, delivered on unblock
        stream_k_case(
            &mut w,
            &mut r,
            0,
            Some(vec![
                KOp::Block,
                KOp::Catch(true),
                KOp::Fork(1),
                KOp::Fork(2),
                KOp::Exit(0),
                KOp::Exit(1),
                KOp::Take,
                KOp::Unblock,
                KOp::Take,
                KOp::Fork(3),
                KOp::Exit(2),
                KOp::Take,
                KOp::Wait(Some(2)),
                KOp::Wait(Some(2)),
                KOp::Wait(Some(9)),
            ]),
        );
        // stop / continue: reported by wait, collapsing under a blocked SIGCHLD
        stream_k_case(
            &mut w,
            &mut r,
            0,
            Some(vec![
                KOp::Block,
                KOp::Catch(true),
                KOp::Fork(5),
                KOp::Fork(6),
                KOp::Sig(true, 0),
                KOp::Wait(Some(0)),
                KOp::Wait(Some(0)),
                KOp::Sig(true, 0),
                KOp::Sig(false, 0),
                KOp::Wait(None),
                KOp::Sig(true, 1),
                KOp::Sig(false, 1),
                KOp::Wait(None),
                KOp::Unblock,
                KOp::Take,
                KOp::Exit(0),
                KOp::Wait(None),
                KOp::Exit(1),
                KOp::Wait(Some(1)),
            ]),
        );
        // F9 (fixed in /repo b52d679): a signal to a terminated process must not change its state
        stream_k_case_tagged(
            &mut w,
            &mut r,
            0,
            Some(vec![KOp::Fork(7), KOp::Exit(0), KOp::Sig(true, 0), KOp::Wait(Some(0)), KOp::Sig(false, 0), KOp::Wait(None)]),
            &[],
        );
        stream_x_case_tagged(
            &mut w,
            &mut r,
            "true &\np=$!\nwait $p\nargs \"$?\"\nkill -CONT $p\nkill -STOP $p\nwait\nargs \"$?\" end\n",
            2,
            &[],
        );
        let a = |w: u32, st: i32| Cmd::Async(works(w), st);
        let pl = |l: &[(u32, i32)], pf: bool| Cmd::Pipe(l.iter().map(|(w, st)| (works(*w), *st)).collect(), pf);
        let mut corpus: Vec<Vec<Cmd>> = vec![
            // F8: `work 3 7 & true & wait` must wait for the older child
            vec![a(3, 7), a(0, 0), Cmd::Wait(None), Cmd::Probe, Cmd::Wait(Some(0)), Cmd::Probe],
            vec![a(3, 7), a(0, 0), Cmd::Wait(Some(0)), Cmd::Probe, Cmd::Wait(None), Cmd::Probe],
            vec![pl(&[(2, 1), (0, 0), (1, 5)], false), Cmd::Probe, pl(&[(2, 1), (0, 0)], true), Cmd::Probe],
            vec![a(1, 9), pl(&[(0, 4)], false), Cmd::Probe, Cmd::Wait(Some(1)), Cmd::Probe, Cmd::Wait(Some(0)), Cmd::Probe, Cmd::Wait(Some(0)), Cmd::Probe, Cmd::Wait(Some(77)), Cmd::Probe],
            vec![Cmd::Wait(None), Cmd::Probe, Cmd::Wait(Some(0)), Cmd::Probe],
        ];
        // a foreground child that is stopped and continued later: the shell keeps waiting
        for kind in 0..6 {
            corpus.push(stop_prog(kind, 2, 2, 0, &mut r));
        }
        for p in &corpus {
            let script = render(p);
            for pk in 0..5 {
                let (pol, name) = policy_of(pk, 17 + pk as u64);
                let run = run_script(&script, pol);
                emit_s_case(&mut w, p, &script, &name, &run);
            }
        }
    }

    // ---- generated -----------------------------------------------------------------
    let nk = args.scale(300, 6000);
    for k in 0..nk {
        let mut r = rng.fork(1000 + k as u64);
        let nops = if args.thorough() { 4 + r.below(40) } else { 4 + r.below(26) };
        stream_k_case(&mut w, &mut r, nops, None);
    }

    // exhaustive schedules of tiny scripts (thorough)
    if args.thorough() {
        let nd = 120;
        for k in 0..nd {
            let mut r = rng.fork(5_000_000 + k as u64);
            let p = gen_prog(&mut r, 3, 1);
            let script = render(&p);
            let mut prefix: Vec<usize> = vec![];
            let mut count = 0;
            loop {
                let run = run_script(&script, Policy::Prefix(prefix.clone()));
                let name = format!("dfs:{count}");
                let next = next_prefix(&run.info.path, 14);
                emit_s_case(&mut w, &p, &script, &name, &run);
                count += 1;
                match next {
                    Some(n) if count < 150 => prefix = n,
                    _ => break,
                }
            }
            w.count(&format!("S.dfs-schedules:{}", if count >= 150 { "150(cut)".to_string() } else { format!("{}", (count + 9) / 10 * 10) }));
        }
    }

    let ns = args.scale(160, 2500);
    for k in 0..ns {
        let mut r = rng.fork(2_000_000 + k as u64);
        let pre = gen_s_prefix(&mut r);
        w.count(&format!("S.earlier-children-waited-for:{}", pre.iter().filter(|c| !matches!(c, Cmd::Wait(_))).count()));
        let p = gen_prog_after(&mut r, if args.thorough() { 8 } else { 6 }, 3, pre);
        let script = render(&p);
        let nsched = args.scale(4, 6);
        for j in 0..nsched {
            let pk = match j {
                0 => 0,
                1 => 1,
                _ => 2 + r.below(3),
            };
            let (pol, name) = policy_of(pk, r.next_u64() % 1_000_000);
            let run = run_script(&script, pol);
            emit_s_case(&mut w, &p, &script, &name, &run);
        }
    }

    // children that are stopped and continued while somebody waits for them
    let nstop = args.scale(40, 600);
    for k in 0..nstop {
        let mut r = rng.fork(6_000_000 + k as u64);
        // a quiet prefix, all of whose children have been waited for
        let mut p: Vec<Cmd> = if r.chance(1, 2) { gen_prog(&mut r, 3, 2) } else { vec![] };
        if !p.is_empty() {
            p.push(Cmd::Wait(None));
        }
        let base: usize = p
            .iter()
            .map(|c| match c {
                Cmd::Async(..) => 1,
                Cmd::Pipe(l, _) => l.len(),
                _ => 0,
            })
            .sum();
        let kind = r.below(6);
        let at = 1 + r.below(3) as u32;
        let gap = 1 + r.below(3) as u32;
        p.extend(stop_prog(kind, at, gap, base, &mut r));
        let script = render(&p);
        let nsched = args.scale(4, 6);
        for j in 0..nsched {
            let pk = match j {
                0 => 0,
                1 => 1,
                _ => 2 + r.below(3),
            };
            let (pol, name) = policy_of(pk, r.next_u64() % 1_000_000);
            let run = run_script(&script, pol);
            emit_s_case(&mut w, &p, &script, &name, &run);
        }
    }

    // producers larger than the pipe, consumers that exit without reading
    for (ci, cmds) in [
        vec![NCmd::Pipe(vec![vec![NCmd::Burst(5000)], vec![NCmd::Exit(5)]], false)],
        vec![NCmd::Pipe(vec![vec![NCmd::Burst(3000)], vec![NCmd::Work(0, 0)]], false)],
        vec![NCmd::Pipe(vec![vec![NCmd::Burst(5000)], vec![NCmd::Work(1, 3)], vec![NCmd::Work(0, 6)]], false)],
        vec![NCmd::Pipe(vec![vec![NCmd::Burst(5000)], vec![NCmd::Burst(4000)], vec![NCmd::Exit(7)]], false)],
        vec![NCmd::Pipe(vec![vec![NCmd::Burst(2049)], vec![NCmd::Work(2, 1)], vec![NCmd::Burst(3000)], vec![NCmd::Work(0, 9)]], false)],
    ]
    .iter()
    .enumerate()
    {
        for pk in 0..5 {
            stream_n_case(&mut w, cmds, pk, 100 + ci as u64);
        }
    }

    // a subshell that has to wait for a child of its own, forked AFTER the shell has
    // already waited for an earlier child (so that the state copied by fork --
    // signal mask, SIGCHLD disposition, the select mask of the concurrency layer
    // -- is the initialised one)
    {
        let wk = |st: i32| vec![NCmd::Work(0, st)];
        let after_wait: Vec<Vec<NCmd>> = vec![
            // (exit 1); ( (exit 3); exit $? )
            vec![NCmd::Sub(vec![NCmd::Exit(1)]), NCmd::Sub(vec![NCmd::Sub(wk(3))])],
            // : | :; ( exit 2 | exit 4 )
            vec![NCmd::Pipe(vec![wk(0), wk(0)], false), NCmd::Sub(vec![NCmd::Pipe(vec![vec![NCmd::Exit(2)], vec![NCmd::Exit(4)]], false)])],
            // true & wait $!; ( false & wait $! )
            vec![NCmd::AsyncWait(wk(0)), NCmd::Sub(vec![NCmd::AsyncWait(wk(1))])],
            // `wait` inside an asynchronous list started after an earlier foreground child
            vec![NCmd::Sub(wk(0)), NCmd::AsyncWait(vec![NCmd::AsyncWait(vec![NCmd::Work(1, 5)])])],
            // two earlier children, then a command substitution that waits for a pipeline
            vec![NCmd::Sub(wk(2)), NCmd::AsyncWait(wk(0)), NCmd::Subst(vec![NCmd::Pipe(vec![wk(0), wk(7)], false)])],
            // a pipeline member that waits for a subshell, after an earlier pipeline
            vec![NCmd::Pipe(vec![wk(1), wk(0)], false), NCmd::Pipe(vec![vec![NCmd::Sub(wk(3))], vec![NCmd::AsyncWait(wk(6))]], false)],
        ];
        for (ci, cmds) in after_wait.iter().enumerate() {
            for pk in 0..5 {
                w.count("N.script:nested tree forked after an earlier wait (corpus)");
                stream_n_case(&mut w, cmds, pk, 300 + ci as u64);
            }
        }
    }

    // nested process trees against the sequential reference
    let nn = args.scale(60, 1200);
    for k in 0..nn {
        let mut r = rng.fork(10_000_000 + k as u64);
        let n = 1 + r.below(4);
        // the pipefail option is inherited by every subshell: one setting per script
        let early = r.chance(1, 3);
        let pf = !early && r.chance(1, 3);
        fn set_pf(c: &mut NCmd, pf: bool) {
            match c {
                NCmd::Pipe(ms, f) => {
                    *f = pf;
                    for m in ms {
                        for x in m {
                            set_pf(x, pf);
                        }
                    }
                }
                NCmd::Sub(b) | NCmd::AsyncWait(b) | NCmd::Subst(b) => {
                    for x in b {
                        set_pf(x, pf);
                    }
                }
                _ => {}
            }
        }
        let mut cmds: Vec<NCmd> = (0..n)
            .map(|_| {
                let mut c = gen_ncmd(&mut r, if early { 2 } else { 3 });
                set_pf(&mut c, pf);
                c
            })
            .collect();
        // 0, 1 or 2 earlier children that are waited for before the trees are forked
        let npre = r.below(3);
        for _ in 0..npre {
            let st = *r.pick(&[0, 1, 3]);
            let body = vec![NCmd::Work(r.below(2) as u32, st)];
            let c = match r.below(3) {
                0 => NCmd::Sub(body),
                1 => NCmd::Pipe(vec![vec![NCmd::Work(r.below(2) as u32, 0)], body], pf),
                _ => NCmd::AsyncWait(body),
            };
            cmds.insert(0, c);
        }
        w.count(&format!("N.earlier-children-waited-for:{npre}"));
        if early {
            let at = r.below(cmds.len() + 1);
            cmds.insert(at, gen_early_exit_pipe(&mut r));
            if r.chance(1, 2) {
                cmds.push(NCmd::Sub(vec![gen_early_exit_pipe(&mut r), NCmd::Exit(4)]));
            }
        }
        let nsched = args.scale(3, 5);
        for j in 0..nsched {
            let pk = if j == 0 { 0 } else if j == 1 { 1 } else { 2 + r.below(3) };
            stream_n_case(&mut w, &cmds, pk, r.next_u64() % 1_000_000);
        }
    }

    // pipelines of 2..5 commands under every layout of the descriptors 0, 1, 2 (open /
    // closed), with extra descriptors open at 3..5, after 0..2 earlier children
    {
        let mut r = rng.fork(11_000_000);
        // the minimal case first: `exec >&-; echo a | ... | { read y; ... }`
        for pk in 0..2 {
            stream_p_case(&mut w, &[true, false, true, false, false, false], 3, 0, 0, false, pk, 7);
        }
        let reps = args.scale(1, 6);
        for low in 0..8usize {
            for k in 2..=5usize {
                for _ in 0..reps {
                    let hi = r.below(8);
                    let lay = [low & 1 == 0, low & 2 == 0, low & 4 == 0, hi & 1 != 0, hi & 2 != 0, hi & 4 != 0];
                    let st = *r.pick(&[0, 0, 1, 5, 42]);
                    let pre = r.below(3);
                    let wrap = r.chance(1, 2);
                    let pk = r.below(5);
                    stream_p_case(&mut w, &lay, k, st, pre, wrap, pk, r.next_u64() % 1_000_000);
                }
            }
        }
    }

    // `wait` interrupted by a trapped signal
    {
        let mut r = rng.fork(9_000_000);
        for by_pid in [true, false] {
            for k in 0..=3usize {
                let reps = args.scale(3, 40);
                for j in 0..reps {
                    let st = *r.pick(&[0, 1, 7, 42]);
                    let at = 1 + r.below(3) as u32;
                    let gap = 1 + r.below(3) as u32;
                    let pk = if j == 0 { 0 } else if j == 1 { 1 } else { 2 + r.below(3) };
                    stream_t_case(&mut w, by_pid, k, st, at, gap, pk, r.next_u64() % 1_000_000);
                }
            }
        }
    }

    let nx = args.scale(80, 1500);
    for k in 0..nx {
        let mut r = rng.fork(3_000_000 + k as u64);
        let script = gen_nested(&mut r);
        stream_x_case(&mut w, &mut r, &script, args.scale(4, 6));
    }

    let _ = catch_unwind(AssertUnwindSafe(|| ()));
    w.finish(
        "K: kernel interface operations (non-trivial = at least two children and a reported exit); \
         S: scripts of asynchronous children / pipelines / subshells / wait / probes under a chosen schedule \
         (non-trivial = at least two children and a scheduling point with a choice; distinct = script x schedule); \
         X: nested race-free scripts under several schedules (non-trivial = at least four processes); \
         P: pipelines started with an unusual descriptor table (non-trivial = three or more members and one of 0, 1, 2 closed)",
    );
}
