//! C13 — children are started, awaited and reaped correctly under every schedule.
//!
//! Streams (Coq side: coq/C13/Run.v):
//!
//! * K `CKern`: fork / exit / wait / sigmask / sigaction / caught_signals on the
//!   real `VirtualSystem`, in lock step with the kernel part of the model, with a
//!   snapshot of the process table after every operation.
//! * S `CScript`: scripts rendered from a list of model commands (asynchronous
//!   children, pipelines, subshells, `wait`, `wait PID`, probes of `$?`/`$!`), run
//!   on the simulated OS under a schedule-controlling executor: seeded random
//!   policies, and depth-first enumeration of all schedules for tiny scripts
//!   (thorough).
//! * X `CCross`: generated race-free scripts with nesting (subshells, pipelines
//!   that move data, command substitutions, asynchronous lists) run under several
//!   schedules; the main shell's observations must be identical.
#[path = "c13_sched.rs"]
mod sched;

use futures_util::FutureExt as _;
use sched::{Policy, Sched, SchedInfo, next_prefix, run_shell_sched};
use std::cell::Cell;
use std::future::Future;
use std::panic::{AssertUnwindSafe, catch_unwind};
use std::pin::Pin;
use std::rc::Rc;
use std::task::{Context, Poll};
use std::time::Duration;
use yash_env::builtin::{Builtin, Type};
use yash_env::job::{Pid, ProcessResult, ProcessState};
use yash_env::semantics::{ExitStatus, Field};
use yash_env::system::concurrency::Sleep as _;
use yash_env::system::r#virtual::sigset::Sigset as VSigset;
use yash_env::system::r#virtual::{SIGCHLD, VirtualSystem};
use yash_env::system::{
    CaughtSignals as _, Disposition, Errno, Exit as _, Fork as _, Sigaction as _, Sigmask as _,
    SigmaskOp, Sigset as _, Wait as _,
};
use yv_harness::cli::Args;
use yv_harness::out::CasesWriter;
use yv_harness::rng::Rng;
use yv_harness::vsh::{BuiltinFuture, Outcome, RunOpts, VEnv};
use yv_harness::{coq, json_str};

// ---------------------------------------------------------------------------
// built-ins

/// `work N [STATUS]`: sleeps N times one virtual millisecond, returns STATUS.
fn work_main(env: &mut VEnv, args: Vec<Field>) -> BuiltinFuture<'_> {
    Box::pin(async move {
        let n = args.first().and_then(|f| f.value.parse::<u32>().ok()).unwrap_or(1);
        let st = args.get(1).and_then(|f| f.value.parse::<i32>().ok()).unwrap_or(0);
        for _ in 0..n {
            env.system.sleep(Duration::from_millis(1)).await;
        }
        ExitStatus(st).into()
    })
}

pub fn install(env: &mut VEnv) {
    env.builtins.insert("work", Builtin::new(Type::Mandatory, work_main));
}

// ---------------------------------------------------------------------------
// Stream K

struct Gate(Rc<Cell<bool>>);
impl Future for Gate {
    type Output = ();
    fn poll(self: Pin<&mut Self>, _: &mut Context<'_>) -> Poll<()> {
        if self.0.get() { Poll::Ready(()) } else { Poll::Pending }
    }
}

#[derive(Clone, Debug)]
enum KOp {
    Fork(i32),
    Exit(usize),
    Wait(Option<usize>),
    Block,
    Unblock,
    Catch(bool),
    Take,
}

fn stream_k_case(w: &mut CasesWriter, r: &mut Rng, nops: usize, forced: Option<Vec<KOp>>) {
    WATCHDOG.with(|wd| wd.tick("stream K"));
    let vs = VirtualSystem::new();
    let state = Rc::clone(&vs.state);
    let sched = Sched::new();
    state.borrow_mut().executor = Some(Rc::new(sched.clone()));
    let mut gates: Vec<Rc<Cell<bool>>> = vec![];
    let mut running: Vec<usize> = vec![];
    let mut hist = vec![];
    let mut human = vec![];
    let chld = {
        let mut s = VSigset::new();
        s.insert(SIGCHLD).unwrap();
        s
    };
    let mut forced_it = forced.clone().map(|f| f.into_iter());
    let n = forced.as_ref().map_or(nops, |f| f.len());
    let mut reaped_any = false;
    let mut collapsed = false;
    let mut blocked = false;
    let mut exits_while_blocked = 0;
    for _ in 0..n {
        let op = if let Some(it) = forced_it.as_mut() {
            it.next().unwrap()
        } else {
            loop {
                let op = match r.below(100) {
                    0..=19 => KOp::Fork(*r.pick(&[0, 0, 1, 2, 7, 42, 127, 255])),
                    20..=39 => {
                        if running.is_empty() {
                            continue;
                        }
                        KOp::Exit(running[r.below(running.len())])
                    }
                    40..=54 => KOp::Wait(None),
                    55..=74 => KOp::Wait(Some(r.below(gates.len() + 2))),
                    75..=80 => KOp::Block,
                    81..=86 => KOp::Unblock,
                    87..=92 => KOp::Catch(r.chance(3, 4)),
                    _ => KOp::Take,
                };
                if gates.len() >= 7 && matches!(op, KOp::Fork(_)) {
                    continue;
                }
                break op;
            }
        };
        let (op_t, obs_t, desc) = match &op {
            KOp::Fork(st) => {
                let gate = Rc::new(Cell::new(false));
                let st2 = *st;
                let (res, _) = vs.run_in_child_process(
                    Rc::clone(&gate),
                    async move |child: VirtualSystem, gate: Rc<Cell<bool>>| {
                        Gate(gate).await;
                        child.exit(ExitStatus(st2)).await;
                    },
                );
                let idx = match res {
                    Ok(pid) => (pid.0 - 3) as usize,
                    Err(_) => 9999,
                };
                sched.task_count();
                gates.push(gate);
                running.push(gates.len() - 1);
                (
                    format!("(KFork 0 {})", coq::n(*st as u64)),
                    format!("(BPid {})", coq::nat(idx)),
                    format!("fork({st}) -> child {idx}"),
                )
            }
            KOp::Exit(i) => {
                gates[*i].set(true);
                sched.poll(*i);
                running.retain(|x| x != i);
                if blocked {
                    exits_while_blocked += 1;
                    if exits_while_blocked >= 2 {
                        collapsed = true;
                    }
                }
                (format!("(KExit {})", coq::nat(*i)), "BUnit".into(), format!("exit({i})"))
            }
            KOp::Wait(t) => {
                let pid = match t {
                    None => Pid(-1),
                    Some(i) => Pid(3 + *i as i32),
                };
                let res = vs.wait(pid);
                let (o, d) = match res {
                    Ok(Some((p, ProcessState::Halted(ProcessResult::Exited(st))))) => {
                        reaped_any = true;
                        (
                            format!("(WSome {} {})", coq::nat((p.0 - 3) as usize), coq::n(st.0 as u64)),
                            format!("child {} exited {}", p.0 - 3, st.0),
                        )
                    }
                    Ok(Some((p, other))) => (
                        // a state the model does not know: the oracle rejects it
                        format!("(WSome {} 99999%N)", coq::nat((p.0 - 3) as usize)),
                        format!("child {} {:?}", p.0 - 3, other),
                    ),
                    Ok(None) => ("WNone".into(), "none yet".into()),
                    Err(Errno::ECHILD) => ("WEchild".into(), "ECHILD".into()),
                    Err(e) => ("(WSome 99999 0%N)".into(), format!("{e:?}")),
                };
                let tt = match t {
                    None => "TAny".to_string(),
                    Some(i) => format!("(TPid {})", coq::nat(*i)),
                };
                (format!("(KWait {tt})"), format!("(BWait {o})"), format!("wait({}) -> {d}", pid.0))
            }
            KOp::Block => {
                vs.sigmask(Some((SigmaskOp::Add, &chld)), None).now_or_never().unwrap().unwrap();
                blocked = true;
                exits_while_blocked = 0;
                ("KBlock".into(), "BUnit".into(), "block".into())
            }
            KOp::Unblock => {
                vs.sigmask(Some((SigmaskOp::Remove, &chld)), None).now_or_never().unwrap().unwrap();
                blocked = false;
                ("KUnblock".into(), "BUnit".into(), "unblock".into())
            }
            KOp::Catch(b) => {
                vs.sigaction(SIGCHLD, if *b { Disposition::Catch } else { Disposition::Default }).unwrap();
                (format!("(KCatch {})", coq::b(*b)), "BUnit".into(), format!("sigaction({b})"))
            }
            KOp::Take => {
                let l = vs.caught_signals();
                let nn = l.iter().filter(|s| **s == SIGCHLD).count();
                ("KTake".into(), format!("(BTaken {})", coq::nat(nn)), format!("caught -> {nn}"))
            }
        };
        // snapshot
        let (kids, pending) = {
            let st = state.borrow();
            let kids: Vec<String> = st
                .processes
                .iter()
                .filter(|(pid, _)| pid.0 != 2)
                .map(|(_, p)| {
                    let c = if p.state().is_alive() {
                        0
                    } else if p.state_has_changed() {
                        1
                    } else {
                        2
                    };
                    coq::nat(c)
                })
                .collect();
            let pending = st.processes[&Pid(2)].pending_signals().contains(SIGCHLD) == Ok(true);
            (kids, pending)
        };
        hist.push(format!("({op_t}, {obs_t}, ({}, {}))", coq::list(&kids), coq::b(pending)));
        human.push(format!("{desc} [{} pending={pending}]", kids.join("").replace("%nat", "")));
        w.count(match op {
            KOp::Fork(_) => "K.op:fork",
            KOp::Exit(_) => "K.op:exit",
            KOp::Wait(None) => "K.op:wait(-1)",
            KOp::Wait(Some(_)) => "K.op:wait(pid)",
            KOp::Block | KOp::Unblock => "K.op:sigmask",
            KOp::Catch(_) => "K.op:sigaction",
            KOp::Take => "K.op:caught_signals",
        });
    }
    sched.clear();
    let term = format!("(CKern {})", coq::list(&hist));
    let json = format!(
        "{{\"stream\":\"K\",\"ops\":[{}]}}",
        human.iter().map(|h| json_str(h)).collect::<Vec<_>>().join(",")
    );
    if collapsed {
        w.count("K.case:two-exits-while-blocked");
    }
    let key = if reaped_any && gates.len() >= 2 { Some(format!("K:{}", human.join(";"))) } else { None };
    w.push(&term, &json, &[], key);
}

// ---------------------------------------------------------------------------
// Stream S

#[derive(Clone, Debug)]
enum Cmd {
    Async(u32, i32),
    Pipe(Vec<(u32, i32)>, bool),
    Wait(Option<usize>),
    Probe,
}

fn cmds_coq(p: &[Cmd]) -> String {
    let v: Vec<String> = p
        .iter()
        .map(|c| match c {
            Cmd::Async(w, st) => format!("(CAsync {} {})", coq::nat(*w as usize), coq::n(*st as u64)),
            Cmd::Pipe(l, pf) => {
                let m: Vec<String> =
                    l.iter().map(|(w, st)| format!("({}, {})", coq::nat(*w as usize), coq::n(*st as u64))).collect();
                format!("(CPipe {} {})", coq::list(&m), coq::b(*pf))
            }
            Cmd::Wait(None) => "(CWait None)".into(),
            Cmd::Wait(Some(i)) => format!("(CWait (Some {}))", coq::nat(*i)),
            Cmd::Probe => "CProbe".into(),
        })
        .collect();
    coq::list(&v)
}

fn render(p: &[Cmd]) -> String {
    let mut s = String::new();
    let mut nkids = 0usize;
    let mut asyncs: Vec<usize> = vec![];
    let mut pipefail = false;
    for c in p {
        match c {
            Cmd::Async(w, st) => {
                s.push_str(&format!("work {w} {st} &\np{nkids}=$!\n"));
                asyncs.push(nkids);
                nkids += 1;
            }
            Cmd::Pipe(l, pf) => {
                if *pf != pipefail {
                    s.push_str(if *pf { "set -o pipefail\n" } else { "set +o pipefail\n" });
                    pipefail = *pf;
                }
                if l.len() == 1 {
                    s.push_str(&format!("( work {} {} )\n", l[0].0, l[0].1));
                } else {
                    let m: Vec<String> = l.iter().map(|(w, st)| format!("work {w} {st}")).collect();
                    s.push_str(&format!("{}\n", m.join(" | ")));
                }
                nkids += l.len();
            }
            Cmd::Wait(None) => s.push_str("wait\n"),
            Cmd::Wait(Some(i)) => {
                if asyncs.contains(i) {
                    s.push_str(&format!("wait $p{i}\n"));
                } else {
                    s.push_str(&format!("wait {}\n", 3 + i));
                }
            }
            Cmd::Probe => s.push_str("args \"$!\"\n"),
        }
    }
    s
}

fn gen_prog(r: &mut Rng, maxlen: usize, maxw: u32) -> Vec<Cmd> {
    let n = 1 + r.below(maxlen);
    let mut p = vec![];
    let mut nkids = 0usize;
    let mut asyncs: Vec<usize> = vec![];
    let sts = [0, 0, 0, 1, 2, 7, 42, 127, 255];
    for _ in 0..n {
        match r.below(100) {
            0..=29 => {
                p.push(Cmd::Async(r.below(maxw as usize + 1) as u32, *r.pick(&sts)));
                asyncs.push(nkids);
                nkids += 1;
            }
            30..=54 => {
                let k = 1 + r.below(4);
                let l: Vec<(u32, i32)> =
                    (0..k).map(|_| (r.below(maxw as usize + 1) as u32, *r.pick(&sts))).collect();
                nkids += k;
                p.push(Cmd::Pipe(l, r.chance(1, 3)));
            }
            55..=64 => p.push(Cmd::Wait(None)),
            65..=89 => {
                let t = match r.below(10) {
                    0..=5 if !asyncs.is_empty() => *r.pick(&asyncs),
                    6..=7 if nkids > 0 => r.below(nkids),
                    _ => nkids + 5 + r.below(50),
                };
                p.push(Cmd::Wait(Some(t)));
            }
            _ => p.push(Cmd::Probe),
        }
        if r.chance(2, 3) {
            p.push(Cmd::Probe);
        }
    }
    if r.chance(2, 3) {
        p.push(Cmd::Wait(None));
        p.push(Cmd::Probe);
    }
    p
}

struct SRun {
    o: Outcome,
    info: SchedInfo,
}

thread_local! {
    static WATCHDOG: sched::Watchdog = sched::Watchdog::start(Duration::from_secs(60));
}

fn run_script(script: &str, policy: Policy) -> SRun {
    WATCHDOG.with(|wd| wd.tick(script));
    let (o, info) = run_shell_sched(
        RunOpts { argv: vec!["-c".into(), script.into()], ..Default::default() },
        |env, _| install(env),
        policy,
        200_000,
    );
    SRun { o, info }
}

fn emit_s_case(w: &mut CasesWriter, p: &[Cmd], script: &str, pol_name: &str, run: &SRun) {
    let o = &run.o;
    let trace: Vec<String> = o
        .trace
        .iter()
        .filter(|t| t.kind == "args" && t.in_main)
        .map(|t| {
            let bg = t.args.first().and_then(|a| a.parse::<i64>().ok()).map(|pid| coq::nat((pid - 3).max(0) as usize));
            // a negative status is outside N: make it visible as a large number
            let st = if t.status < 0 { 1_000_000 + (-t.status) as u64 } else { t.status as u64 };
            format!("({}, {})", coq::n(st), coq::opt(bg))
        })
        .collect();
    let left: Vec<String> = run
        .info
        .children
        .iter()
        .filter(|(_, alive, unreaped)| *alive || *unreaped)
        .map(|(pid, _, _)| coq::nat((*pid - 3) as usize))
        .collect();
    let term = format!(
        "(CScript {} (mkSObs {} {} {} {} {}))",
        cmds_coq(p),
        coq::list(&trace),
        coq::z(o.status as i128),
        coq::b(o.deadlock || o.timeout),
        coq::b(o.panicked.is_some()),
        coq::list(&left)
    );
    let json = format!(
        "{{\"stream\":\"S\",\"script\":{},\"policy\":{},\"trace\":{},\"status\":{},\"deadlock\":{},\"timeout\":{},\"panic\":{},\"children\":{},\"choices\":{},\"stderr\":{}}}",
        json_str(script),
        json_str(pol_name),
        json_str(&trace.join(" ").replace("%N", "").replace("%nat", "")),
        o.status,
        o.deadlock,
        o.timeout,
        json_str(&o.panicked.clone().unwrap_or_default()),
        json_str(&format!("{:?}", run.info.children)),
        json_str(&format!("{:?}", run.info.path.iter().map(|(k, _)| *k).collect::<Vec<_>>())),
        json_str(&o.stderr.chars().take(300).collect::<String>())
    );
    let nk = run.info.children.len();
    w.count(&format!("S.children:{}", nk.min(6)));
    w.count(&format!("S.policy:{}", pol_name.split(':').next().unwrap()));
    let branches = run.info.path.iter().filter(|(_, n)| *n > 1).count();
    w.count(&format!("S.choice-points:{}", if branches >= 8 { "8+".to_string() } else { branches.to_string() }));
    let key = if nk >= 2 && branches >= 1 {
        Some(format!("S:{script}:{:?}", run.info.path.iter().map(|(k, _)| *k).collect::<Vec<_>>()))
    } else {
        None
    };
    w.push(&term, &json, &[], key);
}

fn policy_of(kind: usize, seed: u64) -> (Policy, String) {
    match kind {
        0 => (Policy::First, "first".into()),
        1 => (Policy::Last, "last".into()),
        2 => (Policy::MainLast(Rng::new(seed)), format!("mainlast:{seed}")),
        3 => (Policy::MainFirst(Rng::new(seed)), format!("mainfirst:{seed}")),
        _ => (Policy::Random(Rng::new(seed)), format!("random:{seed}")),
    }
}

// ---------------------------------------------------------------------------
// Stream X: nested race-free scripts

fn gen_inner(r: &mut Rng, depth: usize, var: &mut usize) -> String {
    // a command list that writes one short line to its standard output
    let word = *r.pick(&["a", "bc", "d e", "0", "x1"]);
    match r.below(if depth == 0 { 3 } else { 8 }) {
        0 => format!("echo {word}"),
        1 => format!("work {}; echo {word}", r.below(3)),
        2 => format!("work {} {} ; echo $?", r.below(3), r.below(4)),
        3 => format!("( work {}; echo {word} ) | cat", r.below(3)),
        4 => format!("work {} {} & wait $!; echo $?", r.below(3), *r.pick(&[0, 3, 9])),
        5 => format!("echo \"$( {} )\"", gen_inner(r, depth - 1, var)),
        6 => format!(
            "{{ work {}; echo {word}; }} | {{ work {}; cat; }} | cat",
            r.below(3),
            r.below(3)
        ),
        _ => format!("( {} )", gen_inner(r, depth - 1, var)),
    }
}

fn gen_nested(r: &mut Rng) -> String {
    let mut s = String::new();
    let mut var = 0usize;
    let mut pending: Vec<usize> = vec![];
    let n = 2 + r.below(6);
    for _ in 0..n {
        match r.below(10) {
            0..=1 => {
                s.push_str(&format!("( work {}; exit {} )\nargs \"$?\"\n", r.below(3), r.below(5)));
            }
            2..=3 => {
                let v = var;
                var += 1;
                s.push_str(&format!("v{v}=$( {} )\nargs \"$?\" \"$v{v}\"\n", gen_inner(r, 2, &mut var)));
            }
            4 => {
                let v = var;
                var += 1;
                s.push_str(&format!(
                    "{{ work {} {}; }} &\nq{v}=$!\n",
                    r.below(4),
                    *r.pick(&[0, 1, 5, 100])
                ));
                pending.push(v);
            }
            5 => {
                if let Some(v) = pending.pop() {
                    s.push_str(&format!("wait $q{v}\nargs \"$?\"\n"));
                } else {
                    s.push_str("wait\nargs \"$?\"\n");
                }
            }
            6 => {
                s.push_str(&format!(
                    "work {} {} | ( work {}; exit {} ) | work {} {}\nargs \"$?\"\n",
                    r.below(3),
                    r.below(3),
                    r.below(3),
                    r.below(3),
                    r.below(3),
                    r.below(3)
                ));
            }
            7 => {
                let v = var;
                var += 1;
                s.push_str(&format!(
                    "v{v}=$( {{ work {}; echo one; work {}; echo two; }} | {{ cat; echo three; }} )\nargs \"$v{v}\"\n",
                    r.below(3),
                    r.below(3)
                ));
            }
            8 => {
                s.push_str(&format!(
                    "( ( work {} {} ) ; ( work {} ; exit {} ) )\nargs \"$?\"\n",
                    r.below(3),
                    r.below(3),
                    r.below(3),
                    r.below(6)
                ));
            }
            _ => {
                s.push_str(&format!(
                    "set -o pipefail\nwork {} {} | work {} {}\nargs \"$?\"\nset +o pipefail\n",
                    r.below(3),
                    *r.pick(&[0, 4]),
                    r.below(3),
                    *r.pick(&[0, 6])
                ));
            }
        }
    }
    s.push_str("wait\nargs \"$?\" end\n");
    s
}

fn gobs_term(run: &SRun) -> String {
    let o = &run.o;
    let recs: Vec<String> = o
        .trace
        .iter()
        .filter(|t| t.in_main)
        .map(|t| {
            let a: Vec<String> = t.args.iter().map(|x| coq::s(x)).collect();
            format!("({}, {})", coq::z(t.status as i128), coq::list(&a))
        })
        .collect();
    let left = run.info.children.iter().filter(|(_, alive, unreaped)| *alive || *unreaped).count();
    format!(
        "({}, {}, {}, {}, {})",
        coq::list(&recs),
        coq::z(o.status as i128),
        coq::b(o.deadlock || o.timeout),
        coq::b(o.panicked.is_some()),
        coq::nat(left)
    )
}

fn stream_x_case(w: &mut CasesWriter, r: &mut Rng, script: &str, nsched: usize) {
    let mut terms = vec![];
    let mut descr = vec![];
    let mut maxkids = 0;
    for j in 0..nsched {
        let (pol, name) = policy_of(if j == 0 { 0 } else if j == 1 { 1 } else { 2 + r.below(3) }, r.next_u64() % 1_000_000);
        let run = run_script(script, pol);
        maxkids = maxkids.max(run.info.children.len());
        let main_trace: Vec<String> = run
            .o
            .trace
            .iter()
            .filter(|t| t.in_main)
            .map(|t| format!("{}:{}", t.status, t.args.join(",")))
            .collect();
        descr.push(format!(
            "{{\"policy\":{},\"trace\":{},\"status\":{},\"deadlock\":{},\"timeout\":{},\"panic\":{},\"left\":{},\"stderr\":{}}}",
            json_str(&name),
            json_str(&main_trace.join(" | ")),
            run.o.status,
            run.o.deadlock,
            run.o.timeout,
            json_str(&run.o.panicked.clone().unwrap_or_default()),
            run.info.children.iter().filter(|(_, a, u)| *a || *u).count(),
            json_str(&run.o.stderr.chars().take(200).collect::<String>())
        ));
        terms.push(gobs_term(&run));
    }
    let term = format!("(CCross true {})", coq::list(&terms));
    let json = format!("{{\"stream\":\"X\",\"script\":{},\"runs\":[{}]}}", json_str(script), descr.join(","));
    w.count(&format!("X.processes:{}", (maxkids + 1).min(9)));
    let key = if maxkids >= 3 { Some(format!("X:{script}")) } else { None };
    w.push(&term, &json, &[], key);
}

// ---------------------------------------------------------------------------

fn main() {
    let args = Args::parse();
    std::panic::set_hook(Box::new(|_| {}));
    if let Some(script) = args.opt("script") {
        // debugging aid: run one script under one policy and print what happened
        let (pol, _) = policy_of(
            match args.opt("policy").unwrap_or("first") {
                "first" => 0,
                "last" => 1,
                "mainlast" => 2,
                "mainfirst" => 3,
                _ => 4,
            },
            args.seed,
        );
        let run = run_script(script, pol);
        let o = &run.o;
        println!("status={} deadlock={} timeout={} panic={:?}", o.status, o.deadlock, o.timeout, o.panicked);
        println!("stdout={:?}\nstderr={:?}", o.stdout, o.stderr);
        for t in &o.trace {
            println!("  {} {:?} $?={} main={}", t.kind, t.args, t.status, t.in_main);
        }
        println!("polled={:?} children={:?}", run.info.polled, run.info.children);
        return;
    }
    let mut rng = Rng::new(args.seed);
    let mut w = CasesWriter::new(&args, "Yv.C13.Run", args.scale(25, 150));

    // ---- corpus -----------------------------------------------------------------
    {
        let mut r = rng.fork(1);
        // the F8 history: an older child is still running while a younger one has been reaped
        stream_k_case(
            &mut w,
            &mut r,
            0,
            Some(vec![
                KOp::Fork(7),
                KOp::Fork(0),
                KOp::Wait(None),
                KOp::Exit(1),
                KOp::Wait(None),
                KOp::Wait(None),
                KOp::Wait(Some(1)),
                KOp::Exit(0),
                KOp::Wait(None),
                KOp::Wait(None),
            ]),
        );
        // SIGCHLD: blocked exits collapse into one pending signal, delivered on unblock
        stream_k_case(
            &mut w,
            &mut r,
            0,
            Some(vec![
                KOp::Block,
                KOp::Catch(true),
                KOp::Fork(1),
                KOp::Fork(2),
                KOp::Exit(0),
                KOp::Exit(1),
                KOp::Take,
                KOp::Unblock,
                KOp::Take,
                KOp::Fork(3),
                KOp::Exit(2),
                KOp::Take,
                KOp::Wait(Some(2)),
                KOp::Wait(Some(2)),
                KOp::Wait(Some(9)),
            ]),
        );
        let corpus: Vec<Vec<Cmd>> = vec![
            // F8: `work 3 7 & true & wait` must wait for the older child
            vec![Cmd::Async(3, 7), Cmd::Async(0, 0), Cmd::Wait(None), Cmd::Probe, Cmd::Wait(Some(0)), Cmd::Probe],
            vec![Cmd::Async(3, 7), Cmd::Async(0, 0), Cmd::Wait(Some(0)), Cmd::Probe, Cmd::Wait(None), Cmd::Probe],
            vec![Cmd::Pipe(vec![(2, 1), (0, 0), (1, 5)], false), Cmd::Probe, Cmd::Pipe(vec![(2, 1), (0, 0)], true), Cmd::Probe],
            vec![Cmd::Async(1, 9), Cmd::Pipe(vec![(0, 4)], false), Cmd::Probe, Cmd::Wait(Some(1)), Cmd::Probe, Cmd::Wait(Some(0)), Cmd::Probe, Cmd::Wait(Some(0)), Cmd::Probe, Cmd::Wait(Some(77)), Cmd::Probe],
            vec![Cmd::Wait(None), Cmd::Probe, Cmd::Wait(Some(0)), Cmd::Probe],
        ];
        for p in &corpus {
            let script = render(p);
            for pk in 0..5 {
                let (pol, name) = policy_of(pk, 17 + pk as u64);
                let run = run_script(&script, pol);
                emit_s_case(&mut w, p, &script, &name, &run);
            }
        }
    }

    // ---- generated -----------------------------------------------------------------
    let nk = args.scale(300, 6000);
    for k in 0..nk {
        let mut r = rng.fork(1000 + k as u64);
        let nops = if args.thorough() { 4 + r.below(40) } else { 4 + r.below(26) };
        stream_k_case(&mut w, &mut r, nops, None);
    }

    // exhaustive schedules of tiny scripts (thorough)
    if args.thorough() {
        let nd = 120;
        for k in 0..nd {
            let mut r = rng.fork(5_000_000 + k as u64);
            let p = gen_prog(&mut r, 3, 1);
            let script = render(&p);
            let mut prefix: Vec<usize> = vec![];
            let mut count = 0;
            loop {
                let run = run_script(&script, Policy::Prefix(prefix.clone()));
                let name = format!("dfs:{count}");
                let next = next_prefix(&run.info.path, 14);
                emit_s_case(&mut w, &p, &script, &name, &run);
                count += 1;
                match next {
                    Some(n) if count < 150 => prefix = n,
                    _ => break,
                }
            }
            w.count(&format!("S.dfs-schedules:{}", if count >= 150 { "150(cut)".to_string() } else { format!("{}", (count + 9) / 10 * 10) }));
        }
    }

    let ns = args.scale(160, 2500);
    for k in 0..ns {
        let mut r = rng.fork(2_000_000 + k as u64);
        let p = gen_prog(&mut r, if args.thorough() { 8 } else { 6 }, 3);
        let script = render(&p);
        let nsched = args.scale(4, 6);
        for j in 0..nsched {
            let pk = match j {
                0 => 0,
                1 => 1,
                _ => 2 + r.below(3),
            };
            let (pol, name) = policy_of(pk, r.next_u64() % 1_000_000);
            let run = run_script(&script, pol);
            emit_s_case(&mut w, &p, &script, &name, &run);
        }
    }

    let nx = args.scale(80, 1500);
    for k in 0..nx {
        let mut r = rng.fork(3_000_000 + k as u64);
        let script = gen_nested(&mut r);
        stream_x_case(&mut w, &mut r, &script, args.scale(4, 6));
    }

    let _ = catch_unwind(AssertUnwindSafe(|| ()));
    w.finish(
        "K: kernel interface operations (non-trivial = at least two children and a reported exit); \
         S: scripts of asynchronous children / pipelines / subshells / wait / probes under a chosen schedule \
         (non-trivial = at least two children and a scheduling point with a choice; distinct = script x schedule); \
         X: nested race-free scripts under several schedules (non-trivial = at least four processes)",
    );
}
