//! C17 — alias substitution: the real parser with a glossary of aliases versus
//! the real parser (and the real shell) on the substituted text.
//!
//! For every case (alias table, command text) the harness
//!
//!   1. parses the text with `yash_syntax::parser::Parser` and the alias table
//!      as its `Glossary` (look-ups are counted; a run that exceeds the budget
//!      is reported as non-terminating), command line by command line like
//!      `read_eval_loop`, and prints the parsed commands;
//!   2. dumps the lexer's buffer after parsing: every character with the chain
//!      of `Source::Alias` origins of its `Location` — this is the text the
//!      implementation actually parsed, i.e. its own result of the substitution;
//!   3. parses that text again without any alias and prints the commands;
//!   4. (for a part of the cases) runs the text in the shell on the simulated
//!      OS with the aliases defined (through the `alias` built-in on earlier
//!      lines; global aliases are inserted into `Env::aliases`), and the
//!      buffer text in a shell without aliases, and records the probe traces.
//!
//! Coq (`Yv.C17.Run`) recomputes the substitution by hand (SPEC) and with the
//! model of the lexer buffer (MODEL) and compares.

use futures_util::FutureExt as _;
use std::cell::Cell;
use std::panic::{AssertUnwindSafe, catch_unwind};
use std::rc::Rc;
use yash_env::alias::{Alias, AliasSet, Glossary, HashEntry};
use yash_env::builtin::{Builtin, Type};
use yash_env::semantics::{ExitStatus, Field};
use yash_env::source::{Location, Source};
use yash_syntax::parser::Parser;
use yash_syntax::parser::lex::Lexer;
use yv_harness::cli::Args;
use yv_harness::out::CasesWriter;
use yv_harness::rng::Rng;
use yv_harness::vsh::{self, BuiltinFuture, RunOpts, TraceItem, VEnv};
use yv_harness::{coq, json_str};

// ---------------------------------------------------------------------------
// the case

#[derive(Clone, Debug, PartialEq)]
struct AliasDef {
    name: String,
    value: String,
    global: bool,
}

#[derive(Clone, Debug)]
struct Case {
    table: Vec<AliasDef>,
    text: String,
    /// run the shell as well
    exec: bool,
    origin: &'static str,
}

// ---------------------------------------------------------------------------
// 1./2. the real parser with aliases

#[derive(Debug)]
struct Counting {
    set: AliasSet,
    count: Cell<usize>,
    limit: usize,
}

impl Glossary for Counting {
    fn look_up(&self, name: &str) -> Option<Rc<Alias>> {
        let n = self.count.get() + 1;
        self.count.set(n);
        if n > self.limit {
            panic!("C17-LOOKUP-BUDGET");
        }
        self.set.look_up(name)
    }
    fn is_empty(&self) -> bool {
        self.set.is_empty()
    }
}

fn alias_set(table: &[AliasDef]) -> AliasSet {
    #[allow(clippy::mutable_key_type)]
    let mut set = AliasSet::new();
    for a in table {
        set.insert(HashEntry::new(a.name.clone(), a.value.clone(), a.global, Location::dummy("")));
    }
    set
}

#[derive(Clone, Debug, Default)]
struct Parsed {
    /// 0 ok, 1 syntax error, 2 look-up budget exhausted, 3 panic
    status: u32,
    /// Lexer::index() when parsing stopped
    lexed: usize,
    /// the lexer buffer up to `lexed`: character, alias names innermost first
    buffer: Vec<(char, Vec<String>)>,
    /// printed command lines
    tree: String,
    lookups: usize,
    error: String,
    /// after a syntax error: what the lexer still had to read (the rest of its
    /// buffer and of the input), taken literally
    rest: String,
}

fn chain_of(location: &Location) -> Vec<String> {
    let mut names = vec![];
    let mut source: Rc<Source> = Rc::clone(&location.code.source);
    loop {
        let next = match &*source {
            Source::Alias { original, alias } => {
                names.push(alias.name.clone());
                Rc::clone(&original.code.source)
            }
            _ => break,
        };
        source = next;
    }
    names
}

fn parse_with(table: &[AliasDef], text: &str) -> Parsed {
    let glossary = Counting { set: alias_set(table), count: Cell::new(0), limit: 3_000 };
    let r = catch_unwind(AssertUnwindSafe(|| {
        let mut out = Parsed::default();
        let mut lexer = Lexer::from_memory(text, Source::Unknown);
        let mut lines = vec![];
        loop {
            let mut parser = Parser::config().aliases(&glossary).input(&mut lexer);
            match parser.command_line().now_or_never().expect("memory input is synchronous") {
                Ok(Some(list)) => lines.push(list.to_string()),
                Ok(None) => break,
                Err(e) => {
                    out.status = 1;
                    out.error = format!("{:?}", e.cause);
                    break;
                }
            }
        }
        out.lexed = lexer.index();
        if out.status == 1 {
            let mut plain = lexer.disable_line_continuation();
            while let Some(Ok(Some(c))) = plain.peek_char().now_or_never() {
                out.rest.push(c);
                plain.consume_char();
            }
        }
        for i in 0..out.lexed {
            let c = lexer.source_string(i..i + 1).chars().next().unwrap();
            let l = lexer.location_range(i..i + 1);
            out.buffer.push((c, chain_of(&l)));
        }
        out.tree = lines.join("\n");
        out
    }));
    let lookups = glossary.count.get();
    match r {
        Ok(mut p) => {
            p.lookups = lookups;
            p
        }
        Err(e) => {
            let msg = e
                .downcast_ref::<&str>()
                .map(|s| s.to_string())
                .or_else(|| e.downcast_ref::<String>().cloned())
                .unwrap_or_default();
            Parsed {
                status: if msg.contains("C17-LOOKUP-BUDGET") { 2 } else { 3 },
                error: msg,
                lookups,
                ..Default::default()
            }
        }
    }
}

// ---------------------------------------------------------------------------
// 4. the shell

macro_rules! word_builtin {
    ($f:ident, $name:expr) => {
        fn $f(env: &mut VEnv, args: Vec<Field>) -> BuiltinFuture<'_> {
            Box::pin(async move {
                use yash_env::system::GetPid as _;
                vsh::trace_push(TraceItem {
                    kind: $name.to_string(),
                    status: env.exit_status.0,
                    args: args.iter().map(|f| f.value.clone()).collect(),
                    in_main: env.system.getpid() == env.main_pid,
                });
                ExitStatus::SUCCESS.into()
            })
        }
    };
}
word_builtin!(w_x, "x");
word_builtin!(w_y, "y");
word_builtin!(w_z, "z");
word_builtin!(w_w, "w");
word_builtin!(w_a, "a");
word_builtin!(w_b, "b");
word_builtin!(w_c, "c");
word_builtin!(w_d, "d");
word_builtin!(w_ax, "ax");
word_builtin!(w_bx, "bx");

type Main = fn(&mut VEnv, Vec<Field>) -> BuiltinFuture<'_>;
const WORD_BUILTINS: [(&str, Main); 10] = [
    ("x", w_x),
    ("y", w_y),
    ("z", w_z),
    ("w", w_w),
    ("a", w_a),
    ("b", w_b),
    ("c", w_c),
    ("d", w_d),
    ("ax", w_ax),
    ("bx", w_bx),
];

fn run_vsh(table: Vec<AliasDef>, script: String) -> String {
    let (o, _) = vsh::run_shell(
        RunOpts { argv: vec!["-c".into(), script], ..Default::default() },
        move |env, _| {
            for (name, main) in WORD_BUILTINS {
                env.builtins.insert(name, Builtin::new(Type::Mandatory, main));
            }
            for a in &table {
                env.aliases.replace(HashEntry::new(
                    a.name.clone(),
                    a.value.clone(),
                    a.global,
                    Location::dummy(""),
                ));
            }
        },
    );
    let mut s = String::new();
    for t in &o.trace {
        s.push_str(&format!("{}{}:{}:{:?};", if t.in_main { "" } else { "~" }, t.kind, t.status, t.args));
    }
    s.push_str(&format!(
        "exit={} panic={} deadlock={} timeout={}",
        o.status,
        o.panicked.is_some(),
        o.deadlock,
        o.timeout
    ));
    s
}

fn quote_sh(s: &str) -> String {
    format!("'{}'", s.replace('\'', "'\\''"))
}

/// Loops whose condition is not literally constant could run forever, and so
/// could a function that calls itself.
fn safe_to_execute(text: &str) -> bool {
    let chars: Vec<char> = text.chars().collect();
    for (i, c) in chars.iter().enumerate() {
        if *c == '(' {
            let mut j = i + 1;
            while j < chars.len() && (chars[j].is_whitespace() || chars[j] == '\\') {
                j += 1;
            }
            if j < chars.len() && chars[j] == ')' {
                return false;
            }
        }
    }
    let mut rest = text;
    while let Some(i) = rest.find("while") {
        let after = &rest[i + 5..];
        if !(after.starts_with(" false;") || after.starts_with(" false\n")) {
            return false;
        }
        rest = after;
    }
    let mut rest = text;
    while let Some(i) = rest.find("until") {
        let after = &rest[i + 5..];
        if !(after.starts_with(" true;") || after.starts_with(" true\n")) {
            return false;
        }
        rest = after;
    }
    true
}

// ---------------------------------------------------------------------------
// domain of the model (see coq/C17/Model.v `lex`, `decide`)

fn is_model_blank(c: char) -> bool {
    matches!(c as u32, 9 | 11..=13 | 32 | 133 | 160 | 5760 | 8192..=8202 | 8232 | 8233 | 8239 | 8287 | 12288)
}

/// Why the case is outside the domain, if it is.
fn outside(p: &Parsed, text: &str, table: &[AliasDef]) -> Option<&'static str> {
    let all: String = table.iter().map(|a| a.value.clone() + " ").collect::<String>() + text;
    if all.chars().any(|c| matches!(c, '$' | '`' | '~')) {
        return Some("lexical");
    }
    let buf: String = p.buffer.iter().map(|x| x.0).collect();
    // here-documents
    if buf.contains("<<") || text.contains("<<") {
        return Some("here-document");
    }
    None
}

// ---------------------------------------------------------------------------
// output

fn emit(w: &mut CasesWriter, case: &Case) {
    let p = parse_with(&case.table, &case.text);
    if p.status <= 1 {
        if let Some(why) = outside(&p, &case.text, &case.table) {
            w.count(&format!("skipped:{why}"));
            return;
        }
    }
    let buf_text: String = p.buffer.iter().map(|x| x.0).collect();
    // a syntax error that only exists with the aliases: the text the lexer had
    // produced so far followed by what it still had to read parses without error
    // when no alias is defined (the parser reads left to right, so an error of
    // the hand-substituted text would have to show in this text as well).  The
    // marker takes the place of the printed lines, so that clause 5 (evaluated
    // outside the token-versus-text boundary only) rejects the case.
    let mut p = p;
    if p.status == 1 {
        let by_hand = parse_with(&[], &format!("{}{}", buf_text, p.rest));
        if by_hand.status == 0 {
            w.count("syntax-error-only-with-aliases");
            p.tree = format!("<syntax error only with the aliases: {}>", p.error);
        }
    }
    // 3. the same text without aliases (after a syntax error: the part the lexer
    // had consumed; the command lines completed before the error must come out the same)
    let plain = if p.status <= 1 { parse_with(&[], &buf_text) } else { Parsed::default() };
    let tree_plain = if p.status == 0 {
        if plain.status == 0 { plain.tree.clone() } else { format!("<error {}>", plain.error) }
    } else {
        plain.tree.clone()
    };
    // 4. execution
    let (trace_a, trace_p) = if case.exec && p.status == 0 && safe_to_execute(&buf_text) && safe_to_execute(&case.text) {
        let mut script = String::new();
        let mut direct = vec![];
        // half of the executed cases also define and remove other aliases first
        // (`alias` replaces a definition, `unalias` removes one)
        let churn = case.text.len() % 2 == 0;
        let extra: Vec<&str> =
            NAMES.iter().copied().filter(|n| !case.table.iter().any(|a| a.name == *n)).collect();
        if churn {
            for n in &extra {
                script.push_str(&format!("alias {n}='w JUNK '\n"));
            }
            w.count("executed-with-alias-churn");
        }
        for a in &case.table {
            if a.global {
                direct.push(a.clone());
            } else {
                if churn {
                    script.push_str(&format!("alias {}='w JUNK '\n", a.name));
                }
                script.push_str(&format!("alias {}={}\n", a.name, quote_sh(&a.value)));
            }
        }
        if churn && !extra.is_empty() {
            script.push_str(&format!("unalias {}\n", extra.join(" ")));
        }
        script.push_str(&case.text);
        w.count("executed");
        (run_vsh(direct, script), run_vsh(vec![], buf_text.clone()))
    } else {
        (String::new(), String::new())
    };

    // segments of equal chain
    let index_of = |n: &String| case.table.iter().position(|a| a.name == *n).unwrap_or(usize::MAX >> 1);
    let mut segs: Vec<(Vec<usize>, String)> = vec![];
    for (c, ch) in &p.buffer {
        let idx: Vec<usize> = ch.iter().map(index_of).collect();
        match segs.last_mut() {
            Some((i, s)) if *i == idx => s.push(*c),
            _ => segs.push((idx, c.to_string())),
        }
    }
    let segs_coq: Vec<String> = segs
        .iter()
        .map(|(i, s)| {
            let il: Vec<String> = i.iter().map(|k| coq::nat(*k)).collect();
            format!("({}, {})", if il.is_empty() { "(@nil nat)".to_string() } else { coq::list(&il) }, coq::s(s))
        })
        .collect();
    let table_coq: Vec<String> = case
        .table
        .iter()
        .map(|a| format!("({}, {}, {})", coq::s(&a.name), coq::s(&a.value), coq::b(a.global)))
        .collect();
    let term = format!(
        "({}, {}, ({}, {}, {}, ({}, {}), ({}, {})))",
        coq::list(&table_coq),
        coq::s(&case.text),
        coq::n(p.status as u64),
        coq::nat(p.lexed),
        coq::list(&segs_coq),
        coq::s(&p.tree),
        coq::s(&tree_plain),
        coq::s(&trace_a),
        coq::s(&trace_p)
    );
    let table_json: Vec<String> = case
        .table
        .iter()
        .map(|a| {
            format!(
                "{{\"name\":{},\"value\":{},\"global\":{}}}",
                json_str(&a.name),
                json_str(&a.value),
                a.global
            )
        })
        .collect();
    let json = format!(
        "{{\"origin\":{},\"aliases\":[{}],\"text\":{},\"status\":{},\"lexed\":{},\"error\":{},\"buffer\":{},\"tree\":{},\"tree_plain\":{},\"trace_alias\":{},\"trace_plain\":{},\"lookups\":{}}}",
        json_str(case.origin),
        table_json.join(","),
        json_str(&case.text),
        p.status,
        p.lexed,
        json_str(&p.error),
        json_str(&buf_text),
        json_str(&p.tree),
        json_str(&tree_plain),
        json_str(&trace_a),
        json_str(&trace_p),
        p.lookups
    );

    // histogram
    let depth = p.buffer.iter().map(|x| x.1.len()).max().unwrap_or(0);
    let substituted = depth > 0 || buf_text != case.text;
    w.count(&format!("status:{}", p.status));
    w.count(&format!("depth:{depth}"));
    w.count(&format!("origin:{}", case.origin));
    if case.table.iter().any(|a| a.global) {
        w.count("has-global-alias");
    }
    if case.text.contains("\\\n") {
        w.count("has-line-continuation");
    }
    // a cycle in the table that was actually entered: a name left unsubstituted inside its own expansion
    let cyc = p.buffer.iter().any(|(_, ch)| ch.len() >= 2);
    if cyc {
        w.count("nested-substitution");
    }
    let key = if substituted {
        Some(format!("{:?}|{}", case.table, case.text))
    } else {
        None
    };
    w.push(&term, &json, &[], key);
}

// ---------------------------------------------------------------------------
// generators

const NAMES: [&str; 4] = ["a", "b", "c", "d"];
const WORDS: [&str; 4] = ["x", "y", "z", "w"];

fn pick_s(r: &mut Rng, l: &[&str]) -> String {
    r.pick(l).to_string()
}

fn blank(r: &mut Rng) -> String {
    match r.below(40) {
        0 | 1 => "  ".into(),
        2 | 3 => "\t".into(),
        4 | 5 => " \\\n".into(),
        6 | 7 => "\\\n ".into(),
        8 => "\u{a0}".into(),
        9 => "\u{3000}".into(),
        10 => "\r".into(),
        11 => " \\\n\\\n ".into(),
        _ => " ".into(),
    }
}

/// A word of an alias value or of a command: an alias name, a plain word, a quoted form.
fn atom(r: &mut Rng, names: &[&str]) -> String {
    match r.below(20) {
        0..=10 => pick_s(r, names),
        11..=14 => pick_s(r, &WORDS),
        15 => format!("'{}'", pick_s(r, names)),
        16 => format!("\"{}\"", pick_s(r, names)),
        17 => format!("\\{}", pick_s(r, names)),
        18 => format!("{}=1", pick_s(r, &["v", "u"])),
        _ => format!("{}{}", pick_s(r, names), pick_s(r, &WORDS)),
    }
}

fn alias_value(r: &mut Rng, names: &[&str]) -> String {
    let tail = |r: &mut Rng| match r.below(10) {
        0..=3 => " ".to_string(),
        4 => "\t".to_string(),
        5 if r.chance(1, 3) => "\u{a0}".to_string(),
        5 => " \\\n".to_string(),
        _ => String::new(),
    };
    match r.below(34) {
        0 => String::new(),
        1 => " ".into(),
        2..=11 => atom(r, names) + &tail(r),
        12..=21 => {
            let n = 2 + r.below(2);
            let mut s = String::new();
            for i in 0..n {
                if i > 0 {
                    s.push_str(&blank(r));
                }
                s.push_str(&atom(r, names));
            }
            s + &tail(r)
        }
        22 => pick_s(r, &["if", "then", "else", "fi", "{", "}", "!", "do", "done", "elif", "for", "case", "in", "esac", "function"]) + &tail(r),
        23 => format!("if {}; then", atom(r, names)) + &tail(r),
        24 => pick_s(r, &["{ ", "( ", "! ", "while false; do ", "until true; do "]) + &atom(r, names) + &tail(r),
        25 => pick_s(r, &["|", ";", "&&", "||", "&", ")", "(", ";;", "()", "=("]) + &tail(r),
        26 => format!("{} {}", atom(r, names), pick_s(r, &["|", ";", "&&", "||"])) + &tail(r),
        27 => format!("{} {}", pick_s(r, &["|", ";", "&&", "||"]), atom(r, names)) + &tail(r),
        28 => format!("{}{}", pick_s(r, &[">", "<", ">>", "2>", ">|", "<>"]), pick_s(r, &["f", " f", " a", ""])) + &tail(r),
        29 | 30 => format!("{} {}{}", atom(r, names), pick_s(r, &[">", "<", ">>"]), pick_s(r, &["f", " g"])) + &tail(r),
        31 => format!(" {}", atom(r, names)) + &tail(r),
        32 => format!("{}\n{}", atom(r, names), atom(r, names)) + &tail(r),
        _ => pick_s(r, &["v=1", "v=1 ", "v=a ", "2", "x;", "x|", "'x y' ", "a\\ b ", "v=", "for c in", "case a in", "a) ", "x # c", "# c ", "#", "x #", "x#b ", "b #c\nc"]),
    }
}

/// The names of a random table, and the pool of names values and texts draw from
/// (the table's names three times as likely as the other names).
fn random_names(r: &mut Rng) -> (Vec<&'static str>, Vec<&'static str>) {
    let n = 1 + r.below(4);
    let mut names: Vec<&'static str> = NAMES[..n].to_vec();
    if r.chance(1, 4) {
        names.reverse();
    }
    if r.chance(1, 10) {
        names.push(*r.pick(&["if", "fi", "then", "x", "!", "{", "in", "do", "esac", "}", "in", "esac"]));
    }
    let mut pool: Vec<&'static str> = NAMES.to_vec();
    for _ in 0..3 {
        pool.extend(names.iter().copied());
    }
    (names, pool)
}

fn random_table(r: &mut Rng, names: &[&'static str], pool: &[&str]) -> Vec<AliasDef> {
    let many_global = r.chance(1, 8);
    names
        .iter()
        .map(|nm| AliasDef {
            name: nm.to_string(),
            value: alias_value(r, pool),
            global: if many_global { r.chance(1, 2) } else { r.chance(1, 7) },
        })
        .collect()
}

fn simple_command(r: &mut Rng, names: &[&str]) -> String {
    let mut s = String::new();
    let push = |s: &mut String, t: String, r: &mut Rng| {
        if !s.is_empty() {
            s.push_str(&blank(r));
        }
        s.push_str(&t);
    };
    if r.chance(1, 6) {
        let t = format!("{}={}", pick_s(r, &["v", "u"]), pick_s(r, &["1", "a", ""]));
        push(&mut s, t, r);
    } else if r.chance(1, 12) {
        let t = format!(
            "{}=({}{}{})",
            pick_s(r, &["v", "u"]),
            atom(r, names),
            pick_s(r, &[" ", "\n", "  "]),
            atom(r, names)
        );
        push(&mut s, t, r);
    }
    if r.chance(1, 8) {
        let t = format!("{}{}{}", pick_s(r, &[">", "<", ">>", "2>"]), pick_s(r, &["", " "]), atom(r, names));
        push(&mut s, t, r);
    }
    let n = 1 + r.below(4);
    for _ in 0..n {
        let t = atom(r, names);
        push(&mut s, t, r);
    }
    if r.chance(1, 8) {
        let t = format!("{}{}{}", pick_s(r, &[">", "<", ">>", "2>"]), pick_s(r, &["", " "]), atom(r, names));
        push(&mut s, t, r);
        if r.chance(1, 2) {
            let t = atom(r, names);
            push(&mut s, t, r);
        }
    }
    s
}

fn command(r: &mut Rng, names: &[&str], depth: usize) -> String {
    if depth == 0 || r.below(10) < 6 {
        return simple_command(r, names);
    }
    let d = depth - 1;
    match r.below(14) {
        11 => format!("for {} in {} {}; do {}; done", atom(r, names), atom(r, names), atom(r, names), list(r, names, d)),
        12 | 13 => format!(
            "case {}{}in {}{}) {}{}esac",
            atom(r, names),
            blank(r),
            pick_s(r, &["", "("]),
            atom(r, names),
            list(r, names, d),
            pick_s(r, &[";; ", "\n", " ;; "])
        ),
        7 => format!("for {} in {} {}; do {}; done", atom(r, names), atom(r, names), atom(r, names), list(r, names, d)),
        8 => format!("for {}{}do {}; done", atom(r, names), pick_s(r, &[" ", "; ", "\n"]), list(r, names, d)),
        9 => format!(
            "case {} in {}) {};; ({} | {}) {}{}esac",
            atom(r, names),
            atom(r, names),
            list(r, names, d),
            atom(r, names),
            atom(r, names),
            list(r, names, d),
            pick_s(r, &[";; ", "\n", " ;& "])
        ),
        10 => format!("{}() {}", atom(r, names), pick_s(r, &["{ a x; }", "( b )", "a", "\n{ c; }"])),
        0 => format!("if {}; then {}; fi", list(r, names, d), list(r, names, d)),
        1 => format!("if {}; then {}; else {}; fi", list(r, names, d), list(r, names, d), list(r, names, d)),
        2 => format!("{{ {}; }}", list(r, names, d)),
        3 => format!("( {} )", list(r, names, d)),
        4 => format!("while false; do {}; done", list(r, names, d)),
        5 => format!("until true; do {}; done", list(r, names, d)),
        _ => format!("! {}", simple_command(r, names)),
    }
}

fn list(r: &mut Rng, names: &[&str], depth: usize) -> String {
    let n = 1 + r.below(3);
    let mut s = String::new();
    for i in 0..n {
        if i > 0 {
            s.push_str(r.pick(&["; ", " | ", " && ", " || ", ";", "|", " ;", " & "]));
        }
        s.push_str(&command(r, names, depth));
    }
    s
}

fn random_text(r: &mut Rng, names: &[&str]) -> String {
    let lines = 1 + r.below(2);
    let mut s = String::new();
    for _ in 0..lines {
        let d = if r.chance(1, 3) { 1 } else { 0 };
        s.push_str(&list(r, names, d));
        if r.chance(1, 10) {
            s.push_str(" &");
        }
        if r.chance(1, 12) {
            s.push_str(r.pick(&[" # a b", "\t#a", " #", " # c \\"]));
        }
        s.push('\n');
    }
    if r.chance(1, 10) {
        s.pop();
    }
    s
}

/// Blank-ending values chained through several aliases; names in argument position.
fn chain_case(r: &mut Rng) -> Case {
    let n = 2 + r.below(3);
    let mut table = vec![];
    for i in 0..n {
        let next = if r.chance(1, 3) { NAMES[(i + 1) % n] } else { *r.pick(&WORDS) };
        let value = match r.below(6) {
            0 => format!("{next}"),
            1 => format!("{next} {}", r.pick(&WORDS)),
            2 => format!("{next}\t"),
            3 => format!("{} {next} ", r.pick(&WORDS)),
            _ => format!("{next} "),
        };
        table.push(AliasDef { name: NAMES[i].to_string(), value, global: r.chance(1, 10) });
    }
    let mut text = String::new();
    let k = 2 + r.below(5);
    for j in 0..k {
        if j > 0 {
            text.push_str(&blank(r));
        }
        text.push_str(&if r.chance(3, 4) { pick_s(r, &NAMES[..n]) } else { atom(r, &NAMES) });
    }
    text.push('\n');
    Case { table, text, exec: true, origin: "chain" }
}

/// Values that multiply: the expansion is exponential in the number of aliases.
fn expo_case(r: &mut Rng) -> Case {
    let n = 2 + r.below(3);
    let mut table = vec![];
    for i in 0..n {
        let next = if i + 1 < n { NAMES[i + 1] } else { "x" };
        let other = if r.chance(1, 3) { NAMES[r.below(n)] } else { next };
        let sep = pick_s(r, &[" ", "; ", " | ", " && "]);
        let tail = pick_s(r, &["", " "]);
        table.push(AliasDef { name: NAMES[i].to_string(), value: format!("{next}{sep}{other}{tail}"), global: false });
    }
    let text = format!("{}{}\n", NAMES[0], pick_s(r, &["", " a", " b c", "; b"]));
    Case { table, text, exec: true, origin: "expo" }
}

// ---------------------------------------------------------------------------
// nested programs: the recursion guard covers the replacement *text* only.  A
// program parsed later from a command substitution or an `eval` string that
// came out of an alias value is a new program: the same alias (or one further
// up the chain of origins) is eligible again in it.  These constructs are
// outside the Coq model ($, backquotes); the stream is executed in the shell
// and compared with (a) the same script with the alias expanded by hand at
// every level and (b) the probe sequence computed by `nested_expected`.

#[derive(Clone, Copy, Debug, PartialEq)]
enum NestedForm {
    Eval,
    Dollar,
    Backquote,
    Assign,
    /// `a` -> `b`, and b's value evals `a`: an alias further up the chain
    Chain,
}

fn nested_body(form: NestedForm, call: &str, depth: usize, tag: &str) -> String {
    let stop = "x".repeat(depth);
    match form {
        NestedForm::Eval | NestedForm::Chain => {
            format!("n=x$n; probe {tag}$n; case $n in {stop}) ;; *) eval {call};; esac")
        }
        NestedForm::Dollar => {
            format!("n=x$n; probe {tag}$n; case $n in {stop}) echo done;; *) echo $({call});; esac")
        }
        NestedForm::Backquote => {
            format!("n=x$n; probe {tag}$n; case $n in {stop}) echo done;; *) echo `{call}`;; esac")
        }
        NestedForm::Assign => {
            format!("n=x$n; case $n in {stop}) echo 0;; *) v=$({call}); echo x$v;; esac")
        }
    }
}

/// The alias value expanded by hand `level` times.
fn nested_expand(form: NestedForm, name: &str, depth: usize, tag: &str, level: usize) -> String {
    if level == 0 {
        return name.to_string();
    }
    let inner = nested_expand(form, name, depth, tag, level - 1);
    let call = match form {
        NestedForm::Eval | NestedForm::Chain => quote_sh(&inner),
        // a nested backquote would need escaping; `$( )` is the same program
        NestedForm::Dollar | NestedForm::Backquote | NestedForm::Assign => inner,
    };
    let form_h = if form == NestedForm::Backquote { NestedForm::Dollar } else { form };
    nested_body(form_h, &call, depth, tag)
}

/// Reference evaluation of the script: probe keys (`~` = in a subshell), stdout, exit status.
fn nested_expected(form: NestedForm, depth: usize, tag: &str) -> String {
    let mut items: Vec<String> = vec![];
    let mut stdout = String::new();
    match form {
        NestedForm::Eval | NestedForm::Chain => {
            for i in 1..=depth {
                items.push(format!("{tag}{}", "x".repeat(i)));
            }
            items.push(format!("end{}", "x".repeat(depth)));
        }
        NestedForm::Dollar | NestedForm::Backquote => {
            for i in 1..=depth {
                items.push(format!("{}{tag}{}", if i == 1 { "" } else { "~" }, "x".repeat(i)));
            }
            items.push("endx".to_string());
            stdout.push_str("done\n");
        }
        NestedForm::Assign => {
            items.push(format!("r{}0", "x".repeat(depth - 1)));
        }
    }
    format!("{}|stdout={}|exit=0", items.join(";"), stdout)
}

fn run_nested(table: Vec<AliasDef>, script: String) -> String {
    let (o, _) = vsh::run_shell(
        RunOpts { argv: vec!["-c".into(), script], ..Default::default() },
        move |env, _| {
            for a in &table {
                env.aliases.replace(HashEntry::new(a.name.clone(), a.value.clone(), a.global, Location::dummy("")));
            }
        },
    );
    let items: Vec<String> = o
        .trace
        .iter()
        .map(|t| format!("{}{}", if t.in_main { "" } else { "~" }, t.args.first().cloned().unwrap_or_default()))
        .collect();
    let mut s = format!("{}|stdout={}|exit={}", items.join(";"), o.stdout, o.status);
    if o.panicked.is_some() || o.deadlock || o.timeout {
        s.push_str("|abnormal");
    }
    s
}

fn emit_nested(w: &mut CasesWriter, form: NestedForm, depth: usize, name: &str, global: bool) {
    let tag = "t";
    let (table, top) = match form {
        NestedForm::Chain => (
            vec![
                AliasDef { name: name.to_string(), value: "inner".to_string(), global },
                AliasDef { name: "inner".to_string(), value: nested_body(form, name, depth, tag), global: false },
            ],
            name.to_string(),
        ),
        _ => (vec![AliasDef { name: name.to_string(), value: nested_body(form, name, depth, tag), global }], name.to_string()),
    };
    let line = |call: &str| match form {
        NestedForm::Assign => format!("n=; r=$({call}); probe r$r\n"),
        _ => format!("n=\n{call}\nprobe end$n\n"),
    };
    // with the aliases (defined through the built-in on earlier lines, or global ones in Env::aliases)
    let mut script = String::new();
    let mut direct = vec![];
    for a in &table {
        if a.global {
            direct.push(a.clone());
        } else {
            script.push_str(&format!("alias {}={}\n", a.name, quote_sh(&a.value)));
        }
    }
    script.push_str(&line(&top));
    let observed = run_nested(direct, script.clone());
    // expanded by hand at every level, no alias defined
    let by_hand = line(&nested_expand(form, name, depth, tag, depth + 1));
    let hand = run_nested(vec![], by_hand.clone());
    let expected = nested_expected(form, depth, tag);

    let table_coq: Vec<String> = table
        .iter()
        .map(|a| format!("({}, {}, {})", coq::s(&a.name), coq::s(&a.value), coq::b(a.global)))
        .collect();
    let term = format!(
        "({}, {}, ({}, {}, {}, ({}, {}), ({}, {})))",
        coq::list(&table_coq),
        coq::s(&script),
        coq::n(10),
        coq::nat(0),
        "(@nil (list nat * str))",
        coq::s(&observed),
        coq::s(&expected),
        coq::s(&observed),
        coq::s(&hand)
    );
    let json = format!(
        "{{\"origin\":\"nested\",\"form\":{},\"depth\":{},\"script\":{},\"by_hand\":{},\"observed\":{},\"hand_trace\":{},\"expected\":{}}}",
        json_str(&format!("{form:?}")),
        depth,
        json_str(&script),
        json_str(&by_hand),
        json_str(&observed),
        json_str(&hand),
        json_str(&expected)
    );
    w.count("origin:nested");
    w.count(&format!("nested:{form:?}"));
    w.push(&term, &json, &[], Some(format!("nested|{form:?}|{depth}|{name}|{global}")));
}

fn nested_stream(w: &mut CasesWriter) {
    for form in [NestedForm::Eval, NestedForm::Dollar, NestedForm::Backquote, NestedForm::Assign, NestedForm::Chain] {
        for depth in 2..=4 {
            for (name, global) in [("tick", false), ("a", true)] {
                emit_nested(w, form, depth, name, global);
            }
        }
    }
}

// ---------------------------------------------------------------------------
// alias definitions that change while a multi-line replacement is pending: the
// value of `m` has several command lines; after the first one has been executed
// the rest is still in the lexer's buffer (it is not flushed while input is
// pending) and is parsed line by line with the aliases as they are *then*
// (`unalias`, `unalias -a`, `alias` redefinitions executed by earlier lines of
// the same value).  Oracle: the same script with `m` replaced by hand by its
// value (the lines then come from the script itself), and for some templates a
// literal expected trace.

fn emit_pending(w: &mut CasesWriter, value: &str, tail: &str, expected: Option<&str>) {
    let prelude = "alias b='z '\nalias c=w\n";
    let after = "b c\nc\n";
    let script = format!("{prelude}alias m={}\nm{tail}\n{after}", quote_sh(value));
    let by_hand = format!("{prelude}{value}{tail}\n{after}");
    let observed = run_vsh(vec![], script.clone());
    let hand = run_vsh(vec![], by_hand.clone());
    let expected = expected.map(|e| e.to_string()).unwrap_or_else(|| hand.clone());
    let table_coq = format!("[({}, {}, false)]", coq::s("m"), coq::s(value));
    let term = format!(
        "({}, {}, ({}, {}, {}, ({}, {}), ({}, {})))",
        table_coq,
        coq::s(&script),
        coq::n(10),
        coq::nat(0),
        "(@nil (list nat * str))",
        coq::s(&observed),
        coq::s(&expected),
        coq::s(&observed),
        coq::s(&hand)
    );
    let json = format!(
        "{{\"origin\":\"pending\",\"script\":{},\"by_hand\":{},\"observed\":{},\"hand_trace\":{},\"expected\":{}}}",
        json_str(&script),
        json_str(&by_hand),
        json_str(&observed),
        json_str(&hand),
        json_str(&expected)
    );
    w.count("origin:pending");
    w.push(&term, &json, &[], Some(format!("pending|{value}|{tail}")));
}

fn pending_stream(w: &mut CasesWriter) {
    let ok = "exit=0 panic=false deadlock=false timeout=false";
    // (value of m, text behind `m` on its line, expected trace)
    let e1 = format!("x:0:[\"1\"];b:0:[\"c\"];z:0:[\"w\"];w:0:[];{ok}");
    emit_pending(w, "x 1\nunalias b\nb c", "", None);
    // `b` is removed by the second line of the value: the third line's `b` is a command
    emit_pending(w, "x 1\nunalias b\nb c", " ", None);
    // on one line the whole line is parsed before `unalias` runs
    emit_pending(w, "x 1\nunalias b; b c", "", None);
    emit_pending(w, "alias b=y\nb c", "", None);
    emit_pending(w, "alias b='y '\nb c", " c", None);
    emit_pending(w, "unalias -a\nb c\nm\nc", "", None);
    emit_pending(w, "x\nunalias -a\nalias c=y\nb c", " c", None);
    emit_pending(w, "alias d='x 2 '\nd c", "", None);
    emit_pending(w, "b 1\nalias b='w '\nb c\nunalias b\nb c", "", None);
    emit_pending(w, "x \\\n1\nunalias b\nb \\\nc", "", None);
    emit_pending(w, "x 1\nunalias c\nb c; alias c=y\nb c", " c", None);
    emit_pending(w, "if x; then\nunalias b\nfi\nb c", "", None);
    emit_pending(w, "{ unalias b\nb c; }\nb c", "", None);
    emit_pending(w, "x 1 |\nunalias b\nb c", "", None);
    // with literal expectations
    emit_pending(w, "x 1\nunalias b\nb c", "", Some(&e1.replace("z:0:[\"w\"];w:0:[];", "b:0:[\"c\"];w:0:[];")));
    let e2 = format!("x:0:[\"1\"];z:0:[\"w\"];z:0:[\"w\"];w:0:[];{ok}");
    emit_pending(w, "x 1\nb c", "", Some(&e2));
    let e3 = format!("y:0:[\"c\"];y:0:[\"c\"];w:0:[];{ok}");
    emit_pending(w, "alias b=y\nb c", "", Some(&e3));
}

fn corpus() -> Vec<Case> {
    let t = |l: &[(&str, &str, bool)]| -> Vec<AliasDef> {
        l.iter().map(|(n, v, g)| AliasDef { name: n.to_string(), value: v.to_string(), global: *g }).collect()
    };
    let c = |table: Vec<AliasDef>, text: &str| Case { table, text: text.to_string(), exec: true, origin: "corpus" };
    vec![
        // self-recursive and mutually recursive aliases
        c(t(&[("a", "a x", false)]), "a y\n"),
        c(t(&[("a", "b x ", false), ("b", "a y", false)]), "a a b; b a\n"),
        c(t(&[("a", "b", false), ("b", "c", false), ("c", "a", false)]), "a; b; c\n"),
        c(t(&[("a", "b b ", false), ("b", "a a ", false)]), "a b a\n"),
        // blank-ending chain through several aliases and a line continuation
        c(t(&[("a", "x ", false), ("b", "y ", false), ("c", "z", false)]), "a b c c\n"),
        c(t(&[("a", "x ", false), ("b", "y ", false), ("c", "z", false)]), "a \\\n b\\\n c c\n"),
        c(t(&[("a", "b ", false), ("b", "x", false), ("c", "z", false)]), "a c c\n"),
        c(t(&[("a", "x  ", false), ("b", "", false), ("c", "z", false)]), "a b c c\n"),
        c(t(&[("a", "x y ", false), ("y", "w", false)]), "a y y\n"),
        // global aliases in argument, redirection and post-keyword positions
        c(t(&[("g", "w", true)]), "x g >g; if g; then x g; fi\n"),
        c(t(&[("g", "| y", true)]), "x g\n"),
        // reserved words, operators and redirections out of replacement text
        c(t(&[("a", "if x; then", false), ("b", "fi", false)]), "a y; b\n"),
        c(t(&[("a", "{ x;", false), ("b", "}", true)]), "a y; b\n"),
        c(t(&[("a", "x |", false), ("b", "y >f", false)]), "a b z\n"),
        c(t(&[("a", "! x", false)]), "a && a\n"),
        c(t(&[("a", "2", false)]), "x a>f\nx a >f\n"),
        c(t(&[("a", "x|", false)]), "a| y\n"),
        // an alias value that starts with a newline behind an operator that allows a
        // line break after it (F46: `&&`/`||` used to report a missing command)
        c(t(&[("a", "\nx 1", false)]), "y && a\n"),
        c(t(&[("a", "\nx 1", false)]), "y || a\n"),
        c(t(&[("a", "\n\nx 1", false)]), "y | a\n"),
        c(t(&[("a", "\nx 1", false)]), "y && a || a\n"),
        c(t(&[("a", "\nx 1", false), ("b", "a", false)]), "y && b\n"),
        c(t(&[("a", "\nx 1", false)]), "y; a\ny & a\n"),
        // the operands of `command` (and of the declaration utilities, whose
        // name decides how the following words are parsed) are not in command
        // position: an alias name there is substituted only behind a blank-ending alias
        c(t(&[("a", "x", false)]), "command a\n"),
        c(t(&[("a", "x", false)]), "command command a a\n"),
        c(t(&[("a", "x", false)]), "v=1 command a\n>f command a\n"),
        c(t(&[("a", "x", false)]), "command -v a; command -p a\n"),
        c(t(&[("a", "x", false)]), "export a; readonly a; typeset a; local a\n"),
        c(t(&[("a", "x", false)]), "command export a=1 a\n"),
        c(t(&[("a", "x", false), ("c", "command ", false)]), "c a a\n"),
        c(t(&[("a", "x", false), ("command", "y", false)]), "command a\n"),
        // quoted names are not aliases; assignments and redirections do not end command position
        c(t(&[("a", "x", false)]), "'a' \\a \"a\" a\n"),
        c(t(&[("a", "x", false)]), "v=1 a a; >f a a; v=1 >f a\n"),
        c(t(&[("a", "v=2", false), ("b", "x", false)]), "a b\n"),
        // an alias named like a reserved word
        c(t(&[("if", "x", false), ("fi", "y", true)]), "if z; then v=1 if; fi\nx fi\n"),
        // empty value: the next word is in command position again
        c(t(&[("a", "", false), ("b", "x", false)]), "a b a\n"),
        // a value that is just a blank, at the very beginning of the buffer
        c(t(&[("a", " ", false), ("b", "y", false)]), "a b\n"),
        c(t(&[("a", "\t", false), ("b", "y ", false), ("c", "z", false)]), "a b c\nx b c\n"),
        // reserved words the parser asks for by name (take_token_auto's keyword list) are not aliases
        c(t(&[("in", "y", true), ("a", "x ", false)]), "case a in x) z;; esac\n"),
        c(t(&[("in", "y", false), ("a", "x ", false)]), "case a in x) z;; esac\ncase a \\\n in y) z;; esac\n"),
        c(t(&[("esac", "y", true)]), "case x in (esac) z;; esac\n"),
        c(t(&[("esac", "y", true), ("a", "x ", false)]), "case x in y) a esac;; esac\n"),
        c(t(&[("in", "y", true), ("do", "z", true)]), "for x in in do; do x in do; done\n"),
        // words of an array assignment, a for loop, case patterns; function definitions
        c(t(&[("g", "w", true), ("a", "x ", false), ("b", "y", false)]), "v=(g a b b) g\nv=(a\nb g)\n"),
        c(t(&[("g", "w", true), ("a", "x ", false), ("b", "y", false)]), "for g in g a b b; do g; done\n"),
        c(t(&[("g", "w", true), ("a", "x ", false), ("b", "y", false)]), "case g in g | a) b;; (a b) ;; esac\n"),
        c(t(&[("g", ")", true), ("a", "x", false)]), "a() { a; }\nb(g { a; }\n"),
        // the body of a function definition may come out of an alias
        c(t(&[("g", "{ x; }", true)]), "f() g\nf()\n\ng\n"),
        c(t(&[("p", "f() ", false), ("b", "{ x; }", false), ("c", "( y )", false)]), "p b\np c; p\nb\n"),
        c(t(&[("g", "{ x; }", false)]), "f() g\n"),
        // longer cycles; the guard looks through every level of origins
        c(t(&[("a", "b", false), ("b", "c", false), ("c", "d", false), ("d", "a", false)]), "a; b; c; d\n"),
        c(t(&[("a", "b x", false), ("b", "c y ", false), ("c", "d z", false), ("d", "a b c d", false)]), "a a\nd\n"),
        c(t(&[("a", "b", true), ("b", "c", true), ("c", "d", true), ("d", "a x", true)]), "w a >a\n"),
        // the scan for a blank-ending alias passes over blanks of other origins
        c(t(&[("b", "w ", false), ("a", " y", false), ("y", "z", false)]), "b a y y\n"),
        c(t(&[("b", "w ", false), ("a", "", false), ("y", "z", false)]), "b a a y y\n"),
        c(t(&[("b", "w\t", false), ("c", "x\u{a0}", false), ("y", "z", false)]), "b y y; c y y; b c y y\n"),
        c(t(&[("b", "w ", false), ("y", "z", false)]), "b\t \\\n\\\n\t y y\nb 'y'; b \\y; b; y\n"),
        c(t(&[("b", "w ", false), ("y", "z", false)]), "b >f y; b y >y; b | y y\n"),
        c(t(&[("a", "b ", false), ("b", "c ", false), ("c", "w", false), ("y", "z", false)]), "a y y\nx a y\n"),
        c(t(&[("a", "x b", false), ("b", "y ", false), ("c", "z", false)]), "a c c\n"),
        c(t(&[("a", "b c", false), ("b", "y ", false), ("c", "z", false)]), "a c c\n"),
        // a blank inside a blank-ending value is not its end, even if a nested replacement follows it
        c(t(&[("a", "x b ", false), ("b", "y", true), ("y", "z", false)]), "a y y\n"),
        c(t(&[("a", "x b y ", false), ("b", "y ", true), ("y", "z", false)]), "a y\n"),
        c(t(&[("a", "b  c ", false), ("b", "", false), ("c", "w", false), ("y", "z", false)]), "a y y\n"),
        c(t(&[("a", "b b ", false), ("b", "c ", false), ("c", "", true), ("y", "z", false)]), "a y y\nw a y c y\n"),
        // several substitutions in one operand / word position (take_token_auto loops)
        c(t(&[("a", "b", true), ("b", "c", true), ("c", "f", true)]), "x >a <b; for a in a b; do a; done\ncase a in a) ;; esac\nv=(a b)\n"),
        c(t(&[("a", "x ", false), ("b", "c", false), ("c", "f", false)]), "a b b\n"),
        // `=` in a value; a value that is an assignment followed by a command
        c(t(&[("a", "v=1 u=2 x", false), ("x", "y=z w", false)]), "a a\n"),
        // and-or lists, pipelines, negation, subshells, groups: every command start is a command position
        c(t(&[("a", "x", false)]), "a && a || a | a; ! a & ( a; a ) | { a; a; }\na &&\na |\n\na\n"),
        c(t(&[("a", "x", false)]), "if a; then a; elif a; then a; else a; fi; while false; do a; done; until true; do a; done\n"),
        // comments in and behind replacement text; `#` inside a word is literal
        c(t(&[("a", "x # c", false), ("b", "y", false)]), "a b\nb\n"),
        c(t(&[("a", "# c ", false), ("b", "y", false)]), "a b\nb a b\n"),
        c(t(&[("a", "x ", false), ("b", "y", false)]), "a # b\na#b b; a b#a b # a\n"),
        c(t(&[("a", "x#b ", false), ("b", "#", true), ("c", "z", false)]), "a c b c\nc\n"),
        c(t(&[("a", "b #c\nc", false), ("b", "x ", false), ("c", "z", false)]), "a c\n"),
        // syntax errors
        c(t(&[("a", "if", false)]), "a x\n"),
        c(t(&[("a", "x )", false)]), "a y\n"),
        c(t(&[("a", ">", false), ("b", "y", true)]), "x a; b\n"),
    ]
}

fn check_blank_table() {
    for c in 0..0x3100u32 {
        if let Some(ch) = char::from_u32(c) {
            let real = ch != '\n' && ch.is_whitespace();
            assert_eq!(real, is_model_blank(ch), "is_blank differs from the model at U+{c:04X}");
        }
    }
}

/// Values of the bounded-exhaustive stream.
const EXH_VALUES: [&str; 14] =
    ["", "a", "b ", "c", "x", "a x ", "b y", "if c; then", "fi", "|", "; b", "'a' ", ">f ", "c c "];
const EXH_TEXTS: [&str; 8] = [
    "for a in b c; do a; done\n",
    "case a in b) c;; (a|b) c\nesac\n",
    "a b c\n",
    "v=1 a >b c; x c && b | a\n",
    "c a; fi; b\n",
    "if a; then b c; fi\n",
    "x a\nb\\\n c\n",
    "{ a; } | b & ( c )\n",
];

fn main() {
    // a mutant without the recursion guard nests origins thousands deep: dropping
    // (and panicking through) such chains needs more stack than the default
    std::panic::set_hook(Box::new(|info| {
        let msg = info.payload().downcast_ref::<&str>().copied().unwrap_or("");
        if !msg.contains("C17-LOOKUP-BUDGET") {
            eprintln!("{info}");
        }
    }));
    let child = std::thread::Builder::new().stack_size(1 << 30).spawn(real_main).unwrap();
    if child.join().is_err() {
        std::process::exit(101);
    }
}

fn real_main() {
    let args = Args::parse();
    check_blank_table();
    let mut rng = Rng::new(args.seed);
    let mut w = CasesWriter::new(&args, "Yv.C17.Run", 60);

    for c in corpus() {
        emit(&mut w, &c);
    }
    nested_stream(&mut w);
    pending_stream(&mut w);

    // bounded-exhaustive: all tables over a, b, c with values from EXH_VALUES
    if args.thorough() {
        let n = EXH_VALUES.len();
        for i in 0..n * n * n {
            let (va, vb, vc) = (EXH_VALUES[i % n], EXH_VALUES[(i / n) % n], EXH_VALUES[i / n / n]);
            let table = vec![
                AliasDef { name: "a".into(), value: va.into(), global: false },
                AliasDef { name: "b".into(), value: vb.into(), global: false },
                AliasDef { name: "c".into(), value: vc.into(), global: i % 7 == 3 },
            ];
            for (k, text) in EXH_TEXTS.iter().enumerate() {
                if (i + k) % 2 == 0 || args.tier == "search" {
                    emit(&mut w, &Case { table: table.clone(), text: text.to_string(), exec: (i + k) % 16 == 0, origin: "exhaustive" });
                }
            }
        }
    }

    let n = args.scale(700, 12000);
    for k in 0..n {
        let mut r = rng.fork(k as u64);
        if k % 10 == 8 {
            let c = chain_case(&mut r);
            emit(&mut w, &c);
            continue;
        }
        if k % 40 == 19 {
            let c = expo_case(&mut r);
            emit(&mut w, &c);
            continue;
        }
        let (names, pool) = random_names(&mut r);
        let table = random_table(&mut r, &names, &pool);
        let text = random_text(&mut r, &pool);
        let exec = if args.thorough() { k % 2 == 0 } else { true };
        emit(&mut w, &Case { table, text, exec, origin: "random" });
    }

    w.finish(
        "alias tables over the names a-d (sometimes a reserved word) with values made of names, names with \
         trailing blank, reserved words, operators, redirections, quoted forms, assignments, empty; command \
         texts of 1-2 lines placing those names in command, argument, assignment, redirection and \
         post-keyword positions; non-trivial = at least one substitution happened; distinct = by table and text",
    );
}
