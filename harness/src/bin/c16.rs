//! C16 — variable scope, lifetime and attributes.
//!
//! Stream 1: histories of operations on the real `yash_env::variable::VariableSet`
//! through its public API (contexts are pushed and popped only through the RAII
//! guards, so the histories are executed by recursion over the guards).  After
//! every operation everything the public API shows is recorded; Coq replays the
//! history on the model (`Yv.C16.Model.step`) and on the stack-of-maps
//! specification (`Yv.C16.Spec.sstep`) and compares.

use std::cell::RefCell;
use std::panic::{AssertUnwindSafe, catch_unwind};
use std::rc::Rc;
use yash_env::Env;
use yash_env::builtin::{Builtin, Type};
use yash_env::semantics::{ExitStatus, Field};
use yash_env::system::Mode;
use yash_env::system::r#virtual::{FileBody, Inode};
use yash_env::source::Location;
use yash_env::variable::{Context, PositionalParams, Quirk, Scope, Value, Variable, VariableSet};
use yv_harness::cli::Args;
use yv_harness::out::CasesWriter;
use yv_harness::rng::Rng;
use yv_harness::vsh::{self, BuiltinFuture, RunOpts, TraceItem, VEnv};
use yv_harness::{coq, json_str};

// ---------------------------------------------------------------------------
// operations

#[derive(Clone, Debug, PartialEq)]
enum Val {
    Scalar(String),
    Array(Vec<String>),
}

impl Val {
    fn to_real(&self) -> Value {
        match self {
            Val::Scalar(s) => Value::scalar(s.clone()),
            Val::Array(l) => Value::array(l.clone()),
        }
    }
    fn of_real(v: &Value) -> Val {
        match v {
            Value::Scalar(s) => Val::Scalar(s.clone()),
            Value::Array(l) => Val::Array(l.clone()),
        }
    }
    fn coq(&self) -> String {
        match self {
            Val::Scalar(s) => format!("(Scalar {})", coq::s(s)),
            Val::Array(l) => {
                let v: Vec<String> = l.iter().map(|s| coq::s(s)).collect();
                format!("(Array {})", str_list(&v))
            }
        }
    }
    fn show(&self) -> String {
        match self {
            Val::Scalar(s) => format!("{s:?}"),
            Val::Array(l) => format!("{l:?}"),
        }
    }
}

/// `list str` needs a type annotation when empty or when all items are `nil`.
fn str_list(items: &[String]) -> String {
    if items.is_empty() { "(@nil str)".into() } else { format!("({} : list str)", coq::list(items)) }
}

#[derive(Clone, Copy, Debug, PartialEq)]
enum Sc {
    Global,
    Local,
    Volatile,
}

impl Sc {
    fn to_real(self) -> Scope {
        match self {
            Sc::Global => Scope::Global,
            Sc::Local => Scope::Local,
            Sc::Volatile => Scope::Volatile,
        }
    }
    fn coq(self) -> &'static str {
        match self {
            Sc::Global => "SGlobal",
            Sc::Local => "SLocal",
            Sc::Volatile => "SVolatile",
        }
    }
    fn show(self) -> &'static str {
        match self {
            Sc::Global => "Global",
            Sc::Local => "Local",
            Sc::Volatile => "Volatile",
        }
    }
}

#[derive(Clone, Debug, PartialEq)]
enum Mut {
    Assign(Val, Option<u64>),
    Export(bool),
    ReadOnly(u64),
    SetQuirk(bool),
}

impl Mut {
    fn coq(&self) -> String {
        match self {
            Mut::Assign(v, l) => format!("(MAssign {} {})", v.coq(), coq::opt(l.map(coq::n))),
            Mut::Export(b) => format!("(MExport {})", coq::b(*b)),
            Mut::ReadOnly(l) => format!("(MReadOnly {})", coq::n(*l)),
            Mut::SetQuirk(q) => format!("(MSetQuirk {})", coq::b(*q)),
        }
    }
    fn show(&self) -> String {
        match self {
            Mut::Assign(v, l) => format!("assign({},@{:?})", v.show(), l),
            Mut::Export(b) => format!("export({b})"),
            Mut::ReadOnly(l) => format!("make_read_only(@{l})"),
            Mut::SetQuirk(q) => format!("set_quirk({})", if *q { "LineNumber" } else { "None" }),
        }
    }
}

#[derive(Clone, Debug, PartialEq)]
enum Ctx {
    Regular(Vec<String>),
    Volatile,
}

impl Ctx {
    fn to_real(&self) -> Context {
        match self {
            Ctx::Regular(ps) => Context::Regular {
                positional_params: PositionalParams { values: ps.clone(), last_modified_location: None },
            },
            Ctx::Volatile => Context::Volatile,
        }
    }
    fn coq(&self) -> String {
        match self {
            Ctx::Regular(ps) => {
                let v: Vec<String> = ps.iter().map(|s| coq::s(s)).collect();
                format!("(CRegular {})", str_list(&v))
            }
            Ctx::Volatile => "CVolatile".into(),
        }
    }
}

#[derive(Clone, Debug, PartialEq)]
enum Op {
    Push(Ctx),
    Pop,
    GetOrNew(String, Sc, Vec<Mut>),
    Unset(String, Sc),
    SetParams(Vec<String>),
}

impl Op {
    fn coq(&self) -> String {
        match self {
            Op::Push(c) => format!("(OPush {})", c.coq()),
            Op::Pop => "OPop".into(),
            Op::GetOrNew(n, sc, ms) => {
                let v: Vec<String> = ms.iter().map(|m| m.coq()).collect();
                format!("(OGetOrNew {} {} {})", coq::s(n), sc.coq(), coq::list(&v))
            }
            Op::Unset(n, sc) => format!("(OUnset {} {})", coq::s(n), sc.coq()),
            Op::SetParams(ps) => {
                let v: Vec<String> = ps.iter().map(|s| coq::s(s)).collect();
                format!("(OSetParams {})", str_list(&v))
            }
        }
    }
    fn show(&self) -> String {
        match self {
            Op::Push(Ctx::Regular(ps)) => format!("push(Regular{ps:?})"),
            Op::Push(Ctx::Volatile) => "push(Volatile)".into(),
            Op::Pop => "pop".into(),
            Op::GetOrNew(n, sc, ms) => {
                let v: Vec<String> = ms.iter().map(|m| m.show()).collect();
                format!("get_or_new({n:?},{}){}{}", sc.show(), if v.is_empty() { "" } else { "." }, v.join("."))
            }
            Op::Unset(n, sc) => format!("unset({n:?},{})", sc.show()),
            Op::SetParams(ps) => format!("set_params{ps:?}"),
        }
    }
    fn kind(&self) -> String {
        match self {
            Op::Push(Ctx::Regular(_)) => "op:push_regular".into(),
            Op::Push(Ctx::Volatile) => "op:push_volatile".into(),
            Op::Pop => "op:pop".into(),
            Op::GetOrNew(_, sc, _) => format!("op:get_or_new_{}", sc.show().to_lowercase()),
            Op::Unset(_, sc) => format!("op:unset_{}", sc.show().to_lowercase()),
            Op::SetParams(_) => "op:set_params".into(),
        }
    }
}

// ---------------------------------------------------------------------------
// observation

fn loc_id(l: &Location) -> u64 {
    l.code.value.borrow().parse::<u64>().expect("location made by this harness")
}

fn var_coq(v: &Variable) -> String {
    format!(
        "(mkVar {} {} {} {} {})",
        coq::opt(v.value.as_ref().map(|x| Val::of_real(x).coq())),
        coq::opt(v.last_assigned_location.as_ref().map(|l| coq::n(loc_id(l)))),
        coq::b(v.is_exported),
        coq::opt(v.read_only_location.as_ref().map(|l| coq::n(loc_id(l)))),
        coq::b(matches!(v.quirk, Some(Quirk::LineNumber)))
    )
}

fn var_show(v: &Variable) -> String {
    format!(
        "{}{}{}",
        match &v.value {
            None => "-".to_string(),
            Some(x) => Val::of_real(x).show(),
        },
        if v.is_exported { "/x" } else { "" },
        match &v.read_only_location {
            Some(l) => format!("/ro@{}", loc_id(l)),
            None => String::new(),
        }
    ) + if v.quirk.is_some() { "/quirk" } else { "" }
}

fn ovar_coq(v: Option<&Variable>) -> String {
    coq::opt(v.map(var_coq))
}

fn iter_coq(set: &VariableSet, scope: Scope) -> String {
    let mut l: Vec<(&str, &Variable)> = set.iter(scope).collect();
    l.sort_by(|a, b| a.0.cmp(b.0));
    let v: Vec<String> = l.iter().map(|(n, v)| format!("({}, {})", coq::s(n), var_coq(v))).collect();
    if v.is_empty() { "(@nil (name * var))".into() } else { coq::list(&v) }
}

/// Everything the public API shows, as a Coq term `obs` and for humans.
fn observe(set: &VariableSet, names: &[String], res: &str) -> (String, String) {
    let gets: Vec<String> = names.iter().map(|n| ovar_coq(set.get(n.as_str()))).collect();
    let scoped: Vec<String> = names
        .iter()
        .map(|n| {
            format!(
                "({}, {}, {})",
                ovar_coq(set.get_scoped(n.as_str(), Scope::Global)),
                ovar_coq(set.get_scoped(n.as_str(), Scope::Local)),
                ovar_coq(set.get_scoped(n.as_str(), Scope::Volatile))
            )
        })
        .collect();
    let mut env: Vec<String> =
        set.env_c_strings().iter().map(|c| c.to_str().expect("utf-8").to_string()).collect();
    env.sort();
    let envc: Vec<String> = env.iter().map(|s| coq::s(s)).collect();
    let params: Vec<String> = set.positional_params().values.iter().map(|s| coq::s(s)).collect();
    let term = format!(
        "(mkObs (Some {}) {} {} ({}, {}, {}) {} {})",
        res,
        coq::list(&gets),
        coq::list(&scoped),
        iter_coq(set, Scope::Global),
        iter_coq(set, Scope::Local),
        iter_coq(set, Scope::Volatile),
        str_list(&envc),
        str_list(&params)
    );
    let shown: Vec<String> = names
        .iter()
        .map(|n| match set.get(n.as_str()) {
            Some(v) => format!("{n}={}", var_show(v)),
            None => format!("{n} unset"),
        })
        .collect();
    let human = format!("{} env={:?} $@={:?}", shown.join(" "), env, set.positional_params().values);
    (term, human)
}

const PANIC_OBS: &str = "(mkObs None nil nil (nil, nil, nil) nil nil)";

// ---------------------------------------------------------------------------
// running a history through the guards

/// Something that owns a variable set and can run a closure inside a pushed
/// context (the context is popped by the guard's `Drop`).
trait Host {
    fn vs(&mut self) -> &mut VariableSet;
    fn nested(&mut self, ctx: Context, f: &mut dyn FnMut(&mut dyn Host));
}

impl Host for VariableSet {
    fn vs(&mut self) -> &mut VariableSet {
        self
    }
    fn nested(&mut self, ctx: Context, f: &mut dyn FnMut(&mut dyn Host)) {
        let mut guard = self.push_context(ctx);
        f(&mut *guard);
        VariableSet::pop_context(guard);
    }
}

impl<S: 'static> Host for Env<S> {
    fn vs(&mut self) -> &mut VariableSet {
        &mut self.variables
    }
    fn nested(&mut self, ctx: Context, f: &mut dyn FnMut(&mut dyn Host)) {
        let mut guard = self.push_context(ctx);
        f(&mut *guard);
        // dropped here
    }
}

struct Runner<'a> {
    ops: &'a [Op],
    names: &'a [String],
    pos: usize,
    /// (operation, observation term, human readable)
    hist: Vec<(String, String, String)>,
}

impl Runner<'_> {
    fn record(&mut self, op: &Op, set: &VariableSet, res: &str) {
        let (term, human) = observe(set, self.names, res);
        self.hist.push((op.coq(), term, format!("{} -> {}", op.show(), human)));
    }
}

fn apply_muts(set: &mut VariableSet, n: &str, sc: Sc, ms: &[Mut]) -> String {
    let mut var = set.get_or_new(n, sc.to_real());
    let mut rs = vec![];
    for m in ms {
        match m {
            Mut::Assign(v, l) => {
                let loc = l.map(|l| Location::dummy(l.to_string()));
                match var.assign(v.to_real(), loc) {
                    Ok((old, oldloc)) => rs.push(format!(
                        "(AOk {} {})",
                        coq::opt(old.as_ref().map(|x| Val::of_real(x).coq())),
                        coq::opt(oldloc.as_ref().map(|l| coq::n(loc_id(l))))
                    )),
                    Err(e) => {
                        assert_eq!(Val::of_real(&e.new_value), *v);
                        rs.push(format!("(AErr {})", coq::n(loc_id(&e.read_only_location))))
                    }
                }
            }
            Mut::Export(b) => {
                var.export(*b);
                rs.push("MUnit".into());
            }
            Mut::ReadOnly(l) => {
                var.make_read_only(Location::dummy(l.to_string()));
                rs.push("MUnit".into());
            }
            Mut::SetQuirk(q) => {
                var.set_quirk(if *q { Some(Quirk::LineNumber) } else { None });
                rs.push("MUnit".into());
            }
        }
    }
    format!("(RMuts {})", if rs.is_empty() { "(@nil mres)".to_string() } else { coq::list(&rs) })
}

/// Executes operations until the history ends or an `Op::Pop` closes the
/// context this invocation runs in; returns true in the latter case.
fn run(r: &mut Runner, h: &mut dyn Host) -> bool {
    while r.pos < r.ops.len() {
        let op = r.ops[r.pos].clone();
        r.pos += 1;
        match &op {
            Op::Push(c) => {
                let mut popped = false;
                h.nested(c.to_real(), &mut |inner| {
                    r.record(&op, inner.vs(), "RUnit");
                    popped = run(r, inner);
                });
                if popped {
                    r.record(&Op::Pop, h.vs(), "RUnit");
                }
            }
            Op::Pop => return true,
            Op::GetOrNew(n, sc, ms) => {
                let res = apply_muts(h.vs(), n, *sc, ms);
                r.record(&op, h.vs(), &res);
            }
            Op::Unset(n, sc) => {
                let res = match h.vs().unset(n, sc.to_real()) {
                    Ok(v) => format!("(RUnset {})", ovar_coq(v.as_ref())),
                    Err(e) => {
                        assert_eq!(e.name, n);
                        format!("(RUnsetErr {})", coq::n(loc_id(e.read_only_location)))
                    }
                };
                r.record(&op, h.vs(), &res);
            }
            Op::SetParams(ps) => {
                h.vs().positional_params_mut().values = ps.clone();
                r.record(&op, h.vs(), "RUnit");
            }
        }
    }
    false
}

/// Runs a history on a fresh variable set (directly, or inside an `Env`) and
/// writes the case.
fn emit(w: &mut CasesWriter, names: &[String], ops: &[Op], via_env: bool, stream: &str) {
    let mut r = Runner { ops, names, pos: 0, hist: vec![] };
    let outcome = catch_unwind(AssertUnwindSafe(|| {
        if via_env {
            let mut env = Env::new_virtual();
            env.variables = VariableSet::new();
            run(&mut r, &mut env);
        } else {
            let mut set = VariableSet::new();
            run(&mut r, &mut set);
        }
    }));
    let mut panicked = false;
    if outcome.is_err() {
        // the operation at pos-1 panicked
        let op = &ops[r.pos - 1];
        r.hist.push((op.coq(), PANIC_OBS.to_string(), format!("{} -> PANIC", op.show())));
        panicked = true;
    }
    let mut depth = 0usize;
    let mut max_depth = 0usize;
    let mut vol = false;
    let mut ro = false;
    for op in &ops[..r.pos] {
        w.count(&op.kind());
        match op {
            Op::Push(c) => {
                depth += 1;
                vol |= *c == Ctx::Volatile;
            }
            Op::Pop => depth -= 1,
            Op::GetOrNew(_, _, ms) => ro |= ms.iter().any(|m| matches!(m, Mut::ReadOnly(_))),
            _ => {}
        }
        max_depth = max_depth.max(depth);
    }
    w.count(&format!("{stream}:max_depth:{max_depth}"));
    w.count(&format!("{stream}:cases"));
    if panicked {
        w.count(&format!("{stream}:documented_panic"));
    }
    let hist: Vec<String> = r.hist.iter().map(|(o, t, _)| format!("({o}, {t})")).collect();
    let namel: Vec<String> = names.iter().map(|n| coq::s(n)).collect();
    let term = format!("(CaseOps {} {})", str_list(&namel), coq::list(&hist));
    let json = format!(
        "{{\"stream\":{},\"names\":{:?},\"via_env\":{},\"history\":[{}]}}",
        json_str(stream),
        names,
        via_env,
        r.hist.iter().map(|(_, _, h)| json_str(h)).collect::<Vec<_>>().join(",")
    );
    // non-trivial: a volatile context and a nested context were used and
    // something was made read-only or at least three contexts were stacked
    let key = if vol && (ro || max_depth >= 2) {
        Some(ops.iter().map(|o| o.show()).collect::<Vec<_>>().join(";"))
    } else {
        None
    };
    w.push(&term, &json, &[], key);
}

// ---------------------------------------------------------------------------
// generators

struct Gen {
    next_loc: u64,
}

const SCALARS: [&str; 7] = ["", "1", "2", "x y", "p:q", "é", "=="];

impl Gen {
    fn loc(&mut self) -> u64 {
        self.next_loc += 1;
        self.next_loc
    }
    fn value(&mut self, rng: &mut Rng) -> Val {
        match rng.below(20) {
            0..=13 => Val::Scalar(rng.pick(&SCALARS).to_string()),
            14 => Val::Scalar("a\0b".into()),
            15 => Val::Array(vec![]),
            16 => Val::Array(vec!["1".into()]),
            17 => Val::Array(vec!["1".into(), "2".into()]),
            18 => Val::Array(vec!["".into(), "x".into(), "".into()]),
            _ => Val::Array(vec!["\0".into()]),
        }
    }
    fn muts(&mut self, rng: &mut Rng) -> Vec<Mut> {
        let k = match rng.below(10) {
            0 => 0,
            1..=6 => 1,
            7..=8 => 2,
            _ => 3,
        };
        (0..k)
            .map(|_| match rng.below(100) {
                0..=57 => {
                    let v = self.value(rng);
                    let l = if rng.chance(1, 5) { None } else { Some(self.loc()) };
                    Mut::Assign(v, l)
                }
                58..=68 => Mut::Export(true),
                69..=75 => Mut::Export(false),
                76..=79 => Mut::SetQuirk(rng.chance(3, 4)),
                _ => Mut::ReadOnly(self.loc()),
            })
            .collect()
    }
    fn params(&mut self, rng: &mut Rng) -> Vec<String> {
        let k = rng.below(3);
        (0..k).map(|_| rng.pick(&SCALARS).to_string()).collect()
    }
}

/// A random history.  `kinds` shadows the kinds of the pushed contexts.
fn random_history(rng: &mut Rng, names: &[String], len: usize) -> Vec<Op> {
    let mut g = Gen { next_loc: 0 };
    let mut kinds: Vec<bool> = vec![]; // true = volatile
    let mut ops = vec![];
    while ops.len() < len {
        let top_volatile = kinds.last().copied().unwrap_or(false);
        let n = rng.pick(names).clone();
        let op = match rng.below(100) {
            0..=10 => {
                kinds.push(true);
                Op::Push(Ctx::Volatile)
            }
            11..=19 => {
                kinds.push(false);
                Op::Push(Ctx::Regular(g.params(rng)))
            }
            20..=35 => {
                if kinds.pop().is_none() {
                    continue;
                }
                Op::Pop
            }
            36..=38 => Op::GetOrNew(n, Sc::Global, vec![Mut::ReadOnly(g.loc())]),
            39..=51 => Op::GetOrNew(n, Sc::Global, g.muts(rng)),
            52..=54 => Op::GetOrNew(n, Sc::Local, vec![Mut::ReadOnly(g.loc())]),
            55..=63 => Op::GetOrNew(n, Sc::Local, g.muts(rng)),
            64..=79 => {
                if top_volatile {
                    Op::GetOrNew(n, Sc::Volatile, g.muts(rng))
                } else if rng.chance(1, 40) {
                    // documented panic: ends the history
                    ops.push(Op::GetOrNew(n, Sc::Volatile, g.muts(rng)));
                    return ops;
                } else {
                    continue;
                }
            }
            80..=86 => Op::Unset(n, Sc::Global),
            87..=91 => Op::Unset(n, Sc::Local),
            92..=95 => Op::Unset(n, Sc::Volatile),
            _ => Op::SetParams(g.params(rng)),
        };
        ops.push(op);
    }
    ops
}

/// The alphabet of the bounded-exhaustive enumeration on one name.
fn alphabet(depth_tag: u64) -> Vec<Op> {
    let n = "a".to_string();
    let mut l = vec![Op::Push(Ctx::Regular(vec![])), Op::Push(Ctx::Volatile), Op::Pop];
    for sc in [Sc::Global, Sc::Local, Sc::Volatile] {
        l.push(Op::GetOrNew(
            n.clone(),
            sc,
            vec![Mut::Assign(Val::Scalar(format!("{depth_tag}")), Some(depth_tag))],
        ));
        l.push(Op::GetOrNew(n.clone(), sc, vec![Mut::Export(true)]));
        l.push(Op::GetOrNew(n.clone(), sc, vec![Mut::ReadOnly(100 + depth_tag)]));
        l.push(Op::Unset(n.clone(), sc));
    }
    l
}

/// All histories of exactly `depth` operations over the alphabet that stay in
/// the domain (no pop of the base context; a `Scope::Volatile` get_or_new
/// without a volatile context on top ends the history).
fn enumerate(
    w: &mut CasesWriter,
    names: &[String],
    depth: usize,
    alphabet: fn(u64) -> Vec<Op>,
    stream: &'static str,
) {
    fn go(
        w: &mut CasesWriter,
        names: &[String],
        depth: usize,
        ops: &mut Vec<Op>,
        kinds: &mut Vec<bool>,
        alphabet: fn(u64) -> Vec<Op>,
        stream: &'static str,
    ) {
        if ops.len() == depth {
            emit(w, names, ops, false, stream);
            return;
        }
        for op in alphabet(ops.len() as u64 + 1) {
            match &op {
                Op::Pop => {
                    let Some(k) = kinds.pop() else { continue };
                    ops.push(op);
                    go(w, names, depth, ops, kinds, alphabet, stream);
                    ops.pop();
                    kinds.push(k);
                }
                Op::Push(c) => {
                    kinds.push(*c == Ctx::Volatile);
                    ops.push(op);
                    go(w, names, depth, ops, kinds, alphabet, stream);
                    ops.pop();
                    kinds.pop();
                }
                Op::GetOrNew(_, Sc::Volatile, _) if !kinds.last().copied().unwrap_or(false) => {
                    // documented panic; only worth one case per prefix and kind
                    if matches!(&op, Op::GetOrNew(_, _, ms) if matches!(ms[0], Mut::Export(_))) {
                        ops.push(op);
                        emit(w, names, ops, false, stream);
                        ops.pop();
                    }
                }
                _ => {
                    ops.push(op);
                    go(w, names, depth, ops, kinds, alphabet, stream);
                    ops.pop();
                }
            }
        }
    }
    go(w, names, depth, &mut vec![], &mut vec![], alphabet, stream);
}

/// The alphabet of the second enumeration: variables that are made read-only
/// WITHOUT ever getting a value (`readonly v`, `typeset -r w`), then unset in
/// each scope and assigned.
fn ro_alphabet(depth_tag: u64) -> Vec<Op> {
    let n = "a".to_string();
    let mut l = vec![Op::Push(Ctx::Regular(vec![])), Op::Push(Ctx::Volatile), Op::Pop];
    for sc in [Sc::Global, Sc::Local, Sc::Volatile] {
        l.push(Op::GetOrNew(n.clone(), sc, vec![Mut::ReadOnly(100 + depth_tag)]));
        l.push(Op::Unset(n.clone(), sc));
    }
    for sc in [Sc::Global, Sc::Local] {
        l.push(Op::GetOrNew(
            n.clone(),
            sc,
            vec![Mut::Assign(Val::Scalar(format!("{depth_tag}")), Some(depth_tag))],
        ));
    }
    l
}

/// Random histories biased towards value-less read-only variables in several
/// contexts (also hiding one another), followed by unset / assign.
fn ro_history(rng: &mut Rng, names: &[String], len: usize) -> Vec<Op> {
    let mut g = Gen { next_loc: 0 };
    let mut kinds: Vec<bool> = vec![];
    let mut ops = vec![];
    while ops.len() < len {
        let top_volatile = kinds.last().copied().unwrap_or(false);
        let n = rng.pick(names).clone();
        let sc = match rng.below(if top_volatile { 3 } else { 2 }) {
            0 => Sc::Global,
            1 => Sc::Local,
            _ => Sc::Volatile,
        };
        let any_sc = *rng.pick(&[Sc::Global, Sc::Local, Sc::Volatile]);
        let op = match rng.below(100) {
            0..=21 => Op::GetOrNew(n, sc, vec![Mut::ReadOnly(g.loc())]),
            22..=27 => Op::GetOrNew(n, sc, vec![Mut::ReadOnly(g.loc()), Mut::Export(true)]),
            28..=31 => Op::GetOrNew(n, sc, vec![]),
            32..=51 => Op::Unset(n, any_sc),
            52..=66 => {
                let l = g.loc();
                Op::GetOrNew(n, sc, vec![Mut::Assign(Val::Scalar(l.to_string()), Some(l))])
            }
            67..=69 => {
                let l = g.loc();
                Op::GetOrNew(
                    n,
                    sc,
                    vec![Mut::Assign(Val::Scalar(l.to_string()), Some(l)), Mut::ReadOnly(g.loc())],
                )
            }
            70..=79 => {
                kinds.push(false);
                Op::Push(Ctx::Regular(vec![]))
            }
            80..=87 => {
                kinds.push(true);
                Op::Push(Ctx::Volatile)
            }
            _ => {
                if kinds.pop().is_none() {
                    continue;
                }
                Op::Pop
            }
        };
        ops.push(op);
    }
    ops
}

fn s(x: &str) -> String {
    x.to_string()
}

fn corpus() -> Vec<(Vec<String>, Vec<Op>)> {
    let a = || s("a");
    let asg = |v: &str, l: u64| Mut::Assign(Val::Scalar(s(v)), Some(l));
    vec![
        // the example of the module documentation
        (
            vec![a()],
            vec![
                Op::GetOrNew(a(), Sc::Global, vec![asg("hello", 1)]),
                Op::Push(Ctx::Regular(vec![])),
                Op::GetOrNew(a(), Sc::Local, vec![asg("world", 2)]),
                Op::Pop,
            ],
        ),
        // F7 (fixed): unset with Scope::Local of a variable that only exists in
        // the local context
        (
            vec![a()],
            vec![
                Op::Push(Ctx::Regular(vec![])),
                Op::GetOrNew(a(), Sc::Local, vec![asg("1", 1)]),
                Op::Unset(a(), Sc::Local),
            ],
        ),
        // F7 (fixed): used to index out of bounds
        (
            vec![a()],
            vec![
                Op::GetOrNew(a(), Sc::Global, vec![asg("1", 1)]),
                Op::Push(Ctx::Regular(vec![])),
                Op::Push(Ctx::Volatile),
                Op::Unset(a(), Sc::Volatile),
                Op::Unset(a(), Sc::Local),
                Op::Pop,
                Op::Pop,
            ],
        ),
        // volatile variable migrates to the base context, keeping `exported`
        (
            vec![a(), s("b")],
            vec![
                Op::GetOrNew(a(), Sc::Global, vec![asg("g", 1)]),
                Op::Push(Ctx::Volatile),
                Op::GetOrNew(a(), Sc::Volatile, vec![asg("t", 2), Mut::Export(true)]),
                Op::Push(Ctx::Regular(vec![s("p1")])),
                Op::GetOrNew(a(), Sc::Global, vec![asg("h", 3)]),
                Op::Pop,
                Op::Pop,
            ],
        ),
        // a read-only variable below a volatile copy
        (
            vec![a()],
            vec![
                Op::GetOrNew(a(), Sc::Global, vec![asg("r", 1), Mut::ReadOnly(2)]),
                Op::Push(Ctx::Volatile),
                Op::GetOrNew(a(), Sc::Volatile, vec![asg("t", 3), Mut::Export(true)]),
                Op::GetOrNew(a(), Sc::Global, vec![asg("u", 4), Mut::ReadOnly(5)]),
                Op::Unset(a(), Sc::Volatile),
                Op::Unset(a(), Sc::Global),
                Op::Pop,
            ],
        ),
        // a local variable hides a read-only global; unset(Global) refuses
        (
            vec![a()],
            vec![
                Op::GetOrNew(a(), Sc::Global, vec![asg("r", 1), Mut::ReadOnly(2)]),
                Op::Push(Ctx::Regular(vec![])),
                Op::GetOrNew(a(), Sc::Local, vec![asg("l", 3)]),
                Op::Unset(a(), Sc::Global),
                Op::Unset(a(), Sc::Local),
                Op::Pop,
            ],
        ),
        // names and values that cannot be passed in the environment
        (
            vec![s("e=q"), a()],
            vec![
                Op::GetOrNew(s("e=q"), Sc::Global, vec![asg("1", 1), Mut::Export(true)]),
                Op::GetOrNew(a(), Sc::Global, vec![Mut::Assign(Val::Scalar(s("x\0y")), None), Mut::Export(true)]),
                Op::GetOrNew(a(), Sc::Global, vec![Mut::Assign(Val::Array(vec![s("1"), s(""), s("2")]), None)]),
                Op::GetOrNew(a(), Sc::Global, vec![Mut::Assign(Val::Array(vec![]), None)]),
            ],
        ),
        // read-only variables in two contexts: unset reports the innermost one
        (
            vec![a()],
            vec![
                Op::GetOrNew(a(), Sc::Global, vec![Mut::ReadOnly(1)]),
                Op::Push(Ctx::Regular(vec![])),
                Op::GetOrNew(a(), Sc::Local, vec![Mut::ReadOnly(2)]),
                Op::Push(Ctx::Volatile),
                Op::GetOrNew(a(), Sc::Volatile, vec![Mut::Export(true)]),
                Op::Unset(a(), Sc::Volatile),
                Op::Unset(a(), Sc::Local),
                Op::Unset(a(), Sc::Global),
                Op::Pop,
                Op::Unset(a(), Sc::Global),
                Op::Pop,
                Op::Unset(a(), Sc::Global),
            ],
        ),
        // make_read_only keeps the first location; a volatile copy of a read-only
        // variable cannot be assigned, only exported, and migrates unchanged
        (
            vec![a()],
            vec![
                Op::GetOrNew(a(), Sc::Global, vec![asg("r", 1), Mut::ReadOnly(2), Mut::ReadOnly(3)]),
                Op::Push(Ctx::Volatile),
                Op::GetOrNew(a(), Sc::Volatile, vec![Mut::Export(true), asg("t", 4), Mut::ReadOnly(5)]),
                Op::Push(Ctx::Regular(vec![])),
                Op::GetOrNew(a(), Sc::Global, vec![asg("u", 6)]),
                Op::Pop,
                Op::Pop,
            ],
        ),
        // read-only WITHOUT a value (`readonly v`): unset in each scope and
        // assignment are refused exactly as for a variable with a value
        (
            vec![a()],
            vec![
                Op::GetOrNew(a(), Sc::Global, vec![Mut::ReadOnly(1)]),
                Op::Unset(a(), Sc::Volatile),
                Op::Unset(a(), Sc::Local),
                Op::Unset(a(), Sc::Global),
                Op::GetOrNew(a(), Sc::Global, vec![asg("1", 2)]),
                Op::GetOrNew(a(), Sc::Local, vec![asg("2", 3)]),
            ],
        ),
        // `f() { typeset -r w; unset w; w=2; }`: a value-less read-only local
        (
            vec![a()],
            vec![
                Op::Push(Ctx::Volatile),
                Op::Push(Ctx::Regular(vec![])),
                Op::GetOrNew(a(), Sc::Local, vec![Mut::ReadOnly(1)]),
                Op::Unset(a(), Sc::Volatile),
                Op::Unset(a(), Sc::Local),
                Op::Unset(a(), Sc::Global),
                Op::GetOrNew(a(), Sc::Global, vec![asg("2", 2)]),
                Op::Pop,
                Op::Pop,
                Op::GetOrNew(a(), Sc::Global, vec![asg("3", 3)]),
            ],
        ),
        // a value-less read-only local hiding a global (with and without a value),
        // and a value-less read-only global hidden by a local
        (
            vec![a(), s("b")],
            vec![
                Op::GetOrNew(a(), Sc::Global, vec![asg("g", 1)]),
                Op::GetOrNew(s("b"), Sc::Global, vec![Mut::ReadOnly(2)]),
                Op::Push(Ctx::Regular(vec![])),
                Op::GetOrNew(a(), Sc::Local, vec![Mut::ReadOnly(3)]),
                Op::GetOrNew(s("b"), Sc::Local, vec![asg("l", 4)]),
                Op::Unset(a(), Sc::Local),
                Op::Unset(a(), Sc::Global),
                Op::Unset(s("b"), Sc::Global),
                Op::Unset(s("b"), Sc::Local),
                Op::GetOrNew(a(), Sc::Global, vec![asg("x", 5)]),
                Op::Push(Ctx::Volatile),
                Op::GetOrNew(a(), Sc::Volatile, vec![asg("t", 6), Mut::Export(true)]),
                Op::Unset(a(), Sc::Volatile),
                Op::Pop,
                Op::Pop,
                Op::Unset(a(), Sc::Global),
                Op::GetOrNew(s("b"), Sc::Global, vec![asg("y", 7)]),
            ],
        ),
        // a quirk variable like LINENO (`VariableSet::init`): no stored value;
        // the quirk follows the variable through clone and migration
        (
            vec![a()],
            vec![
                Op::GetOrNew(a(), Sc::Global, vec![Mut::SetQuirk(true)]),
                Op::GetOrNew(a(), Sc::Global, vec![Mut::Export(true)]),
                Op::Push(Ctx::Volatile),
                Op::GetOrNew(a(), Sc::Volatile, vec![asg("5", 1)]),
                Op::Push(Ctx::Regular(vec![])),
                Op::GetOrNew(a(), Sc::Local, vec![Mut::SetQuirk(false)]),
                Op::GetOrNew(a(), Sc::Global, vec![Mut::ReadOnly(2)]),
                Op::Pop,
                Op::Unset(a(), Sc::Global),
                Op::Pop,
                Op::Unset(a(), Sc::Global),
            ],
        ),
        // documented panic
        (vec![a()], vec![Op::GetOrNew(a(), Sc::Volatile, vec![])]),
    ]
}


// ---------------------------------------------------------------------------
// stream 2: scripts run by the real shell on the simulated OS

const SCRIPT_NAMES: [&str; 3] = ["a", "b", "c"];

#[derive(Clone, Debug)]
enum Cmd {
    Assign(Vec<(String, Val)>),
    Probe(Vec<(String, Val)>),
    Special(Vec<(String, Val)>),
    Call(Vec<(String, Val)>, Vec<Cmd>, Vec<String>),
    Typeset { temps: Vec<(String, Val)>, global: bool, export: bool, readonly: bool, name: String, value: Option<Val> },
    Export(String, Option<Val>),
    Readonly(String, Option<Val>),
    Unset(String),
    SetParams(Vec<String>),
    Exec(Vec<(String, Val)>),
    Read(Vec<(String, Val)>, String, String),
    For(String, Vec<String>, Vec<Cmd>),
    Return,
    /// `OPTIND=1; [temps] getopts x NAME -x`: a regular built-in that assigns
    /// NAME=x with Scope::Global (getopts/report.rs); OPTIND and OPTARG are
    /// outside the names in play.  For the variable NAME this is the caller
    /// rule of `read`, so the Coq side sees `CRead temps NAME "x"`.
    Getopts(Vec<(String, Val)>, String),
}

fn sq(s: &str) -> String {
    assert!(!s.contains('\''));
    format!("'{s}'")
}

fn val_sh(v: &Val) -> String {
    match v {
        Val::Scalar(s) => sq(s),
        Val::Array(l) => format!("({})", l.iter().map(|s| sq(s)).collect::<Vec<_>>().join(" ")),
    }
}

fn temps_sh(temps: &[(String, Val)]) -> String {
    temps.iter().map(|(n, v)| format!("{n}={} ", val_sh(v))).collect()
}

fn temps_coq(temps: &[(String, Val)]) -> String {
    let v: Vec<String> = temps.iter().map(|(n, v)| format!("({}, {})", coq::s(n), v.coq())).collect();
    if v.is_empty() { "(@nil (name * value))".into() } else { coq::list(&v) }
}

fn strs_coq(l: &[String]) -> String {
    let v: Vec<String> = l.iter().map(|s| coq::s(s)).collect();
    str_list(&v)
}

/// Renders the commands; function definitions go to `defs`, probes are numbered
/// in execution order (every function is called exactly once, at its site).
struct Render {
    defs: Vec<String>,
    next_fn: usize,
}

impl Render {
    fn cmds(&mut self, cs: &[Cmd]) -> Vec<String> {
        cs.iter().map(|c| self.cmd(c)).collect()
    }
    fn cmd(&mut self, c: &Cmd) -> String {
        match c {
            Cmd::Assign(a) => temps_sh(a).trim_end().to_string(),
            Cmd::Probe(t) => format!("{}vars -", temps_sh(t)),
            Cmd::Special(t) => format!("{}:", temps_sh(t)),
            Cmd::Call(t, body, args) => {
                self.next_fn += 1;
                let name = format!("f{}", self.next_fn);
                let mut lines = self.cmds(body);
                lines.push(":".into());
                self.defs.push(format!("{name}() {{\n  {}\n}}", lines.join("\n  ")));
                let a: Vec<String> = args.iter().map(|s| sq(s)).collect();
                format!("{}{name} {}", temps_sh(t), a.join(" ")).trim_end().to_string()
            }
            Cmd::Typeset { temps, global, export, readonly, name, value } => format!(
                "{}typeset {}{}{}{name}{}",
                temps_sh(temps),
                if *global { "-g " } else { "" },
                if *export { "-x " } else { "" },
                if *readonly { "-r " } else { "" },
                match value {
                    Some(v) => format!("={}", val_sh(v)),
                    None => String::new(),
                }
            ),
            Cmd::Export(n, v) => format!(
                "export {n}{}",
                match v {
                    Some(v) => format!("={}", val_sh(v)),
                    None => String::new(),
                }
            ),
            Cmd::Readonly(n, v) => format!(
                "readonly {n}{}",
                match v {
                    Some(v) => format!("={}", val_sh(v)),
                    None => String::new(),
                }
            ),
            Cmd::Unset(n) => format!("unset {n}"),
            Cmd::SetParams(ps) => {
                let a: Vec<String> = ps.iter().map(|s| sq(s)).collect();
                format!("set -- {}", a.join(" ")).trim_end().to_string()
            }
            // `probe E` marks the place of the execution in the trace
            Cmd::Exec(t) => format!("probe E\n{}/bin/envp", temps_sh(t)),
            Cmd::For(n, vals, body) => {
                let v: Vec<String> = vals.iter().map(|s| sq(s)).collect();
                let mut lines = self.cmds(body);
                lines.push(":".into());
                format!("for {n} in {}; do\n{}\ndone", v.join(" "), lines.join("\n"))
            }
            Cmd::Return => "return".into(),
            Cmd::Getopts(t, n) => format!("OPTIND=1\n{}getopts x {n} -x", temps_sh(t)),
            // the here-document body must start in column 0
            Cmd::Read(t, n, line) => format!("{}read {n} <<E\n{line}\nE", temps_sh(t)),
        }
    }
}

fn cmd_coq(c: &Cmd) -> String {
    let ov = |v: &Option<Val>| coq::opt(v.as_ref().map(|v| v.coq()));
    match c {
        Cmd::Assign(a) => format!("(CAssign {})", temps_coq(a)),
        Cmd::Probe(t) => format!("(CProbe {})", temps_coq(t)),
        Cmd::Special(t) => format!("(CSpecial {})", temps_coq(t)),
        Cmd::Call(t, body, args) => {
            format!("(CCall {} {} {})", temps_coq(t), cmds_coq(body), strs_coq(args))
        }
        Cmd::Typeset { temps, global, export, readonly, name, value } => format!(
            "(CTypeset {} {} {} {} {} {})",
            temps_coq(temps),
            coq::b(*global),
            coq::b(*export),
            coq::b(*readonly),
            coq::s(name),
            ov(value)
        ),
        Cmd::Export(n, v) => format!("(CExport {} {})", coq::s(n), ov(v)),
        Cmd::Readonly(n, v) => format!("(CReadonly {} {})", coq::s(n), ov(v)),
        Cmd::Unset(n) => format!("(CUnset {})", coq::s(n)),
        Cmd::SetParams(ps) => format!("(CSetParams {})", strs_coq(ps)),
        Cmd::Exec(t) => format!("(CExec {})", temps_coq(t)),
        Cmd::Read(t, n, line) => format!("(CRead {} {} {})", temps_coq(t), coq::s(n), coq::s(line)),
        Cmd::For(n, vals, body) => format!("(CFor {} {} {})", coq::s(n), strs_coq(vals), cmds_coq(body)),
        Cmd::Return => "CReturn".into(),
        Cmd::Getopts(t, n) => format!("(CRead {} {} {})", temps_coq(t), coq::s(n), coq::s("x")),
    }
}

fn cmds_coq(cs: &[Cmd]) -> String {
    let v: Vec<String> = cs.iter().map(cmd_coq).collect();
    if v.is_empty() { "(@nil cmd)".into() } else { coq::list(&v) }
}

/// The probe built-in `vars K`: records, for the names in play, what
/// `env.variables.get` shows, and the positional parameters.  It is a
/// mandatory (non-special) built-in, so the shell runs it inside a volatile
/// context like any regular built-in.
fn vars_main(env: &mut VEnv, args: Vec<Field>) -> BuiltinFuture<'_> {
    Box::pin(async move {
        use yash_env::system::GetPid as _;
        let mut items = vec![];
        let mut human = vec![];
        for n in SCRIPT_NAMES {
            match env.variables.get(n) {
                None => {
                    items.push("None".to_string());
                    human.push(format!("{n} unset"));
                }
                Some(v) => {
                    items.push(format!(
                        "(Some ({}, {}, {}))",
                        coq::opt(v.value.as_ref().map(|x| Val::of_real(x).coq())),
                        coq::b(v.is_exported),
                        coq::b(v.is_read_only())
                    ));
                    human.push(format!(
                        "{n}={}{}{}",
                        match &v.value {
                            None => "-".to_string(),
                            Some(x) => Val::of_real(x).show(),
                        },
                        if v.is_exported { "/x" } else { "" },
                        if v.is_read_only() { "/ro" } else { "" }
                    ));
                }
            }
        }
        let ps = env.variables.positional_params().values.clone();
        let term = format!("(PVars {} {})", coq::list(&items), strs_coq(&ps));
        let tag = args.first().map(|f| f.value.clone()).unwrap_or_default();
        vsh::trace_push(TraceItem {
            kind: "vars".into(),
            status: env.exit_status.0,
            args: vec![tag, term, format!("{} $@={:?}", human.join(" "), ps)],
            in_main: env.system.getpid() == env.main_pid,
        });
        ExitStatus::SUCCESS.into()
    })
}

fn emit_script(w: &mut CasesWriter, cs: &[Cmd], stream: &str) {
    let mut r = Render { defs: vec![], next_fn: 0 };
    let mut lines = r.cmds(cs);
    // the callers end every script with a probe: give the last one its tag
    assert!(matches!(cs.last(), Some(Cmd::Probe(t)) if t.is_empty()));
    *lines.last_mut().unwrap() = "vars END".into();
    let script = format!("{}\n{}\n", r.defs.join("\n"), lines.join("\n"));
    let (out, state) = vsh::run_shell(
        RunOpts { argv: vec!["-c".into(), script.clone()], ..Default::default() },
        |env, state| {
            env.builtins.insert("vars", Builtin::new(Type::Mandatory, vars_main));
            let mut inode = Inode::new(Vec::<u8>::new());
            inode.body = FileBody::Regular { content: vec![], is_native_executable: true };
            inode.permissions.set(Mode::USER_EXEC, true);
            state.borrow_mut().file_system.save("/bin/envp", Rc::new(RefCell::new(inode))).unwrap();
        },
    );
    // observations in execution order; the environment of the i-th executed
    // program (processes are numbered in the order of their creation) goes to
    // the i-th `probe E` mark
    let mut seen: Vec<(String, String)> = vec![];
    let mut exec_slots: Vec<usize> = vec![];
    let mut finished = false;
    for item in &out.trace {
        if !item.in_main {
            continue;
        }
        if item.kind == "vars" {
            finished |= item.args[0] == "END";
            seen.push((item.args[1].clone(), item.args[2].clone()));
        } else if item.kind == "probe" && item.args.first().map(|s| s.as_str()) == Some("E") {
            exec_slots.push(seen.len());
            seen.push((String::new(), String::new()));
        }
    }
    let mut envs: Vec<(String, String)> = vec![];
    let mut others: Vec<String> = vec![];
    if let Some(state) = &state {
        for (_pid, p) in state.borrow().processes.iter() {
            if let Some((path, _args, penv)) = p.last_exec() {
                if path.to_str() != Ok("/bin/envp") {
                    continue;
                }
                let mut mine = vec![];
                let mut rest = vec![];
                for e in penv {
                    let e = e.to_str().unwrap().to_string();
                    if SCRIPT_NAMES.iter().any(|n| e.starts_with(&format!("{n}="))) {
                        mine.push(e);
                    } else {
                        rest.push(e);
                    }
                }
                mine.sort();
                rest.sort();
                if others.is_empty() {
                    others = rest;
                } else if others != rest {
                    // the variables the script does not touch must not change
                    w.count("script:unrelated_environment_changed");
                    mine.push("!unrelated environment changed".into());
                }
                let envc: Vec<String> = mine.iter().map(|s| coq::s(s)).collect();
                envs.push((format!("(PEnv {})", str_list(&envc)), format!("exec env {mine:?}")));
            }
        }
    }
    if envs.len() > exec_slots.len() {
        w.count("script:more_executions_than_marks");
        seen.push(("(PEnv [[33]%N])".into(), "!more executions than marks".into()));
    }
    for (i, slot) in exec_slots.iter().enumerate() {
        if let Some(e) = envs.get(i) {
            seen[*slot] = e.clone();
        }
    }
    // a mark without an execution: the shell exited on a failed temporary assignment
    seen.retain(|(t, _)| !t.is_empty());
    let trace: Vec<String> = seen.iter().map(|(t, _)| t.clone()).collect();
    let human: Vec<String> = seen.iter().enumerate().map(|(k, (_, h))| format!("#{}: {h}", k + 1)).collect();
    let panicked = out.panicked.is_some() || out.deadlock || out.timeout;
    w.count(&format!("{stream}:cases"));
    w.count(if finished { "script:ran_to_the_end" } else { "script:shell_exited_on_error" });
    w.count(&format!("script:probes:{}", (seen.len() / 4) * 4));
    let namel: Vec<String> = SCRIPT_NAMES.iter().map(|n| coq::s(n)).collect();
    let term = format!(
        "(CaseScript {} {} {} {})",
        str_list(&namel),
        cmds_coq(cs),
        if trace.is_empty() { "(@nil pobs)".to_string() } else { coq::list(&trace) },
        coq::b(panicked)
    );
    let json = format!(
        "{{\"stream\":{},\"script\":{},\"probes\":[{}],\"status\":{},\"panicked\":{},\"stderr\":{}}}",
        json_str(stream),
        json_str(&script),
        human.iter().map(|h| json_str(h)).collect::<Vec<_>>().join(","),
        out.status,
        json_str(&format!("{:?}", out.panicked)),
        json_str(&out.stderr.chars().take(300).collect::<String>())
    );
    fn has_call(cs: &[Cmd]) -> bool {
        cs.iter().any(|c| matches!(c, Cmd::Call(..)))
    }
    fn has_temp(cs: &[Cmd]) -> bool {
        cs.iter().any(|c| match c {
            Cmd::Probe(t) | Cmd::Special(t) | Cmd::Exec(t) | Cmd::Read(t, _, _) | Cmd::Getopts(t, _) => !t.is_empty(),
            Cmd::Call(t, b, _) => !t.is_empty() || has_temp(b),
            Cmd::For(_, _, b) => has_temp(b),
            Cmd::Typeset { temps, .. } => !temps.is_empty(),
            _ => false,
        })
    }
    let key = if has_call(cs) && has_temp(cs) && seen.len() >= 3 { Some(script.clone()) } else { None };
    w.push(&term, &json, &[], key);
}

struct SGen<'a> {
    rng: &'a mut Rng,
}

impl SGen<'_> {
    fn name(&mut self) -> String {
        // `a` and `b` are used much more often than `c`
        (*self.rng.pick(&["a", "a", "a", "b", "b", "c"])).to_string()
    }
    fn scalar(&mut self) -> Val {
        Val::Scalar((*self.rng.pick(&["", "1", "2", "3", "x y", "p:q"])).to_string())
    }
    fn value(&mut self) -> Val {
        if self.rng.chance(1, 8) {
            let k = self.rng.below(3);
            Val::Array((0..k).map(|_| (*self.rng.pick(&["1", "2", ""])).to_string()).collect())
        } else {
            self.scalar()
        }
    }
    fn temps(&mut self) -> Vec<(String, Val)> {
        let k = match self.rng.below(10) {
            0..=3 => 0,
            4..=8 => 1,
            _ => 2,
        };
        (0..k).map(|_| (self.name(), self.value())).collect()
    }
    fn args(&mut self) -> Vec<String> {
        let k = self.rng.below(3);
        (0..k).map(|_| (*self.rng.pick(&["p", "q", "r s", ""])).to_string()).collect()
    }
    fn cmds(&mut self, n: usize, depth: usize) -> Vec<Cmd> {
        (0..n).map(|_| self.cmd(depth)).collect()
    }
    /// A script about a variable that is read-only but has NO value
    /// (`readonly v`, `typeset -r w` in a function), possibly hiding or hidden by
    /// another variable of the same name, then unset / assigned in various ways.
    fn ro_script(&mut self) -> Vec<Cmd> {
        let v = self.name();
        let sc = |x: &str| Val::Scalar(x.to_string());
        let mut cs = vec![];
        match self.rng.below(5) {
            0 => cs.push(Cmd::Assign(vec![(v.clone(), sc("g"))])),
            1 => cs.push(Cmd::Export(v.clone(), Some(sc("g")))),
            2 => cs.push(Cmd::Readonly(v.clone(), None)),
            3 => cs.push(Cmd::Export(v.clone(), None)),
            _ => {}
        }
        cs.push(Cmd::Probe(vec![]));
        let in_function = self.rng.chance(2, 3);
        let decl = match self.rng.below(if in_function { 5 } else { 3 }) {
            0 => Cmd::Readonly(v.clone(), None),
            1 => Cmd::Typeset { temps: vec![], global: true, export: false, readonly: true, name: v.clone(), value: None },
            2 | 3 => Cmd::Typeset { temps: vec![], global: false, export: false, readonly: true, name: v.clone(), value: None },
            _ => Cmd::Typeset { temps: vec![], global: false, export: true, readonly: true, name: v.clone(), value: None },
        };
        let action = |g: &mut Self| match g.rng.below(11) {
            0..=2 => Cmd::Unset(v.clone()),
            3..=4 => Cmd::Assign(vec![(v.clone(), sc("1"))]),
            5 => Cmd::Probe(vec![(v.clone(), sc("t"))]),
            6 => Cmd::Typeset { temps: vec![], global: g.rng.chance(1, 2), export: false, readonly: false, name: v.clone(), value: Some(sc("2")) },
            7 => Cmd::Export(v.clone(), Some(sc("3"))),
            8 => Cmd::Read(vec![], v.clone(), "7".to_string()),
            9 => Cmd::Exec(vec![(v.clone(), sc("e"))]),
            _ => Cmd::Special(vec![(v.clone(), sc("s"))]),
        };
        if in_function {
            let mut body = vec![decl, Cmd::Probe(vec![])];
            for _ in 0..1 + self.rng.below(2) {
                body.push(action(self));
                body.push(Cmd::Probe(vec![]));
            }
            let temps = if self.rng.chance(1, 4) { vec![(v.clone(), sc("t"))] } else { vec![] };
            cs.push(Cmd::Call(temps, body, vec![]));
            cs.push(Cmd::Probe(vec![]));
            cs.push(action(self));
            cs.push(Cmd::Probe(vec![]));
        } else {
            cs.push(decl);
            cs.push(Cmd::Probe(vec![]));
            for _ in 0..1 + self.rng.below(2) {
                cs.push(action(self));
                cs.push(Cmd::Probe(vec![]));
            }
        }
        cs
    }

    /// One of the built-ins that choose a scope, on a random name.
    fn scope_cmd(&mut self) -> Cmd {
        let n = self.name();
        let v = if self.rng.chance(1, 2) { Some(self.scalar()) } else { None };
        match self.rng.below(16) {
            0..=3 => Cmd::Readonly(n, v),
            4..=6 => Cmd::Export(n, v),
            7..=9 => Cmd::Typeset {
                temps: vec![],
                global: self.rng.chance(1, 2),
                export: self.rng.chance(1, 4),
                readonly: self.rng.chance(1, 6),
                name: n,
                value: v,
            },
            10..=11 => Cmd::Unset(n),
            12 => {
                if self.rng.chance(1, 2) {
                    Cmd::Read(vec![], n, (*self.rng.pick(&["7", "8"])).to_string())
                } else {
                    Cmd::Getopts(if self.rng.chance(1, 4) { self.temps() } else { vec![] }, n)
                }
            }
            13 => Cmd::For(n, vec!["1".to_string()], vec![]),
            14 => Cmd::Assign(vec![(n, self.scalar())]),
            _ => Cmd::Special(vec![(n, self.scalar())]),
        }
    }
    /// One level of a call chain: optional local declaration, scope built-ins,
    /// a probe, optionally a deeper call (with or without a temporary
    /// assignment) followed by a probe and an executed program.
    fn scope_level(&mut self, depth: usize) -> Vec<Cmd> {
        let mut b = vec![];
        if depth > 0 && self.rng.chance(1, 3) {
            let name = self.name();
            let value = if self.rng.chance(3, 4) { Some(self.scalar()) } else { None };
            b.push(Cmd::Typeset { temps: vec![], global: false, export: self.rng.chance(1, 5), readonly: false, name, value });
        }
        for _ in 0..self.rng.below(3) {
            b.push(self.scope_cmd());
        }
        b.push(Cmd::Probe(vec![]));
        if depth < 3 && self.rng.chance(if depth == 0 { 9 } else { 5 }, 10) {
            let temps = if self.rng.chance(1, 3) { vec![(self.name(), self.scalar())] } else { vec![] };
            let body = self.scope_level(depth + 1);
            b.push(Cmd::Call(temps, body, self.args()));
            b.push(Cmd::Probe(vec![]));
            if self.rng.chance(1, 2) {
                b.push(Cmd::Exec(vec![]));
            }
            if self.rng.chance(1, 3) {
                b.push(self.scope_cmd());
                b.push(Cmd::Probe(vec![]));
            }
        }
        b
    }
    fn scope_script(&mut self) -> Vec<Cmd> {
        let mut cs = vec![];
        for n in ["a", "b"] {
            match self.rng.below(4) {
                0 => cs.push(Cmd::Assign(vec![(n.to_string(), Val::Scalar("g".into()))])),
                1 => cs.push(Cmd::Export(n.to_string(), Some(Val::Scalar("g".into())))),
                _ => {}
            }
        }
        cs.extend(self.scope_level(0));
        cs.push(Cmd::Exec(vec![]));
        cs
    }

    fn cmd(&mut self, depth: usize) -> Cmd {
        loop {
            return match self.rng.below(100) {
                0..=13 => {
                    let mut a = self.temps();
                    if a.is_empty() {
                        a.push((self.name(), self.value()));
                    }
                    Cmd::Assign(a)
                }
                14..=33 => Cmd::Probe(self.temps()),
                34..=39 => Cmd::Special(self.temps()),
                40..=55 => {
                    if depth >= 3 {
                        continue;
                    }
                    let n = 1 + self.rng.below(5);
                    let t = self.temps();
                    let mut body = self.cmds(n, depth + 1);
                    // `return` somewhere in the body: the rest does not run
                    if self.rng.chance(1, 4) {
                        let at = self.rng.below(body.len() + 1);
                        body.insert(at, Cmd::Return);
                    }
                    Cmd::Call(t, body, self.args())
                }
                56..=71 => Cmd::Typeset {
                    temps: if self.rng.chance(1, 3) { self.temps() } else { vec![] },
                    global: self.rng.chance(1, 4),
                    export: self.rng.chance(1, 4),
                    readonly: self.rng.chance(1, 16),
                    name: self.name(),
                    value: if self.rng.chance(2, 3) { Some(self.scalar()) } else { None },
                },
                72..=77 => {
                    let v = if self.rng.chance(1, 2) { Some(self.scalar()) } else { None };
                    Cmd::Export(self.name(), v)
                }
                78..=79 => {
                    let v = if self.rng.chance(1, 3) { Some(self.scalar()) } else { None };
                    Cmd::Readonly(self.name(), v)
                }
                80..=87 => Cmd::Unset(self.name()),
                88 => Cmd::SetParams(self.args()),
                89..=90 => {
                    if depth >= 3 {
                        continue;
                    }
                    let k = self.rng.below(3);
                    let vals: Vec<String> =
                        (0..k).map(|_| (*self.rng.pick(&["1", "2", "x y", ""])).to_string()).collect();
                    let n = 1 + self.rng.below(3);
                    let name = self.name();
                    Cmd::For(name, vals, self.cmds(n, depth + 1))
                }
                91..=94 => {
                    let t = if self.rng.chance(1, 2) { self.temps() } else { vec![] };
                    let n = self.name();
                    Cmd::Read(t, n, (*self.rng.pick(&["7", "8", "w", ""])).to_string())
                }
                _ => Cmd::Exec(self.temps()),
            };
        }
    }
}

fn script_corpus() -> Vec<Vec<Cmd>> {
    let a = || s("a");
    let sc = |x: &str| Val::Scalar(s(x));
    vec![
        // temporary assignments: regular built-in, special built-in, function, external
        vec![
            Cmd::Assign(vec![(a(), sc("g"))]),
            Cmd::Probe(vec![(a(), sc("t"))]),
            Cmd::Probe(vec![]),
            Cmd::Exec(vec![(a(), sc("t"))]),
            Cmd::Exec(vec![]),
            Cmd::Call(vec![(a(), sc("t"))], vec![Cmd::Probe(vec![])], vec![s("p")]),
            Cmd::Probe(vec![]),
            Cmd::Special(vec![(a(), sc("s"))]),
            Cmd::Probe(vec![]),
        ],
        // locals and positional parameters vanish at return, globals persist
        vec![
            Cmd::SetParams(vec![s("o1"), s("o2")]),
            Cmd::Call(
                vec![],
                vec![
                    Cmd::Typeset { temps: vec![], global: false, export: false, readonly: false, name: a(), value: Some(sc("l")) },
                    Cmd::Assign(vec![(s("b"), sc("g"))]),
                    Cmd::SetParams(vec![s("i")]),
                    Cmd::Probe(vec![]),
                ],
                vec![s("p"), s("q")],
            ),
            Cmd::Probe(vec![]),
        ],
        // a function that assigns the temporarily assigned variable: it moves to the base context
        vec![
            Cmd::Call(vec![(a(), sc("t"))], vec![Cmd::Assign(vec![(a(), sc("n"))]), Cmd::Probe(vec![])], vec![]),
            Cmd::Probe(vec![]),
            Cmd::Exec(vec![]),
        ],
        // typeset on a temporarily assigned variable
        vec![
            Cmd::Typeset { temps: vec![(a(), sc("t"))], global: false, export: false, readonly: false, name: a(), value: None },
            Cmd::Probe(vec![]),
            Cmd::Exec(vec![]),
        ],
        // read-only: assignment is fatal, typeset is not, a local may hide it
        vec![
            Cmd::Readonly(a(), Some(sc("r"))),
            Cmd::Typeset { temps: vec![], global: false, export: true, readonly: false, name: a(), value: Some(sc("x")) },
            Cmd::Probe(vec![]),
            Cmd::Call(
                vec![],
                vec![
                    Cmd::Typeset { temps: vec![], global: false, export: false, readonly: false, name: a(), value: Some(sc("l")) },
                    Cmd::Probe(vec![]),
                ],
                vec![],
            ),
            Cmd::Probe(vec![]),
            Cmd::Probe(vec![(a(), sc("t"))]),
            Cmd::Probe(vec![]),
        ],
        vec![Cmd::Readonly(a(), Some(sc("r"))), Cmd::Unset(a()), Cmd::Probe(vec![])],
        // read-only WITHOUT a value: `readonly v; unset v; v=1; vars`
        vec![Cmd::Readonly(a(), None), Cmd::Probe(vec![]), Cmd::Unset(a()), Cmd::Assign(vec![(a(), sc("1"))]), Cmd::Probe(vec![])],
        vec![Cmd::Readonly(a(), None), Cmd::Probe(vec![(a(), sc("t"))]), Cmd::Probe(vec![])],
        vec![Cmd::Readonly(a(), None), Cmd::Read(vec![], a(), s("7")), Cmd::Probe(vec![]),
             Cmd::Typeset { temps: vec![], global: false, export: false, readonly: false, name: a(), value: Some(sc("2")) },
             Cmd::Probe(vec![]), Cmd::Special(vec![(a(), sc("s"))]), Cmd::Probe(vec![])],
        // `f() { typeset -r w; unset w; w=2; }`
        vec![
            Cmd::Call(vec![], vec![
                Cmd::Typeset { temps: vec![], global: false, export: false, readonly: true, name: a(), value: None },
                Cmd::Probe(vec![]), Cmd::Unset(a()), Cmd::Assign(vec![(a(), sc("2"))]), Cmd::Probe(vec![])], vec![]),
            Cmd::Probe(vec![]),
        ],
        vec![
            Cmd::Call(vec![], vec![
                Cmd::Typeset { temps: vec![], global: false, export: false, readonly: true, name: a(), value: None },
                Cmd::Assign(vec![(a(), sc("2"))]), Cmd::Probe(vec![])], vec![]),
            Cmd::Probe(vec![]),
        ],
        // a value-less read-only local hiding a global: the unset is refused,
        // after the return the global is back and can be unset and assigned
        vec![
            Cmd::Assign(vec![(a(), sc("g"))]),
            Cmd::Call(vec![], vec![
                Cmd::Typeset { temps: vec![], global: false, export: false, readonly: true, name: a(), value: None },
                Cmd::Probe(vec![]),
                Cmd::Typeset { temps: vec![], global: false, export: false, readonly: false, name: a(), value: Some(sc("2")) },
                Cmd::Read(vec![], a(), s("7")),
                Cmd::Probe(vec![])], vec![]),
            Cmd::Probe(vec![]), Cmd::Unset(a()), Cmd::Probe(vec![]), Cmd::Assign(vec![(a(), sc("n"))]), Cmd::Probe(vec![]),
        ],
        vec![
            Cmd::Assign(vec![(a(), sc("g"))]),
            Cmd::Call(vec![], vec![
                Cmd::Typeset { temps: vec![], global: false, export: false, readonly: true, name: a(), value: None },
                Cmd::Unset(a()), Cmd::Probe(vec![])], vec![]),
            Cmd::Probe(vec![]),
        ],
        // a value-less read-only global hidden by a local: unset inside is refused
        vec![
            Cmd::Readonly(a(), None),
            Cmd::Call(vec![], vec![
                Cmd::Typeset { temps: vec![], global: false, export: false, readonly: false, name: a(), value: Some(sc("l")) },
                Cmd::Probe(vec![]), Cmd::Unset(a()), Cmd::Probe(vec![])], vec![]),
            Cmd::Probe(vec![]),
        ],
        // for: the variable is assigned in the enclosing scope and persists
        vec![
            Cmd::For(a(), vec![s("1"), s("2")], vec![Cmd::Probe(vec![]), Cmd::Exec(vec![])]),
            Cmd::Probe(vec![]),
            Cmd::Call(vec![(a(), sc("t"))], vec![
                Cmd::Typeset { temps: vec![], global: false, export: false, readonly: false, name: s("b"), value: None },
                Cmd::For(s("b"), vec![s("x")], vec![Cmd::Probe(vec![])]),
                Cmd::For(a(), vec![s("y"), s("z")], vec![Cmd::Probe(vec![])]),
                Cmd::Probe(vec![])], vec![]),
            Cmd::Probe(vec![]),
            Cmd::Readonly(s("c"), None),
            Cmd::For(s("c"), vec![s("1")], vec![Cmd::Probe(vec![])]),
            Cmd::Probe(vec![]),
        ],
        // return out of nested calls: every level pops its own contexts
        vec![
            Cmd::Assign(vec![(a(), sc("g"))]),
            Cmd::SetParams(vec![s("o")]),
            Cmd::Call(vec![(a(), sc("t1"))], vec![
                Cmd::Typeset { temps: vec![], global: false, export: false, readonly: false, name: s("b"), value: Some(sc("l1")) },
                Cmd::Call(vec![(s("b"), sc("t2"))], vec![
                    Cmd::Typeset { temps: vec![], global: false, export: false, readonly: false, name: s("c"), value: Some(sc("l2")) },
                    Cmd::Probe(vec![]),
                    Cmd::Return,
                    Cmd::Assign(vec![(a(), sc("never"))]),
                    Cmd::Probe(vec![])], vec![s("p2")]),
                Cmd::Probe(vec![]),
                Cmd::Return,
                Cmd::Probe(vec![])], vec![s("p1")]),
            Cmd::Probe(vec![]),
            Cmd::Exec(vec![]),
        ],
        // read on a temporarily assigned variable: the value read stays, exported
        vec![
            Cmd::Assign(vec![(s("b"), sc("0"))]),
            Cmd::Read(vec![(a(), sc("t"))], a(), s("7")),
            Cmd::Read(vec![(s("b"), sc("t"))], s("b"), s("8")),
            Cmd::Probe(vec![]),
            Cmd::Exec(vec![]),
            Cmd::Readonly(s("c"), Some(sc("r"))),
            Cmd::Read(vec![], s("c"), s("9")),
            Cmd::Probe(vec![]),
        ],
        vec![Cmd::Readonly(a(), None), Cmd::Assign(vec![(a(), sc("2"))]), Cmd::Probe(vec![])],
    ]
}

/// Stream "script_scope": every variable-affecting built-in of the command
/// language, at every depth, observed inside the function AND after every
/// return (probe + environment of an executed program).
///
/// form   = what is done to the name `a` (readonly / export / typeset with and
///          without -g, -x, -r / unset / read / getopts / for / plain and special-built-in
///          assignment, alone or after a local declaration of the same name)
/// layout = where: top level; in a function; in a function called from a
///          function (whose caller has / has not a local `a`); in a function
///          called with the temporary assignment `a=t`; the same one level down
/// pre    = the state of `a` before: unset, a global, an exported global
///
/// The stack-of-maps specification decides what must be seen: readonly, export,
/// unset, read, for and assignments act on the visible variable or create a
/// GLOBAL one (they persist after the return unless they hit a local of a
/// caller); typeset without -g creates a LOCAL one (gone at the return).
fn scope_scripts() -> Vec<(String, String, Vec<Cmd>)> {
    let a = || s("a");
    let sc = |x: &str| Val::Scalar(s(x));
    let ts = |g: bool, x: bool, r: bool, v: Option<&str>| Cmd::Typeset {
        temps: vec![],
        global: g,
        export: x,
        readonly: r,
        name: s("a"),
        value: v.map(|v| Val::Scalar(s(v))),
    };
    let forms: Vec<(&str, Vec<Cmd>)> = vec![
        ("readonly", vec![Cmd::Readonly(a(), None)]),
        ("readonly=", vec![Cmd::Readonly(a(), Some(sc("R")))]),
        ("export", vec![Cmd::Export(a(), None)]),
        ("export=", vec![Cmd::Export(a(), Some(sc("X")))]),
        ("readonly=;export", vec![Cmd::Readonly(a(), Some(sc("E"))), Cmd::Export(a(), None)]),
        ("export;assign", vec![Cmd::Export(a(), None), Cmd::Assign(vec![(a(), sc("v"))])]),
        ("typeset", vec![ts(false, false, false, None)]),
        ("typeset=", vec![ts(false, false, false, Some("l"))]),
        ("typeset-x=", vec![ts(false, true, false, Some("l"))]),
        ("typeset-r=", vec![ts(false, false, true, Some("l"))]),
        ("typeset-g", vec![ts(true, false, false, None)]),
        ("typeset-g=", vec![ts(true, false, false, Some("G"))]),
        ("typeset-gx=", vec![ts(true, true, false, Some("G"))]),
        ("typeset-gr", vec![ts(true, false, true, None)]),
        ("unset", vec![Cmd::Unset(a())]),
        ("read", vec![Cmd::Read(vec![], a(), s("7"))]),
        ("read_with_temp", vec![Cmd::Read(vec![(a(), sc("t"))], a(), s("7"))]),
        ("getopts", vec![Cmd::Getopts(vec![], a())]),
        ("getopts_with_temp", vec![Cmd::Getopts(vec![(a(), sc("t"))], a())]),
        ("typeset=;getopts", vec![ts(false, false, false, Some("l")), Cmd::Getopts(vec![], a())]),
        ("for", vec![Cmd::For(a(), vec![s("1"), s("2")], vec![])]),
        ("assign", vec![Cmd::Assign(vec![(a(), sc("v"))])]),
        ("special", vec![Cmd::Special(vec![(a(), sc("s"))])]),
        ("typeset=;readonly", vec![ts(false, false, false, Some("l")), Cmd::Readonly(a(), None)]),
        ("typeset=;export", vec![ts(false, false, false, Some("l")), Cmd::Export(a(), None)]),
        ("typeset=;unset", vec![ts(false, false, false, Some("l")), Cmd::Probe(vec![]), Cmd::Unset(a())]),
        ("typeset=;read", vec![ts(false, false, false, Some("l")), Cmd::Read(vec![], a(), s("7"))]),
        ("typeset=;for", vec![ts(false, false, false, Some("l")), Cmd::For(a(), vec![s("1")], vec![])]),
        ("typeset=;typeset-g=", vec![ts(false, false, false, Some("l")), ts(true, false, false, Some("G"))]),
        ("typeset=;assign", vec![ts(false, false, false, Some("l")), Cmd::Assign(vec![(a(), sc("v"))])]),
    ];
    let pres: Vec<(&str, Vec<Cmd>)> = vec![
        ("unset", vec![]),
        ("global", vec![Cmd::Assign(vec![(a(), sc("g"))])]),
        ("exported", vec![Cmd::Export(a(), Some(sc("g")))]),
    ];
    let p = || Cmd::Probe(vec![]);
    let e = || Cmd::Exec(vec![]);
    let mut out = vec![];
    for (fname, form) in &forms {
        for (pname, pre) in &pres {
            // the form, then what is seen right there
            let inner = |before: bool| {
                let mut b = vec![];
                if before {
                    b.push(p());
                }
                b.extend(form.iter().cloned());
                b.push(p());
                b.push(e());
                b
            };
            let layouts: Vec<(&str, Vec<Cmd>)> = vec![
                ("top", inner(false)),
                ("function", vec![Cmd::Call(vec![], inner(true), vec![s("p")]), p(), e()]),
                (
                    "nested",
                    vec![Cmd::Call(vec![], vec![Cmd::Call(vec![], inner(false), vec![]), p(), e()], vec![]), p(), e()],
                ),
                (
                    "nested_under_local",
                    vec![
                        Cmd::Call(
                            vec![],
                            vec![
                                ts(false, false, false, Some("o")),
                                Cmd::Call(vec![], inner(false), vec![]),
                                p(),
                                e(),
                                // is the caller's local still writable?
                                Cmd::Read(vec![], a(), s("w")),
                                p(),
                            ],
                            vec![],
                        ),
                        p(),
                        e(),
                    ],
                ),
                ("function_with_temp", vec![Cmd::Call(vec![(a(), sc("t"))], inner(true), vec![]), p(), e()]),
                (
                    "nested_with_temp",
                    vec![
                        Cmd::Call(vec![], vec![Cmd::Call(vec![(a(), sc("t"))], inner(false), vec![]), p(), e()], vec![]),
                        p(),
                        e(),
                    ],
                ),
            ];
            for (lname, layout) in layouts {
                let mut cs = pre.clone();
                cs.extend(layout);
                // after everything: can the variable still be changed?
                cs.push(Cmd::Read(vec![], a(), s("z")));
                cs.push(p());
                out.push((format!("{fname}|{pname}"), lname.to_string(), cs));
            }
        }
    }
    out
}

fn main() {
    let args = Args::parse();
    if std::env::var_os("YV_C16_PANIC_MESSAGES").is_none() {
        std::panic::set_hook(Box::new(|_| {}));
    }
    let mut rng = Rng::new(args.seed);
    let mut w = CasesWriter::new(&args, "Yv.C16.Run", 120);

    for (names, ops) in corpus() {
        emit(&mut w, &names, &ops, false, "corpus");
        emit(&mut w, &names, &ops, true, "corpus");
    }

    // bounded-exhaustive on one name
    let one = vec![s("a")];
    enumerate(&mut w, &one, if args.thorough() { 4 } else { 2 }, alphabet, "exhaustive");
    // ... and on value-less read-only variables
    enumerate(&mut w, &one, if args.thorough() { 4 } else { 3 }, ro_alphabet, "exhaustive_ro");

    // random histories on 2-3 names
    let n = args.scale(700, 12000);
    for k in 0..n {
        let mut r = rng.fork(k as u64);
        let mut names = vec![s("a"), s("b")];
        match r.below(4) {
            0 => names.push(s("c")),
            1 => names.push(s("e=q")),
            _ => {}
        }
        let len = if args.thorough() { 2 + r.below(30) } else { 2 + r.below(22) };
        let ops = random_history(&mut r, &names, len);
        emit(&mut w, &names, &ops, r.chance(1, 4), "random");
    }
    // random histories about value-less read-only variables
    let n = args.scale(400, 6000);
    for k in 0..n {
        let mut r = rng.fork(2_000_000 + k as u64);
        let names = vec![s("a"), s("b")];
        let len = 3 + r.below(if args.thorough() { 14 } else { 10 });
        let ops = ro_history(&mut r, &names, len);
        emit(&mut w, &names, &ops, r.chance(1, 4), "random_ro");
    }
    // stream 2: scripts
    for mut cs in script_corpus() {
        cs.push(Cmd::Probe(vec![]));
        emit_script(&mut w, &cs, "script_corpus");
    }
    let n = args.scale(250, 4000);
    for k in 0..n {
        let mut r = rng.fork(1_000_000 + k as u64);
        let len = if args.thorough() { 2 + r.below(14) } else { 2 + r.below(10) };
        let mut g = SGen { rng: &mut r };
        let mut cs = g.cmds(len, 0);
        cs.push(Cmd::Probe(vec![]));
        emit_script(&mut w, &cs, "script");
    }
    // scripts about value-less read-only variables
    let n = args.scale(150, 1500);
    for k in 0..n {
        let mut r = rng.fork(3_000_000 + k as u64);
        let mut g = SGen { rng: &mut r };
        let mut cs = g.ro_script();
        cs.push(Cmd::Probe(vec![]));
        emit_script(&mut w, &cs, "script_ro");
    }
    // scripts about the scope chosen by each variable-affecting built-in, at every depth,
    // observed inside and after the return: systematic, then random
    for (form, layout, cs) in scope_scripts() {
        w.count(&format!("script_scope:layout:{layout}"));
        w.count(&format!("script_scope:form:{}", form.split('|').next().unwrap()));
        emit_script(&mut w, &cs, "script_scope");
    }
    let n = args.scale(120, 2000);
    for k in 0..n {
        let mut r = rng.fork(4_000_000 + k as u64);
        let mut g = SGen { rng: &mut r };
        let mut cs = g.scope_script();
        cs.push(Cmd::Probe(vec![]));
        emit_script(&mut w, &cs, "script_scope_random");
    }
    w.finish(
        "stream 1: histories of VariableSet operations through the public API (guards), \
         bounded-exhaustive on one name (full alphabet; alphabet of value-less read-only variables) + random on 2-3 names (general; biased to value-less read-only variables hiding one another, then unset/assign); non-trivial = a volatile context \
         was used and (something was made read-only or two contexts were stacked); \
         distinct = by operation sequence.  stream 2: generated scripts (temporary assignments before \
         regular / special built-ins, functions, external utilities; typeset, export, readonly, unset, \
         set --, read; a sub-stream about value-less read-only variables; a sub-stream script_scope = every \
         scope-choosing built-in (readonly, export, typeset [-g][-x][-r], unset, read, getopts (its NAME operand), for, plain and special-built-in assignment, \
         alone or after a local declaration) x {top level, function, nested call, nested call under a caller's local, \
         function called with a temporary assignment, the same one level down} x {unset, global, exported global}, \
         probed inside and after every return, + random call chains of such built-ins) run by the real shell on the simulated OS, observed by a probe built-in and by the \
         environment of executed programs; non-trivial = has a function call, a temporary assignment \
         and at least three observations; distinct = by script text",
    );
}
