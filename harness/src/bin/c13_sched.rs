//! Schedule-controlling executor for the simulated OS (shared by the C13 and
//! C14 harness binaries through `#[path = "c13_sched.rs"] mod sched;`).
//!
//! `yash_env::system::virtual::SystemState::executor` is pluggable.  The
//! executor defined here keeps every task (= the run loop of one simulated
//! process, or a bare future in the single-process streams) in a table with a
//! wake flag.  At every scheduling point the *harness* decides which of the
//! woken tasks is polled next ([`Policy`]): the order used by yash-rs's own
//! tests (FIFO), its reverse, a seeded random choice, or a replayed prefix of
//! choices (depth-first enumeration of schedules).
#![allow(dead_code)]

use std::cell::{Cell, RefCell};
use std::future::Future;
use std::ops::ControlFlow::{Break, Continue};
use std::panic::{AssertUnwindSafe, catch_unwind};
use std::pin::Pin;
use std::rc::Rc;
use std::sync::Arc;
use std::sync::atomic::{AtomicBool, Ordering};
use std::task::{Context, Poll, Wake, Waker};
use yash_cli::startup::args::{Parse, parse as parse_args};
use yash_cli::startup::configure_environment;
use yash_cli::startup::input::prepare_input;
use yash_env::Env;
use yash_env::semantics::Divert;
use yash_env::system::Concurrent;
use yash_env::system::r#virtual::{Executor, VirtualSystem};
use yash_semantics::read_eval_loop;
use yash_semantics::trap::run_exit_trap;
use yv_harness::rng::Rng;
use yv_harness::vsh::{self, Outcome, RunOpts, State, VEnv};

/// This file is also picked up by cargo as a binary of its own.
pub fn main() {}

/// Kills the harness when one run of the real code never returns (an endless
/// loop inside a single poll cannot be interrupted from the inside): the
/// driver then reports the broken run instead of waiting for its own timeout.
pub struct Watchdog {
    progress: Arc<std::sync::atomic::AtomicU64>,
    current: Arc<std::sync::Mutex<String>>,
}

impl Watchdog {
    pub fn start(limit: std::time::Duration) -> Watchdog {
        let progress = Arc::new(std::sync::atomic::AtomicU64::new(0));
        let current = Arc::new(std::sync::Mutex::new(String::new()));
        let (p2, c2) = (Arc::clone(&progress), Arc::clone(&current));
        std::thread::spawn(move || {
            let mut last = p2.load(Ordering::SeqCst);
            let mut since = std::time::Instant::now();
            loop {
                std::thread::sleep(std::time::Duration::from_millis(500));
                let now = p2.load(Ordering::SeqCst);
                if now != last {
                    last = now;
                    since = std::time::Instant::now();
                } else if since.elapsed() > limit {
                    let what = c2.lock().map(|s| s.clone()).unwrap_or_default();
                    eprintln!("harness: no progress for {limit:?}; the code under test does not return on:\n{what}");
                    std::process::exit(3);
                }
            }
        });
        Watchdog { progress, current }
    }
    /// Call before every run of the code under test.
    pub fn tick(&self, what: &str) {
        self.progress.fetch_add(1, Ordering::SeqCst);
        if let Ok(mut c) = self.current.lock() {
            c.clear();
            c.push_str(what);
        }
    }
}

pub struct WakeFlag(AtomicBool);

impl Wake for WakeFlag {
    fn wake(self: Arc<Self>) {
        self.0.store(true, Ordering::SeqCst);
    }
    fn wake_by_ref(self: &Arc<Self>) {
        self.0.store(true, Ordering::SeqCst);
    }
}

type Task = Pin<Box<dyn Future<Output = ()>>>;

struct Slot {
    fut: Option<Task>,
    flag: Arc<WakeFlag>,
}

#[derive(Default)]
pub struct SchedInner {
    tasks: RefCell<Vec<Slot>>,
    incoming: RefCell<Vec<Task>>,
}

impl std::fmt::Debug for SchedInner {
    fn fmt(&self, f: &mut std::fmt::Formatter<'_>) -> std::fmt::Result {
        write!(f, "Sched({} tasks)", self.tasks.borrow().len())
    }
}

/// The handle that is installed as `SystemState::executor`.
#[derive(Clone, Debug, Default)]
pub struct Sched(pub Rc<SchedInner>);

impl Executor for Sched {
    fn spawn(&self, task: Task) -> Result<(), Box<dyn std::error::Error>> {
        self.0.incoming.borrow_mut().push(task);
        Ok(())
    }
}

impl Sched {
    pub fn new() -> Sched {
        Sched::default()
    }
    /// Adds a task; returns its index.
    pub fn add(&self, task: Task) -> usize {
        self.admit();
        let mut t = self.0.tasks.borrow_mut();
        t.push(Slot { fut: Some(task), flag: Arc::new(WakeFlag(AtomicBool::new(true))) });
        t.len() - 1
    }
    fn admit(&self) {
        let inc: Vec<Task> = std::mem::take(&mut *self.0.incoming.borrow_mut());
        let mut t = self.0.tasks.borrow_mut();
        for task in inc {
            t.push(Slot { fut: Some(task), flag: Arc::new(WakeFlag(AtomicBool::new(true))) });
        }
    }
    /// Indices of the tasks that are alive and have been woken.
    pub fn runnable(&self) -> Vec<usize> {
        self.admit();
        self.0
            .tasks
            .borrow()
            .iter()
            .enumerate()
            .filter(|(_, s)| s.fut.is_some() && s.flag.0.load(Ordering::SeqCst))
            .map(|(i, _)| i)
            .collect()
    }
    pub fn is_woken(&self, i: usize) -> bool {
        let t = self.0.tasks.borrow();
        t[i].fut.is_some() && t[i].flag.0.load(Ordering::SeqCst)
    }
    pub fn is_done(&self, i: usize) -> bool {
        self.0.tasks.borrow()[i].fut.is_none()
    }
    pub fn task_count(&self) -> usize {
        self.admit();
        self.0.tasks.borrow().len()
    }
    pub fn live_count(&self) -> usize {
        self.admit();
        self.0.tasks.borrow().iter().filter(|s| s.fut.is_some()).count()
    }
    /// Polls task `i` once (clearing its wake flag first).  Returns true if it completed.
    pub fn poll(&self, i: usize) -> bool {
        let (mut fut, flag) = {
            let mut t = self.0.tasks.borrow_mut();
            let s = &mut t[i];
            s.flag.0.store(false, Ordering::SeqCst);
            (s.fut.take().expect("polling a finished task"), Arc::clone(&s.flag))
        };
        let waker = Waker::from(flag);
        let mut cx = Context::from_waker(&waker);
        let r = fut.as_mut().poll(&mut cx);
        match r {
            Poll::Ready(()) => true,
            Poll::Pending => {
                self.0.tasks.borrow_mut()[i].fut = Some(fut);
                false
            }
        }
    }
    /// Drops all remaining tasks (breaks Rc cycles between tasks and the system state).
    pub fn clear(&self) {
        let tasks: Vec<Slot> = std::mem::take(&mut *self.0.tasks.borrow_mut());
        drop(tasks);
        let inc: Vec<Task> = std::mem::take(&mut *self.0.incoming.borrow_mut());
        drop(inc);
    }
}

/// When false, virtual time advances only when no process can run (so that the
/// order of events at different virtual times does not depend on the schedule).
pub static EARLY_TICK: AtomicBool = AtomicBool::new(true);

/// How the next task is chosen among `n` runnable ones.
#[derive(Clone, Debug)]
pub enum Policy {
    /// lowest task index first (close to the order of yash-rs's own executor)
    First,
    /// highest task index first (newest process first)
    Last,
    /// uniformly random
    Random(Rng),
    /// random, but the main task (index 0) is chosen only if nothing else can run
    MainLast(Rng),
    /// random, but the main task is preferred whenever it can run
    MainFirst(Rng),
    /// replay the given choices, then always the first runnable task
    Prefix(Vec<usize>),
}

/// What the scheduler does next.
#[derive(Clone, Copy, Debug, PartialEq, Eq)]
pub enum Choice {
    /// poll the task with this index
    Task(usize),
    /// let virtual time pass up to the next scheduled wake-up (a sleeping
    /// process becomes runnable) although other tasks could run
    Tick,
}

/// The choices made in one run: `(chosen position, number of runnable tasks)`.
pub type Path = Vec<(usize, usize)>;

pub struct Chooser {
    pub policy: Policy,
    pub path: Path,
    /// indices of the tasks polled, in order
    pub polled: Vec<usize>,
}

impl Chooser {
    pub fn new(policy: Policy) -> Chooser {
        Chooser { policy, path: vec![], polled: vec![] }
    }
    /// `runnable` is non-empty; `can_tick` says whether a sleeping process exists.
    pub fn choose(&mut self, runnable: &[usize], can_tick: bool) -> Choice {
        let nr = runnable.len();
        let n = nr + can_tick as usize;
        let step = self.path.len();
        let k = match &mut self.policy {
            Policy::First => 0,
            Policy::Last => nr - 1,
            Policy::Random(r) => r.below(n),
            Policy::MainLast(r) => {
                if n > 1 && runnable[0] == 0 { 1 + r.below(n - 1) } else { r.below(n) }
            }
            Policy::MainFirst(r) => {
                if runnable[0] == 0 && r.chance(3, 4) { 0 } else { r.below(n) }
            }
            Policy::Prefix(p) => p.get(step).copied().unwrap_or(0).min(n - 1),
        };
        self.path.push((k, n));
        if k < nr {
            self.polled.push(runnable[k]);
            Choice::Task(runnable[k])
        } else {
            self.polled.push(usize::MAX);
            Choice::Tick
        }
    }
    /// Number of scheduling points at which more than one task could run.
    pub fn branch_points(&self) -> usize {
        self.path.iter().filter(|(_, n)| *n > 1).count()
    }
}

/// The next schedule prefix in depth-first order after `path` (restricted to
/// the first `depth` scheduling points), or `None` when the tree is exhausted.
pub fn next_prefix(path: &Path, depth: usize) -> Option<Vec<usize>> {
    let mut p: Vec<(usize, usize)> = path.iter().take(depth).cloned().collect();
    while let Some((k, n)) = p.pop() {
        if k + 1 < n {
            let mut v: Vec<usize> = p.iter().map(|(k, _)| *k).collect();
            v.push(k + 1);
            return Some(v);
        }
    }
    None
}

/// What a scheduled run reports besides the shell's own outcome.
#[derive(Clone, Debug, Default)]
pub struct SchedInfo {
    pub path: Path,
    pub polled: Vec<usize>,
    pub tasks: usize,
    /// processes of the virtual system other than the main one: (pid, alive, unreaped)
    pub children: Vec<(i32, bool, bool)>,
}

/// Drives a future on a fresh virtual system under the given scheduling policy.
pub fn drive_sched<F, Fut, T>(
    task: F,
    chooser: &mut Chooser,
    max_steps: usize,
) -> (Option<T>, bool, bool, State, Sched)
where
    F: FnOnce(VEnv, State) -> Fut,
    Fut: Future<Output = T> + 'static,
    T: 'static,
{
    let system = VirtualSystem::new();
    let state = Rc::clone(&system.state);
    state.borrow_mut().now = Some(std::time::Instant::now());
    let sched = Sched::new();
    state.borrow_mut().executor = Some(Rc::new(sched.clone()));
    let env = Env::with_system(Rc::new(Concurrent::new(system)));
    let concurrent = Rc::clone(&env.system);
    let task = task(env, Rc::clone(&state));
    let result = Rc::new(Cell::new(None));
    let passer = Rc::clone(&result);
    let runner = async move {
        let inner = async move { passer.set(Some(task.await)) };
        concurrent.run_virtual(inner).await
    };
    sched.add(Box::pin(runner));
    let mut steps = 0;
    loop {
        if let Some(r) = result.take() {
            return (Some(r), false, false, state, sched);
        }
        let runnable = sched.runnable();
        if runnable.is_empty() {
            let mut st = state.borrow_mut();
            let next = st.scheduled_wakers.next_wake_time();
            if let Some(t) = next {
                st.advance_time(t);
            }
            drop(st);
            if sched.runnable().is_empty() {
                return (None, true, false, state, sched);
            }
            continue;
        }
        steps += 1;
        if steps > max_steps {
            return (None, false, true, state, sched);
        }
        let can_tick = EARLY_TICK.load(Ordering::SeqCst)
            && state.borrow().scheduled_wakers.next_wake_time().is_some();
        match chooser.choose(&runnable, can_tick) {
            Choice::Task(i) => {
                sched.poll(i);
            }
            Choice::Tick => {
                let mut st = state.borrow_mut();
                if let Some(t) = st.scheduled_wakers.next_wake_time() {
                    st.advance_time(t);
                }
            }
        }
    }
}

/// `vsh::run_shell` under a scheduling policy.  `setup` registers extra built-ins.
pub fn run_shell_sched<F>(
    opts: RunOpts,
    setup: F,
    policy: Policy,
    max_steps: usize,
) -> (Outcome, SchedInfo)
where
    F: FnOnce(&mut VEnv, &State) + 'static,
{
    vsh::trace_take();
    let mut chooser = Chooser::new(policy);
    let r = catch_unwind(AssertUnwindSafe(|| {
        let (res, deadlock, timeout, state, sched) = drive_sched(
            move |mut env, state| {
                for (p, c) in &opts.files {
                    vsh::write_file(&state, p, c);
                }
                if let Some(input) = &opts.stdin {
                    vsh::write_file(&state, "/dev/stdin", input);
                }
                async move {
                    let mut argv = vec!["yash".to_string()];
                    argv.extend(opts.argv.iter().cloned());
                    let run = match parse_args(argv) {
                        Ok(Parse::Run(run)) => run,
                        _ => return 2,
                    };
                    let work = configure_environment(&mut env, run).await;
                    vsh::install_probes(&mut env);
                    setup(&mut env, &state);
                    let ref_env = RefCell::new(&mut env);
                    let lexer = match prepare_input(&ref_env, &work.source).await {
                        Ok(lexer) => lexer,
                        Err(_) => return 127,
                    };
                    let result = read_eval_loop(&ref_env, &mut { lexer }).await;
                    let env = ref_env.into_inner();
                    env.apply_result(result);
                    match result {
                        Continue(())
                        | Break(Divert::Continue { .. })
                        | Break(Divert::Break { .. })
                        | Break(Divert::Return(_))
                        | Break(Divert::Interrupt(_))
                        | Break(Divert::Exit(_)) => run_exit_trap(env).await,
                        Break(Divert::Abort(_)) => (),
                    }
                    env.exit_status.0
                }
            },
            &mut chooser,
            max_steps,
        );
        // Let the children that can still run finish (the main task is done):
        // a child that is alive after this is a leaked process.
        let mut extra = 0;
        if res.is_some() {
            loop {
                let runnable: Vec<usize> = sched.runnable();
                if runnable.is_empty() || extra > max_steps {
                    break;
                }
                extra += 1;
                sched.poll(runnable[0]);
            }
        }
        let tasks = sched.task_count();
        let children: Vec<(i32, bool, bool)> = state
            .borrow()
            .processes
            .iter()
            .filter(|(pid, _)| pid.0 != 2)
            .map(|(pid, p)| (pid.0, p.state().is_alive(), p.state_has_changed()))
            .collect();
        sched.clear();
        (res, deadlock, timeout, state, tasks, children)
    }));
    let trace = vsh::trace_take();
    match r {
        Ok((res, deadlock, timeout, state, tasks, children)) => {
            let get = |p: &str| {
                vsh::read_file(&state, p)
                    .map(|b| String::from_utf8_lossy(&b).into_owned())
                    .unwrap_or_default()
            };
            (
                Outcome {
                    stdout: get("/dev/stdout"),
                    stderr: get("/dev/stderr"),
                    status: res.unwrap_or(-1),
                    trace,
                    panicked: None,
                    deadlock,
                    timeout,
                },
                SchedInfo { path: chooser.path, polled: chooser.polled, tasks, children },
            )
        }
        Err(e) => {
            let msg = if let Some(s) = e.downcast_ref::<&str>() {
                s.to_string()
            } else if let Some(s) = e.downcast_ref::<String>() {
                s.clone()
            } else {
                "panic".to_string()
            };
            (
                Outcome { trace, panicked: Some(msg), status: -2, ..Default::default() },
                SchedInfo { path: chooser.path, polled: chooser.polled, ..Default::default() },
            )
        }
    }
}
