//! C15 — small task systems on the real `yash_executor::Executor`.
//!
//! A case is a table of task scripts and a plan of what the driver does from
//! outside (spawn a root task, signal/pulse a flag, `step()`, drain with
//! `step()`, `run_until_stalled()`).  Tasks are instrumented futures that
//! interpret their script (yield after waking themselves, wait on flag k,
//! signal/pulse flag k, spawn a child through the `Spawner`, await / try the
//! receiver of a child, complete with a value) and report every poll, every
//! waker they invoke and every value they receive.  The log is written next to
//! the input; Coq evaluates the oracle (`Yv.C15.Spec.oracle`) on the log and
//! compares the log with the one the model (`Yv.C15.Model.model_run`) makes.

use std::cell::RefCell;
use std::collections::{BTreeSet, VecDeque};
use std::future::Future;
use std::panic::{AssertUnwindSafe, catch_unwind};
use std::pin::Pin;
use std::rc::Rc;
use std::task::{Context, Poll, Waker};
use yash_executor::forwarder::{Receiver, TryReceiveError};
use yash_executor::{Executor, Spawner};
use yv_harness::cli::Args;
use yv_harness::coq;
use yv_harness::out::CasesWriter;
use yv_harness::rng::Rng;

#[derive(Clone, Copy, Debug, PartialEq, Eq, Hash, PartialOrd, Ord)]
enum Action {
    Yield(usize),
    Wait(usize),
    Signal(usize),
    Pulse(usize),
    Spawn(usize),
    Join,
    Try,
    Done(u64),
}

#[derive(Clone, Copy, Debug, PartialEq, Eq)]
enum XAct {
    Spawn(usize),
    Signal(usize),
    Pulse(usize),
    Step,
    Drain,
    Run,
}

#[derive(Clone, Copy, Debug, PartialEq, Eq)]
enum TryRes {
    NotSent,
    Ok(u64),
    Already,
    Dropped,
}

#[derive(Clone, Copy, Debug, PartialEq, Eq)]
enum DAct {
    Spawn(usize),
    Pulse(usize),
}

#[derive(Clone, Copy, Debug, PartialEq, Eq)]
enum DOut {
    SpawnErr,
    Spawned,
    Quiet,
    Panic,
}

#[derive(Clone, Copy, Debug, PartialEq, Eq)]
enum FOp {
    Send(u64),
    Poll(usize),
    Try,
    DropSender,
    DropReceiver,
}

#[derive(Clone, Copy, Debug, PartialEq, Eq)]
enum FOut {
    Sent(Option<usize>),
    SendErr(u64),
    Pending,
    Ready(u64),
    Try(TryRes),
    Dropped,
    Skip,
    Panic,
}

#[derive(Clone, Debug, PartialEq, Eq)]
enum PEvent {
    Wake(usize),
    Spawn(usize, usize),
    Set(usize),
    Reg(usize),
    JoinReg(usize),
    Got(usize, u64),
    Try(usize, TryRes),
    Complete(u64),
}

/// Flat event stream; turned into records afterwards.
#[derive(Clone, Debug)]
enum Ev {
    Begin(usize),
    P(PEvent),
    End(usize, bool),
    ExtBegin,
    ExtEnd,
    StepRet(Option<bool>, usize),
    RunRet(usize, usize),
    Panic,
    Fuel,
}

#[derive(Clone, Debug, PartialEq, Eq)]
enum Rec {
    Ext(Vec<PEvent>),
    Poll(usize, Vec<PEvent>, bool),
    Step(Option<bool>, usize),
    Run(usize, usize),
    Panic,
    Nested,
    Fuel,
}

struct World {
    scripts: Vec<Vec<Action>>,
    flags: BTreeSet<usize>,
    waiters: Vec<(usize, usize, Waker)>, // (flag, task, its waker), oldest first
    next_tid: usize,
    events: Vec<Ev>,
    polls: usize,
    fuel: usize,
    spawner: Spawner<'static>,
}

type W = Rc<RefCell<World>>;

struct ScriptTask {
    id: usize,
    pc: VecDeque<Action>,
    recvs: VecDeque<(usize, Receiver<u64>)>,
    world: W,
}

fn log(w: &W, e: PEvent) {
    w.borrow_mut().events.push(Ev::P(e));
}

fn new_task(w: &W, s: usize) -> ScriptTask {
    let mut wb = w.borrow_mut();
    let id = wb.next_tid;
    wb.next_tid += 1;
    let pc: VecDeque<Action> = wb.scripts.get(s).cloned().unwrap_or_default().into();
    wb.events.push(Ev::P(PEvent::Spawn(id, s)));
    ScriptTask { id, pc, recvs: VecDeque::new(), world: Rc::clone(w) }
}

/// Wakes (by reference) every waker registered on flag `k`.  No borrow of the
/// world is held while a waker runs.
fn wake_registered(w: &W, k: usize) {
    let ws: Vec<(usize, Waker)> = w
        .borrow()
        .waiters
        .iter()
        .filter(|(f, _, _)| *f == k)
        .map(|(_, t, wk)| (*t, wk.clone()))
        .collect();
    for (i, (t, wk)) in ws.into_iter().enumerate() {
        log(w, PEvent::Wake(t));
        // both entries of the waker vtable: by reference, and by value on a clone
        if i % 2 == 0 {
            wk.wake_by_ref();
        } else {
            wk.clone().wake();
        }
    }
}

fn try_res(r: Result<u64, TryReceiveError>) -> TryRes {
    match r {
        Ok(v) => TryRes::Ok(v),
        Err(TryReceiveError::NotSent) => TryRes::NotSent,
        Err(TryReceiveError::AlreadyReceived) => TryRes::Already,
        Err(TryReceiveError::SenderDropped) => TryRes::Dropped,
    }
}

impl Future for ScriptTask {
    type Output = u64;

    fn poll(self: Pin<&mut Self>, cx: &mut Context<'_>) -> Poll<u64> {
        let this = self.get_mut();
        let w = Rc::clone(&this.world);
        {
            let mut wb = w.borrow_mut();
            wb.events.push(Ev::Begin(this.id));
            wb.polls += 1;
            if wb.polls > wb.fuel {
                drop(wb);
                panic!("c15: poll budget exhausted");
            }
        }
        let result = loop {
            let Some(a) = this.pc.front().copied() else {
                break Poll::Ready(0);
            };
            match a {
                Action::Done(v) => break Poll::Ready(v),
                Action::Yield(n) => {
                    this.pc.pop_front();
                    for _ in 0..=n {
                        log(&w, PEvent::Wake(this.id));
                        cx.waker().wake_by_ref();
                    }
                    break Poll::Pending;
                }
                Action::Wait(k) => {
                    if w.borrow().flags.contains(&k) {
                        this.pc.pop_front();
                    } else {
                        let wk = cx.waker().clone();
                        let mut wb = w.borrow_mut();
                        wb.waiters.push((k, this.id, wk));
                        wb.events.push(Ev::P(PEvent::Reg(k)));
                        break Poll::Pending;
                    }
                }
                Action::Signal(k) => {
                    this.pc.pop_front();
                    w.borrow_mut().flags.insert(k);
                    log(&w, PEvent::Set(k));
                    wake_registered(&w, k);
                }
                Action::Pulse(k) => {
                    this.pc.pop_front();
                    wake_registered(&w, k);
                }
                Action::Spawn(s) => {
                    this.pc.pop_front();
                    let child = new_task(&w, s);
                    let cid = child.id;
                    let spawner = w.borrow().spawner.clone();
                    let r = unsafe { spawner.spawn(child) };
                    match r {
                        Ok(r) => this.recvs.push_back((cid, r)),
                        Err(_) => panic!("c15: spawner is dead"),
                    }
                }
                Action::Join => {
                    if let Some((rid, r)) = this.recvs.front_mut() {
                        let rid = *rid;
                        match Pin::new(r).poll(cx) {
                            Poll::Ready(v) => {
                                log(&w, PEvent::Got(rid, v));
                                this.recvs.pop_front();
                                this.pc.pop_front();
                            }
                            Poll::Pending => {
                                log(&w, PEvent::JoinReg(rid));
                                break Poll::Pending;
                            }
                        }
                    } else {
                        this.pc.pop_front();
                    }
                }
                Action::Try => {
                    this.pc.pop_front();
                    if let Some((rid, r)) = this.recvs.front() {
                        let res = try_res(r.try_receive());
                        log(&w, PEvent::Try(*rid, res));
                        if let TryRes::Ok(_) = res {
                            this.recvs.pop_front();
                        }
                    }
                }
            }
        };
        if let Poll::Ready(v) = result {
            this.pc.clear();
            log(&w, PEvent::Complete(v));
        }
        w.borrow_mut().events.push(Ev::End(this.id, result.is_ready()));
        result
    }
}

struct Outcome {
    douts: Vec<DOut>,
    log: Vec<Rec>,
    obs: Vec<(usize, TryRes, TryRes)>,
    polls: usize,
    tasks: usize,
    fuel_out: bool,
}

fn to_records(events: &[Ev]) -> Vec<Rec> {
    let mut out = vec![];
    let mut open: Option<(usize, Vec<PEvent>)> = None;
    let mut ext: Option<Vec<PEvent>> = None;
    for e in events {
        match e {
            Ev::Begin(t) => {
                if let Some((t0, evs)) = open.take() {
                    // a poll inside a poll
                    out.push(Rec::Poll(t0, evs, false));
                    out.push(Rec::Nested);
                }
                if let Some(evs) = ext.take() {
                    // a poll from inside a driver action (wake or spawn polled inline)
                    out.push(Rec::Ext(evs));
                    out.push(Rec::Nested);
                }
                open = Some((*t, vec![]));
            }
            Ev::P(p) => {
                if let Some((_, evs)) = open.as_mut() {
                    evs.push(p.clone());
                } else if let Some(evs) = ext.as_mut() {
                    evs.push(p.clone());
                } else {
                    out.push(Rec::Ext(vec![p.clone()]));
                }
            }
            Ev::End(t, r) => match open.take() {
                Some((t0, evs)) if t0 == *t => out.push(Rec::Poll(t0, evs, *r)),
                _ => out.push(Rec::Nested),
            },
            Ev::ExtBegin => ext = Some(vec![]),
            Ev::ExtEnd => {
                if let Some(evs) = ext.take() {
                    out.push(Rec::Ext(evs));
                }
            }
            Ev::StepRet(r, wc) => out.push(Rec::Step(*r, *wc)),
            Ev::RunRet(n, wc) => out.push(Rec::Run(*n, *wc)),
            Ev::Panic => {
                if let Some((t0, evs)) = open.take() {
                    out.push(Rec::Poll(t0, evs, false));
                }
                if let Some(evs) = ext.take() {
                    out.push(Rec::Ext(evs));
                }
                out.push(Rec::Panic);
            }
            Ev::Fuel => out.push(Rec::Fuel),
        }
    }
    out
}

fn run_system(fuel: usize, scripts: &[Vec<Action>], plan: &[XAct], tail: Option<&[DAct]>) -> Outcome {
    let executor: Executor<'static> = Executor::new();
    let w: W = Rc::new(RefCell::new(World {
        scripts: scripts.to_vec(),
        flags: BTreeSet::new(),
        waiters: vec![],
        next_tid: 0,
        events: vec![],
        polls: 0,
        fuel,
        spawner: executor.spawner(),
    }));
    let mut roots: Vec<(usize, Receiver<u64>)> = vec![];
    let mut panicked = false;
    let mut fuel_out = false;
    let ev = |e: Ev| w.borrow_mut().events.push(e);
    'plan: for x in plan {
        let r = catch_unwind(AssertUnwindSafe(|| match *x {
            XAct::Spawn(s) => {
                ev(Ev::ExtBegin);
                let t = new_task(&w, s);
                let id = t.id;
                let r = unsafe { executor.spawn(t) };
                ev(Ev::ExtEnd);
                Some((id, r))
            }
            XAct::Signal(k) => {
                ev(Ev::ExtBegin);
                w.borrow_mut().flags.insert(k);
                log(&w, PEvent::Set(k));
                wake_registered(&w, k);
                ev(Ev::ExtEnd);
                None
            }
            XAct::Pulse(k) => {
                ev(Ev::ExtBegin);
                wake_registered(&w, k);
                ev(Ev::ExtEnd);
                None
            }
            XAct::Step => {
                let r = executor.step();
                ev(Ev::StepRet(r, executor.wake_count()));
                None
            }
            XAct::Drain => {
                let mut n = 0;
                loop {
                    if n >= fuel {
                        ev(Ev::Fuel);
                        break;
                    }
                    n += 1;
                    let r = executor.step();
                    ev(Ev::StepRet(r, executor.wake_count()));
                    if r.is_none() {
                        break;
                    }
                }
                None
            }
            XAct::Run => {
                let n = executor.run_until_stalled();
                ev(Ev::RunRet(n, executor.wake_count()));
                None
            }
        }));
        match r {
            Ok(Some(root)) => roots.push(root),
            Ok(None) => {}
            Err(_) => {
                ev(Ev::Panic);
                panicked = true;
                break 'plan;
            }
        }
        if matches!(w.borrow().events.last(), Some(Ev::Fuel)) {
            fuel_out = true;
            break 'plan;
        }
    }
    let mut douts = vec![];
    if let Some(tail) = tail {
        // the executor goes away; the spawner, the wakers and the receivers stay
        let spawner = w.borrow().spawner.clone();
        drop(executor);
        if !panicked {
            for a in tail {
                let r = catch_unwind(AssertUnwindSafe(|| match *a {
                    DAct::Spawn(s) => {
                        let pc: VecDeque<Action> = scripts.get(s).cloned().unwrap_or_default().into();
                        let t = ScriptTask { id: usize::MAX, pc, recvs: VecDeque::new(), world: Rc::clone(&w) };
                        match unsafe { spawner.spawn(t) } {
                            Ok(_) => DOut::Spawned,
                            Err(_) => DOut::SpawnErr,
                        }
                    }
                    DAct::Pulse(k) => {
                        let ws: Vec<Waker> = w
                            .borrow()
                            .waiters
                            .iter()
                            .filter(|(f, _, _)| *f == k)
                            .map(|(_, _, wk)| wk.clone())
                            .collect();
                        for (i, wk) in ws.into_iter().enumerate() {
                            if i % 2 == 0 { wk.wake_by_ref() } else { wk.wake() }
                        }
                        DOut::Quiet
                    }
                }));
                douts.push(r.unwrap_or(DOut::Panic));
            }
        }
    }
    let mut obs = vec![];
    if !panicked {
        for (id, r) in &roots {
            let a = try_res(r.try_receive());
            let b = try_res(r.try_receive());
            obs.push((*id, a, b));
        }
    }
    let wb = w.borrow();
    let fuel_out = fuel_out || wb.polls > fuel;
    Outcome { douts, log: to_records(&wb.events), obs, polls: wb.polls, tasks: wb.next_tid, fuel_out }
}

// ---- printing ---------------------------------------------------------------

impl Action {
    fn coq(&self) -> String {
        match self {
            Action::Yield(n) => format!("(AYield {})", n),
            Action::Wait(k) => format!("(AWait {})", k),
            Action::Signal(k) => format!("(ASignal {})", k),
            Action::Pulse(k) => format!("(APulse {})", k),
            Action::Spawn(s) => format!("(ASpawn {})", s),
            Action::Join => "AJoin".into(),
            Action::Try => "ATry".into(),
            Action::Done(v) => format!("(ADone {})", coq::n(*v)),
        }
    }
    fn show(&self) -> String {
        match self {
            Action::Yield(0) => "yield".into(),
            Action::Yield(n) => format!("yield*{}", n + 1),
            Action::Wait(k) => format!("wait{k}"),
            Action::Signal(k) => format!("signal{k}"),
            Action::Pulse(k) => format!("pulse{k}"),
            Action::Spawn(s) => format!("spawn#{s}"),
            Action::Join => "join".into(),
            Action::Try => "try".into(),
            Action::Done(v) => format!("done{v}"),
        }
    }
}

impl XAct {
    fn coq(&self) -> String {
        match self {
            XAct::Spawn(s) => format!("(XSpawn {})", s),
            XAct::Signal(k) => format!("(XSignal {})", k),
            XAct::Pulse(k) => format!("(XPulse {})", k),
            XAct::Step => "XStep".into(),
            XAct::Drain => "XDrain".into(),
            XAct::Run => "XRun".into(),
        }
    }
    fn show(&self) -> String {
        match self {
            XAct::Spawn(s) => format!("spawn#{s}"),
            XAct::Signal(k) => format!("signal{k}"),
            XAct::Pulse(k) => format!("pulse{k}"),
            XAct::Step => "step".into(),
            XAct::Drain => "drain".into(),
            XAct::Run => "run".into(),
        }
    }
}

impl TryRes {
    fn coq(&self) -> String {
        match self {
            TryRes::NotSent => "TNotSent".into(),
            TryRes::Ok(v) => format!("(TOk {})", coq::n(*v)),
            TryRes::Already => "TAlready".into(),
            TryRes::Dropped => "TDropped".into(),
        }
    }
    fn show(&self) -> String {
        match self {
            TryRes::NotSent => "notsent".into(),
            TryRes::Ok(v) => format!("ok{v}"),
            TryRes::Already => "already".into(),
            TryRes::Dropped => "dropped".into(),
        }
    }
}

impl PEvent {
    fn coq(&self) -> String {
        match self {
            PEvent::Wake(t) => format!("PWake {}", t),
            PEvent::Spawn(c, s) => format!("PSpawn {} {}", c, s),
            PEvent::Set(k) => format!("PSet {}", k),
            PEvent::Reg(k) => format!("PReg {}", k),
            PEvent::JoinReg(r) => format!("PJoinReg {}", r),
            PEvent::Got(r, v) => format!("PGot {} {}", r, coq::n(*v)),
            PEvent::Try(r, x) => format!("PTry {} {}", r, x.coq()),
            PEvent::Complete(v) => format!("PComplete {}", coq::n(*v)),
        }
    }
    fn show(&self) -> String {
        match self {
            PEvent::Wake(t) => format!("wake{t}"),
            PEvent::Spawn(c, s) => format!("spawn{c}#{s}"),
            PEvent::Set(k) => format!("set{k}"),
            PEvent::Reg(k) => format!("reg{k}"),
            PEvent::JoinReg(r) => format!("joinreg{r}"),
            PEvent::Got(r, v) => format!("got{r}={v}"),
            PEvent::Try(r, x) => format!("try{r}={}", x.show()),
            PEvent::Complete(v) => format!("complete{v}"),
        }
    }
}

fn evs_coq(evs: &[PEvent]) -> String {
    coq::list(&evs.iter().map(|e| e.coq()).collect::<Vec<_>>())
}
fn evs_show(evs: &[PEvent]) -> String {
    evs.iter().map(|e| e.show()).collect::<Vec<_>>().join(",")
}

impl Rec {
    fn coq(&self) -> String {
        match self {
            Rec::Ext(evs) => format!("LExt {}", evs_coq(evs)),
            Rec::Poll(t, evs, r) => format!("LPoll {} {} {}", t, evs_coq(evs), coq::b(*r)),
            Rec::Step(r, wc) => format!("LStep {} {}", coq::opt(r.map(coq::b)), wc),
            Rec::Run(n, wc) => format!("LRun {} {}", n, wc),
            Rec::Panic => "LPanic".into(),
            Rec::Nested => "LNested".into(),
            Rec::Fuel => "LFuel".into(),
        }
    }
    fn show(&self) -> String {
        match self {
            Rec::Ext(evs) => format!("ext[{}]", evs_show(evs)),
            Rec::Poll(t, evs, r) => {
                format!("poll{t}[{}]{}", evs_show(evs), if *r { "=ready" } else { "=pending" })
            }
            Rec::Step(r, wc) => format!("step={:?}/wc{wc}", r),
            Rec::Run(n, wc) => format!("run={n}/wc{wc}"),
            Rec::Panic => "PANIC".into(),
            Rec::Nested => "NESTED".into(),
            Rec::Fuel => "FUEL".into(),
        }
    }
}

const FUEL: usize = 2000;

/// Runs the case on the real executor and writes it.  Returns false if the case
/// was dropped (step budget exhausted).
fn emit(w: &mut CasesWriter, stream: &str, scripts: &[Vec<Action>], plan: &[XAct]) -> bool {
    emit_tail(w, stream, scripts, plan, None)
}

fn emit_tail(
    w: &mut CasesWriter,
    stream: &str,
    scripts: &[Vec<Action>],
    plan: &[XAct],
    tail: Option<&[DAct]>,
) -> bool {
    let o = run_system(FUEL, scripts, plan, tail);
    if o.fuel_out {
        w.count("dropped:budget");
        return false;
    }
    w.count(&format!("stream:{stream}"));
    w.count(&format!("tasks:{}", o.tasks.min(9)));
    w.count(&format!("polls:{}", match o.polls {
        0..=3 => "0-3",
        4..=7 => "4-7",
        8..=15 => "8-15",
        16..=31 => "16-31",
        _ => "32+",
    }));
    let mut dup_wake = false;
    let mut stale_skip = false;
    let mut joined = false;
    let mut blocked_end = false;
    for r in &o.log {
        match r {
            Rec::Poll(_, evs, _) | Rec::Ext(evs) => {
                let mut seen = BTreeSet::new();
                for e in evs {
                    match e {
                        PEvent::Wake(t) => {
                            if !seen.insert(*t) {
                                dup_wake = true;
                            }
                        }
                        PEvent::Got(..) => joined = true,
                        _ => {}
                    }
                }
            }
            _ => {}
        }
    }
    for i in 0..o.log.len() {
        if let Rec::Step(Some(true), _) = o.log[i] {
            if i == 0 || !matches!(o.log[i - 1], Rec::Poll(..)) {
                stale_skip = true;
            }
        }
    }
    let done: BTreeSet<usize> = o
        .log
        .iter()
        .filter_map(|r| if let Rec::Poll(t, _, true) = r { Some(*t) } else { None })
        .collect();
    if done.len() < o.tasks {
        blocked_end = true;
    }
    if dup_wake {
        w.count("feature:duplicate-wake-in-one-poll");
    }
    if stale_skip {
        w.count("feature:finished-task-woken-and-skipped");
    }
    if joined {
        w.count("feature:result-received-by-join");
    }
    if blocked_end {
        w.count("feature:ends-with-blocked-task");
    }
    if o.log.iter().any(|r| matches!(r, Rec::Panic | Rec::Nested)) {
        w.count("feature:panic-or-nested");
    }
    for s in scripts {
        for a in s {
            w.count(match a {
                Action::Yield(_) => "action:yield",
                Action::Wait(_) => "action:wait",
                Action::Signal(_) => "action:signal",
                Action::Pulse(_) => "action:pulse",
                Action::Spawn(_) => "action:spawn",
                Action::Join => "action:join",
                Action::Try => "action:try",
                Action::Done(_) => "action:done",
            });
        }
    }
    let scripts_coq: Vec<String> = scripts
        .iter()
        .map(|s| coq::list(&s.iter().map(|a| a.coq()).collect::<Vec<_>>()))
        .collect();
    let plan_coq: Vec<String> = plan.iter().map(|x| x.coq()).collect();
    let log_coq: Vec<String> = o.log.iter().map(|r| r.coq()).collect();
    let obs_coq: Vec<String> = o
        .obs
        .iter()
        .map(|(t, a, b)| format!("({}, ({}, {}))", t, a.coq(), b.coq()))
        .collect();
    let inp = format!(
        "({}, {}, {})",
        FUEL,
        list_typed(&scripts_coq, "script"),
        list_typed(&plan_coq, "xact")
    );
    let term = match tail {
        None => format!(
            "(CSys {} ({}, {}))",
            inp,
            list_typed(&log_coq, "rec"),
            list_typed(&obs_coq, "tid * (tryres * tryres)")
        ),
        Some(tail) => {
            let tail_coq: Vec<String> = tail
                .iter()
                .map(|a| match a {
                    DAct::Spawn(s) => format!("DSpawn {}", s),
                    DAct::Pulse(k) => format!("DPulse {}", k),
                })
                .collect();
            let douts_coq: Vec<String> = o
                .douts
                .iter()
                .map(|d| match d {
                    DOut::SpawnErr => "DoSpawnErr".to_string(),
                    DOut::Spawned => "DoSpawned".to_string(),
                    DOut::Quiet => "DoQuiet".to_string(),
                    DOut::Panic => "DoPanic".to_string(),
                })
                .collect();
            if o.obs.iter().any(|(_, a, _)| *a == TryRes::Dropped) {
                w.count("feature:sender-dropped-with-executor");
            }
            format!(
                "(CDead {} {} ({}, {}, {}))",
                inp,
                list_typed(&tail_coq, "dact"),
                list_typed(&log_coq, "rec"),
                list_typed(&douts_coq, "dout"),
                list_typed(&obs_coq, "tid * (tryres * tryres)")
            )
        }
    };
    let show_scripts: Vec<String> = scripts
        .iter()
        .enumerate()
        .map(|(i, s)| format!("#{i}:[{}]", s.iter().map(|a| a.show()).collect::<Vec<_>>().join(" ")))
        .collect();
    let json = format!(
        "{{\"scripts\":{},\"plan\":{},\"after_dropping_executor\":{},\"log\":{},\"receivers\":{}}}",
        yv_harness::json_str(&show_scripts.join(" ")),
        yv_harness::json_str(&plan.iter().map(|x| x.show()).collect::<Vec<_>>().join(" ")),
        yv_harness::json_str(&match tail {
            None => "-".to_string(),
            Some(t) => format!("{:?} -> {:?}", t, o.douts),
        }),
        yv_harness::json_str(&o.log.iter().map(|r| r.show()).collect::<Vec<_>>().join(" ")),
        yv_harness::json_str(
            &o.obs
                .iter()
                .map(|(t, a, b)| format!("{t}:{}/{}", a.show(), b.show()))
                .collect::<Vec<_>>()
                .join(" ")
        )
    );
    // non-trivial: at least two tasks, and some wake-up had to be ordered,
    // deduplicated or relayed (a task polled more than once, or woken by another)
    let polled_twice = {
        let mut seen = BTreeSet::new();
        o.log.iter().any(|r| if let Rec::Poll(t, ..) = r { !seen.insert(*t) } else { false })
    };
    let key = if o.tasks >= 2 && polled_twice {
        Some(format!("{}|{}", show_scripts.join(" "), plan_coq.join(" ")))
    } else {
        None
    };
    w.push(&term, &json, &[], key);
    true
}

fn list_typed(items: &[String], ty: &str) -> String {
    if items.is_empty() {
        format!("(@nil ({}))", ty)
    } else {
        format!("[{}]", items.join("; "))
    }
}

// ---- generators -----------------------------------------------------------------

fn random_action(r: &mut Rng, idx: usize, nscripts: usize, nflags: usize, held: usize) -> Action {
    loop {
        // a task that holds receivers is likely to use them
        if held > 0 && r.chance(2, 5) {
            return if r.chance(3, 4) { Action::Join } else { Action::Try };
        }
        return match r.below(100) {
            0..=17 => Action::Yield(if r.chance(1, 4) { 1 + r.below(2) } else { 0 }),
            18..=37 => Action::Wait(r.below(nflags)),
            38..=52 => Action::Signal(r.below(nflags)),
            53..=60 => Action::Pulse(r.below(nflags)),
            61..=82 => {
                // spawn only scripts with a larger index: finite task trees
                if idx + 1 >= nscripts {
                    continue;
                }
                Action::Spawn(idx + 1 + r.below(nscripts - idx - 1))
            }
            83..=89 => Action::Join,
            90..=93 => Action::Try,
            _ => Action::Done(1 + r.below(9) as u64),
        };
    }
}

fn random_script(r: &mut Rng, idx: usize, nscripts: usize, nflags: usize, maxlen: usize) -> Vec<Action> {
    let len = r.below(maxlen + 1);
    let mut held = 0usize;
    let mut s = vec![];
    for _ in 0..len {
        let a = random_action(r, idx, nscripts, nflags, held);
        match a {
            Action::Spawn(_) => held += 1,
            Action::Join => held = held.saturating_sub(1),
            _ => {}
        }
        s.push(a);
    }
    s
}

fn random_system(r: &mut Rng, big: bool) -> (Vec<Vec<Action>>, Vec<XAct>) {
    let nscripts = 1 + r.below(if big { 7 } else { 4 });
    let nflags = 1 + r.below(3);
    let maxlen = if big { 9 } else { 5 };
    let scripts: Vec<Vec<Action>> =
        (0..nscripts).map(|i| random_script(r, i, nscripts, nflags, maxlen)).collect();
    let mut plan = vec![];
    let nroots = 1 + r.below(if big { 5 } else { 3 });
    for _ in 0..nroots {
        plan.push(XAct::Spawn(r.below(nscripts)));
        if r.chance(1, 4) {
            plan.push(XAct::Step);
        }
    }
    let rounds = 1 + r.below(3);
    for round in 0..rounds {
        let nsteps = if r.chance(1, 3) { r.below(6) } else { 0 };
        for _ in 0..nsteps {
            plan.push(XAct::Step);
            if r.chance(1, 5) {
                plan.push(if r.chance(1, 2) {
                    XAct::Pulse(r.below(nflags))
                } else {
                    XAct::Signal(r.below(nflags))
                });
            }
        }
        plan.push(if r.chance(1, 2) { XAct::Drain } else { XAct::Run });
        if round + 1 < rounds {
            match r.below(3) {
                0 => plan.push(XAct::Signal(r.below(nflags))),
                1 => plan.push(XAct::Pulse(r.below(nflags))),
                _ => plan.push(XAct::Spawn(r.below(nscripts))),
            }
        }
    }
    (scripts, plan)
}

fn corpus() -> Vec<(Vec<Vec<Action>>, Vec<XAct>)> {
    use Action::*;
    vec![
        // a task that keeps re-waking itself must not starve the other one
        (
            vec![vec![Yield(0), Yield(0), Yield(0), Done(1)], vec![Yield(0), Done(2)]],
            vec![XAct::Spawn(0), XAct::Spawn(1), XAct::Drain],
        ),
        // duplicate self-wakes: queued once
        (vec![vec![Yield(2), Done(3)]], vec![XAct::Spawn(0), XAct::Drain]),
        // wake while being polled by another task; waiter registered twice
        (
            vec![vec![Wait(0), Done(1)], vec![Pulse(0), Yield(0), Signal(0), Done(2)]],
            vec![XAct::Spawn(0), XAct::Spawn(1), XAct::Drain],
        ),
        // a finished task is woken again: step skips it and answers Some(true)
        (
            vec![vec![Wait(0), Done(1)], vec![Signal(0), Yield(0), Pulse(0)]],
            vec![XAct::Spawn(0), XAct::Spawn(1), XAct::Drain],
        ),
        (
            vec![vec![Wait(0), Done(1)], vec![Signal(0), Yield(0), Pulse(0)]],
            vec![XAct::Spawn(0), XAct::Spawn(1), XAct::Run],
        ),
        // parent awaits its child: relay Polled -> Computed -> Done
        (
            vec![vec![Spawn(1), Join, Done(5)], vec![Yield(0), Done(7)]],
            vec![XAct::Spawn(0), XAct::Run],
        ),
        // child finishes first: relay Pending -> Computed -> Done
        (
            vec![vec![Spawn(1), Yield(0), Yield(0), Join], vec![Done(7)]],
            vec![XAct::Spawn(0), XAct::Drain],
        ),
        // try_receive before and after the child finished
        (
            vec![vec![Spawn(1), Try, Yield(0), Try, Try, Join], vec![Done(4)]],
            vec![XAct::Spawn(0), XAct::Drain],
        ),
        // stall with tasks blocked for ever; woken later from outside
        (
            vec![vec![Wait(0), Done(1)], vec![Spawn(0), Join, Done(2)]],
            vec![XAct::Spawn(1), XAct::Drain, XAct::Pulse(0), XAct::Drain, XAct::Signal(0), XAct::Run],
        ),
        // nothing to do
        (vec![vec![]], vec![XAct::Drain, XAct::Run, XAct::Step]),
    ]
}

const ALPHABET: [Action; 7] = [
    Action::Yield(0),
    Action::Yield(1),
    Action::Wait(0),
    Action::Signal(0),
    Action::Pulse(0),
    Action::Join,
    Action::Done(3),
];

/// All scripts of at most `maxlen` actions over the alphabet plus `Spawn(child)`;
/// nothing after a `Done`.
fn all_scripts(maxlen: usize, child: Option<usize>) -> Vec<Vec<Action>> {
    let mut alpha: Vec<Action> = ALPHABET.to_vec();
    if let Some(c) = child {
        alpha.push(Action::Spawn(c));
    }
    let mut res: Vec<Vec<Action>> = vec![vec![]];
    let mut frontier: Vec<Vec<Action>> = vec![vec![]];
    for _ in 0..maxlen {
        let mut next = vec![];
        for s in &frontier {
            if matches!(s.last(), Some(Action::Done(_))) {
                continue;
            }
            for a in &alpha {
                let mut t = s.clone();
                t.push(*a);
                next.push(t);
            }
        }
        res.extend(next.iter().cloned());
        frontier = next;
    }
    res
}

// ---- one Sender/Receiver pair driven directly ----------------------------------

struct CountWaker {
    hits: std::sync::atomic::AtomicUsize,
}
impl std::task::Wake for CountWaker {
    fn wake(self: std::sync::Arc<Self>) {
        self.hits.fetch_add(1, std::sync::atomic::Ordering::SeqCst);
    }
}

fn run_pair(ops: &[FOp]) -> Vec<FOut> {
    use std::sync::Arc;
    use std::sync::atomic::Ordering;
    let (s, r) = yash_executor::forwarder::forwarder::<u64>();
    let mut sender = Some(s);
    let mut receiver = Some(r);
    let cws: Vec<Arc<CountWaker>> =
        (0..4).map(|_| Arc::new(CountWaker { hits: Default::default() })).collect();
    let wakers: Vec<Waker> = cws.iter().map(|c| Waker::from(Arc::clone(c))).collect();
    let mut outs = vec![];
    for op in ops {
        let r = catch_unwind(AssertUnwindSafe(|| match *op {
            FOp::Send(v) => match sender.take() {
                None => FOut::Skip,
                Some(s) => {
                    let before: Vec<usize> = cws.iter().map(|c| c.hits.load(Ordering::SeqCst)).collect();
                    match s.send(v) {
                        Ok(()) => {
                            let woken = (0..4).find(|i| cws[*i].hits.load(Ordering::SeqCst) > before[*i]);
                            FOut::Sent(woken)
                        }
                        Err(v) => FOut::SendErr(v),
                    }
                }
            },
            FOp::Poll(wi) => match receiver.as_mut() {
                None => FOut::Skip,
                Some(r) => {
                    let mut cx = Context::from_waker(&wakers[wi]);
                    match Pin::new(r).poll(&mut cx) {
                        Poll::Ready(v) => FOut::Ready(v),
                        Poll::Pending => FOut::Pending,
                    }
                }
            },
            FOp::Try => match receiver.as_ref() {
                None => FOut::Skip,
                Some(r) => FOut::Try(try_res(r.try_receive())),
            },
            FOp::DropSender => match sender.take() {
                None => FOut::Skip,
                Some(_) => FOut::Dropped,
            },
            FOp::DropReceiver => match receiver.take() {
                None => FOut::Skip,
                Some(_) => FOut::Dropped,
            },
        }));
        match r {
            Ok(o) => outs.push(o),
            Err(_) => {
                outs.push(FOut::Panic);
                // the RefCell of the relay may be left borrowed: forget the halves
                std::mem::forget(sender.take());
                std::mem::forget(receiver.take());
                break;
            }
        }
    }
    outs
}

fn emit_pair(w: &mut CasesWriter, ops: &[FOp]) {
    let outs = run_pair(ops);
    w.count("stream:sender-receiver-pair");
    for o in &outs {
        match o {
            FOut::SendErr(_) => w.count("feature:send-to-dropped-receiver"),
            FOut::Try(TryRes::Dropped) => w.count("feature:try_receive-sender-dropped"),
            FOut::Try(TryRes::Already) => w.count("feature:try_receive-already-received"),
            FOut::Panic => w.count("feature:poll-after-ready-panics"),
            _ => {}
        }
    }
    let ops_coq: Vec<String> = ops
        .iter()
        .map(|o| match o {
            FOp::Send(v) => format!("FSend {}", coq::n(*v)),
            FOp::Poll(i) => format!("FPoll {}", i),
            FOp::Try => "FTry".into(),
            FOp::DropSender => "FDropSender".into(),
            FOp::DropReceiver => "FDropReceiver".into(),
        })
        .collect();
    let outs_coq: Vec<String> = outs
        .iter()
        .map(|o| match o {
            FOut::Sent(x) => format!("FoSent {}", coq::opt(x.map(|i| i.to_string()))),
            FOut::SendErr(v) => format!("FoSendErr {}", coq::n(*v)),
            FOut::Pending => "FoPending".into(),
            FOut::Ready(v) => format!("FoReady {}", coq::n(*v)),
            FOut::Try(r) => format!("FoTry {}", r.coq()),
            FOut::Dropped => "FoDropped".into(),
            FOut::Skip => "FoSkip".into(),
            FOut::Panic => "FoPanic".into(),
        })
        .collect();
    let term = format!("(CPair {} {})", list_typed(&ops_coq, "fop"), list_typed(&outs_coq, "fout"));
    let json = format!(
        "{{\"pair_ops\":{},\"answers\":{}}}",
        yv_harness::json_str(&format!("{:?}", ops)),
        yv_harness::json_str(&format!("{:?}", outs))
    );
    w.push(&term, &json, &[], None);
}

fn random_pair_ops(r: &mut Rng) -> Vec<FOp> {
    let len = 1 + r.below(8);
    (0..len)
        .map(|_| match r.below(100) {
            0..=24 => FOp::Send(1 + r.below(9) as u64),
            25..=49 => FOp::Poll(r.below(4)),
            50..=74 => FOp::Try,
            75..=86 => FOp::DropSender,
            _ => FOp::DropReceiver,
        })
        .collect()
}

fn main() {
    let args = Args::parse();
    std::panic::set_hook(Box::new(|_| {}));
    let mut rng = Rng::new(args.seed);
    let mut w = CasesWriter::new(&args, "Yv.C15.Run", if args.thorough() { 400 } else { 100 });

    for (scripts, plan) in corpus() {
        emit(&mut w, "corpus", &scripts, &plan);
    }

    // small random systems
    let n_small = args.scale(700, 8000);
    for k in 0..n_small {
        let mut r = rng.fork(k as u64);
        let (scripts, plan) = random_system(&mut r, false);
        emit(&mut w, "random-small", &scripts, &plan);
    }
    // larger random systems
    let n_big = args.scale(300, 8000);
    for k in 0..n_big {
        let mut r = rng.fork(1_000_000 + k as u64);
        let (scripts, plan) = random_system(&mut r, true);
        emit(&mut w, "random-large", &scripts, &plan);
    }

    // the executor is dropped after the plan: SpawnError, silent wakes, SenderDropped
    let n_dead = args.scale(150, 3000);
    for k in 0..n_dead {
        let mut r = rng.fork(2_000_000 + k as u64);
        let (scripts, mut plan) = random_system(&mut r, false);
        // often stop early so that tasks are still queued when the executor goes
        if r.chance(2, 3) {
            let keep = 1 + r.below(plan.len());
            plan.truncate(keep);
            plan.retain(|x| !matches!(x, XAct::Drain | XAct::Run));
            for _ in 0..r.below(4) {
                plan.push(XAct::Step);
            }
        }
        let tail: Vec<DAct> = (0..1 + r.below(3))
            .map(|_| if r.chance(1, 2) { DAct::Spawn(r.below(scripts.len())) } else { DAct::Pulse(r.below(3)) })
            .collect();
        emit_tail(&mut w, "executor-dropped", &scripts, &plan, Some(&tail));
    }
    // Sender/Receiver pairs on their own
    emit_pair(&mut w, &[FOp::Poll(1), FOp::Poll(2), FOp::Send(7), FOp::Try, FOp::Try]);
    emit_pair(&mut w, &[FOp::DropReceiver, FOp::Send(3)]);
    emit_pair(&mut w, &[FOp::Try, FOp::DropSender, FOp::Try, FOp::Poll(0)]);
    emit_pair(&mut w, &[FOp::Send(5), FOp::Poll(0), FOp::Poll(0)]);
    let n_pair = args.scale(150, 3000);
    for k in 0..n_pair {
        let mut r = rng.fork(3_000_000 + k as u64);
        let ops = random_pair_ops(&mut r);
        emit_pair(&mut w, &ops);
    }

    if args.thorough() {
        let child = vec![Action::Yield(0), Action::Done(9)];
        let mut flip = false;
        let last = |flip: &mut bool| {
            *flip = !*flip;
            if *flip { XAct::Drain } else { XAct::Run }
        };
        // exhaustive: one root task, every script of <= 4 actions (script 1 = the
        // child it may spawn)
        for a in &all_scripts(4, Some(1)) {
            let plan = vec![XAct::Spawn(0), last(&mut flip)];
            emit(&mut w, "exhaustive-1", &[a.clone(), child.clone()], &plan);
        }
        // exhaustive: two root tasks, every pair of scripts of <= 3 actions, <= 4
        // in total (script 2 = the child both may spawn)
        let s3 = all_scripts(3, Some(2));
        for a in &s3 {
            for b in &s3 {
                if a.len() + b.len() > 4 {
                    continue;
                }
                let plan = vec![XAct::Spawn(0), XAct::Spawn(1), last(&mut flip)];
                emit(&mut w, "exhaustive-2", &[a.clone(), b.clone(), child.clone()], &plan);
            }
        }
        // exhaustive: three root tasks, scripts of <= 2 actions, <= 4 in total
        let s2 = all_scripts(2, None);
        for a in &s2 {
            for b in &s2 {
                for c in &s2 {
                    if a.len() + b.len() + c.len() > 4 {
                        continue;
                    }
                    let plan =
                        vec![XAct::Spawn(0), XAct::Spawn(1), XAct::Spawn(2), last(&mut flip)];
                    emit(&mut w, "exhaustive-3", &[a.clone(), b.clone(), c.clone()], &plan);
                }
            }
        }
        // exhaustive: four root tasks of <= 1 action
        let s1 = all_scripts(1, Some(4));
        for a in &s1 {
            for b in &s1 {
                for c in &s1 {
                    for d in &s1 {
                        let plan = vec![
                            XAct::Spawn(0),
                            XAct::Spawn(1),
                            XAct::Spawn(2),
                            XAct::Spawn(3),
                            last(&mut flip),
                        ];
                        emit(
                            &mut w,
                            "exhaustive-4",
                            &[a.clone(), b.clone(), c.clone(), d.clone(), child.clone()],
                            &plan,
                        );
                    }
                }
            }
        }
    }

    w.finish(
        "task systems (script table + driver plan) run on the real Executor; non-trivial = at \
         least two tasks and some task polled more than once; distinct = by scripts and plan",
    );
}
