//! C07 — quoting round trip and state listings.
//!
//! Streams (all random choices derive from `Rng::new(args.seed)`):
//!
//! * `KWs`     the code points for which the real `char::is_whitespace` holds
//!             (all of 0..=0x10FFFF are scanned) — the model's table must be it.
//! * `KQuote`  a string `s`, the real `yash_quote::quote(s)`, and what the real
//!             shell (whole scripts on the simulated OS) read when that text
//!             stands as a command argument, as the value of an assignment,
//!             as the value in a declaration-utility operand and behind `x=`
//!             in an ordinary argument.  HOME is set and the directory has
//!             files, so an unwanted tilde or pathname expansion shows.
//! * `KExh`    the same, bounded-exhaustively over an alphabet of every
//!             shell-special character, in blocks (compact result codes; any
//!             anomaly is also emitted as a full `KQuote`).
//! * `KLine`   arbitrary (not quoter-made) lines through the same three
//!             readers: validates the reader model itself.
//! * `KPair`   `quoted(name)=quoted(value)` as one argument (the `alias`
//!             listing format).
//! * `KLine` kind 3: array values `x=( ... )` (elements read through the API).
//! * `KUmask`  `umask` / `umask -S` output for a mask and the mask after
//!             `umask -- OPERAND` (octal, symbolic, malformed) against the
//!             umask model; all 512 masks in the thorough tier.
//! * `KListing` state listings re-evaluated by a fresh shell (see `listing`),
//!             at top level and from inside functions / subshells / eval.

use yash_env::variable::Scope;
use yv_harness::cli::Args;
use yv_harness::out::CasesWriter;
use yv_harness::rng::Rng;
use yv_harness::vsh::{self, Outcome, RunOpts, VEnv};
use yv_harness::{coq, json_str};

mod listing {
    //! State listings re-evaluated by a fresh shell.
    //!
    //! Shell A runs a generated definition script and then the listing
    //! command; its state is read through the public API of `Env` (not by
    //! parsing output).  Shell B (fresh) evaluates the printed text; its
    //! state is read the same way.  Coq compares the two projections (the
    //! oracle) and, for the simple formats, the printed text with the text
    //! the model predicts from the state.
    use super::*;
    use std::cell::RefCell;
    use std::ops::ControlFlow::{Break, Continue};
    use yash_cli::startup::args::{Parse, parse as parse_args};
    use yash_cli::startup::configure_environment;
    use yash_cli::startup::input::prepare_input;
    use yash_env::semantics::Divert;
    use yash_env::system::Mode;
    use yash_env::system::Umask as _;
    use yash_env::trap::Action;
    use yash_env::variable::Value;
    use yash_semantics::read_eval_loop;

    type Pairs = Vec<(String, String)>;

    #[derive(Clone, Debug, Default)]
    pub struct Snap {
        pub aliases: Pairs,
        /// name -> (exported, readonly, encoded value)
        pub vars: Vec<(String, bool, bool, String)>,
        /// the same for `VariableSet::iter(Scope::Local)` (what `typeset -p`
        /// without -g lists inside a function)
        pub locals: Vec<(String, bool, bool, String)>,
        pub traps: Pairs,
        pub options: Pairs,
        pub umask: String,
        pub functions: Pairs,
    }

    fn enc_value(v: &Option<Value>) -> String {
        match v {
            None => "N".into(),
            Some(Value::Scalar(s)) => format!("S{s}"),
            Some(Value::Array(a)) => {
                let mut o = format!("A{}", a.len());
                for x in a {
                    o.push('\u{1f}');
                    o.push_str(x);
                }
                o
            }
        }
    }

    fn snapshot(env: &mut VEnv) -> Snap {
        let mut s = Snap::default();
        for a in env.aliases.iter() {
            s.aliases.push((a.0.name.clone(), a.0.replacement.clone()));
        }
        s.aliases.sort();
        for (name, var) in env.variables.iter(Scope::Global) {
            s.vars.push((name.to_string(), var.is_exported, var.is_read_only(), enc_value(&var.value)));
        }
        s.vars.sort();
        for (name, var) in env.variables.iter(Scope::Local) {
            s.locals.push((name.to_string(), var.is_exported, var.is_read_only(), enc_value(&var.value)));
        }
        s.locals.sort();
        for (cond, state, _) in env.traps.iter() {
            let action = match &state.action {
                Action::Default => continue,
                Action::Ignore => String::new(),
                Action::Command(c) => c.to_string(),
            };
            s.traps.push((cond.to_string(&env.system).into_owned(), action));
        }
        for o in yash_env::option::Option::iter() {
            let on = env.options.get(o) == yash_env::option::State::On;
            s.options.push((o.to_string(), if on { "on".into() } else { "off".into() }));
        }
        let old = env.system.umask(Mode::empty());
        env.system.umask(old);
        s.umask = format!("{:o}", old.bits());
        for f in env.functions.iter() {
            s.functions.push((f.name.clone(), format!("{}{}", if f.is_read_only() { "r:" } else { ":" }, f.body)));
        }
        s.functions.sort();
        s
    }

    thread_local! {
        static SNAPS: RefCell<Vec<Snap>> = const { RefCell::new(Vec::new()) };
    }

    /// `snap`: a probe built-in that reads the state of the environment through
    /// the API at the moment it runs (inside a function, a subshell, ...).
    fn snap_main(env: &mut VEnv, _args: Vec<yash_env::semantics::Field>) -> vsh::BuiltinFuture<'_> {
        Box::pin(async move {
            let s = snapshot(env);
            SNAPS.with(|v| v.borrow_mut().push(s));
            yash_env::semantics::ExitStatus::SUCCESS.into()
        })
    }

    pub fn snaps_take() -> Vec<Snap> {
        SNAPS.with(|v| std::mem::take(&mut *v.borrow_mut()))
    }

    /// `yash -c SCRIPT` on the simulated OS; returns the outcome and the final
    /// state of the shell environment.
    pub fn run_capture(script: &str) -> (Outcome, Option<Snap>) {
        vsh::trace_take();
        snaps_take();
        let script = script.to_string();
        let r = std::panic::catch_unwind(std::panic::AssertUnwindSafe(move || {
            vsh::drive(
                move |mut env, state| {
                    for p in GLOB_FILES {
                        vsh::write_file(&state, p, b"");
                    }
                    async move {
                        let argv = vec!["yash".to_string(), "-c".to_string(), "--".to_string(), script];
                        let run = match parse_args(argv) {
                            Ok(Parse::Run(run)) => run,
                            _ => return (2, None),
                        };
                        let work = configure_environment(&mut env, run).await;
                        vsh::install_probes(&mut env);
                        env.builtins.insert(
                            "snap",
                            yash_env::builtin::Builtin::new(yash_env::builtin::Type::Mandatory, snap_main),
                        );
                        env.variables.get_or_new("HOME", Scope::Global).assign("/h", None).unwrap();
                        let ref_env = RefCell::new(&mut env);
                        let lexer = match prepare_input(&ref_env, &work.source).await {
                            Ok(lexer) => lexer,
                            Err(_) => return (127, None),
                        };
                        let result = read_eval_loop(&ref_env, &mut { lexer }).await;
                        let env = ref_env.into_inner();
                        env.apply_result(result);
                        let snap = snapshot(env);
                        match result {
                            Continue(()) | Break(Divert::Exit(_)) | Break(Divert::Return(_)) => (),
                            _ => (),
                        }
                        (env.exit_status.0, Some(snap))
                    }
                },
                100_000,
            )
        }));
        let trace = vsh::trace_take();
        match r {
            Ok((res, deadlock, timeout, state)) => {
                let get = |p: &str| {
                    vsh::read_file(&state, p).map(|b| String::from_utf8_lossy(&b).into_owned()).unwrap_or_default()
                };
                let (status, snap) = match res {
                    Some((st, sn)) => (st, sn),
                    None => (-1, None),
                };
                (
                    Outcome {
                        stdout: get("/dev/stdout"),
                        stderr: get("/dev/stderr"),
                        status,
                        trace,
                        panicked: None,
                        deadlock,
                        timeout,
                    },
                    snap,
                )
            }
            Err(_) => (Outcome { trace, panicked: Some("panic".into()), status: -2, ..Default::default() }, None),
        }
    }

    /// The harness's own way of writing an arbitrary string into a script
    /// (independent of yash-quote): `'…'` with `'\''` for each single quote.
    pub fn sq(s: &str) -> String {
        format!("'{}'", s.replace('\'', "'\\''"))
    }

    /// Splits a listing into its entries at the newlines that are outside
    /// quotations (a small reader of the harness's own).
    pub fn split_entries(text: &str) -> Vec<String> {
        let mut out = vec![];
        let mut cur = String::new();
        let mut it = text.chars().peekable();
        let mut mode = 0; // 0 unquoted, 1 single, 2 double
        while let Some(c) = it.next() {
            match (mode, c) {
                (0, '\n') => {
                    out.push(std::mem::take(&mut cur));
                    continue;
                }
                (0, '\'') => mode = 1,
                (0, '"') => mode = 2,
                (0, '\\') | (2, '\\') => {
                    cur.push(c);
                    if let Some(d) = it.next() {
                        cur.push(d);
                    }
                    continue;
                }
                (1, '\'') => mode = 0,
                (2, '"') => mode = 0,
                _ => {}
            }
            cur.push(c);
        }
        if !cur.is_empty() {
            out.push(cur);
        }
        out
    }

    const IDENTS: &[&str] = &["a", "b", "c1", "_x", "VAR", "foo", "x_y", "A9", "PATH", "zz"];
    const FUNC_BODIES: &[&str] = &[
        "{ args 1; }",
        "{ args \"$1\" 'x y'; }",
        "{ args a\\ b \"c'd\" 'e\"f'; }",
        "(args sub)",
        "{ if true; then args t; else args e; fi; }",
        "{ for i in 1 2; do args \"$i\"; done; }",
        "{ case $1 in (a|b) args ab;; (*) args other;; esac; }",
        "{ args $(echo x) `echo y` $((1+2)) ${x:-d} ~; }",
        "{ while false; do :; done; args w; }",
        "{ args >/dev/null 2>&1; }",
        "{ x='a b' args \"$x\"; }",
        "{ ! args n && args a || args o; }",
        "{ args 1 | cat; }",
    ];

    const DASH_NAMES: &[&str] = &["-x", "-r", "--", "-", "-p", "-a b", "-f", "+x", "-v w", "-r x", "-'q", "-*", "- -", "-x\ty", "-$v"];

    fn odd_name(r: &mut Rng) -> String {
        if r.chance(5, 10) {
            r.pick(IDENTS).to_string()
        } else if r.chance(1, 4) {
            r.pick(DASH_NAMES).to_string()
        } else {
            let s: String = random_string(r, 6).chars().filter(|c| *c != '=').collect();
            if s.is_empty() { "n".into() } else { s }
        }
    }

    fn pairs_coq(p: &Pairs) -> String {
        let v: Vec<String> = p.iter().map(|(a, b)| format!("({}, {})", coq::s(a), coq::s(b))).collect();
        coq::list(&v)
    }
    fn pairs_json(p: &Pairs) -> String {
        let v: Vec<String> = p.iter().map(|(a, b)| format!("[{},{}]", json_str(a), json_str(b))).collect();
        format!("[{}]", v.join(","))
    }

    /// Variables `typeset -p` would print (it skips names with `=`).
    fn var_proj(s: &Snap, filter: impl Fn(&(String, bool, bool, String)) -> bool, with_attrs: bool) -> Pairs {
        s.vars
            .iter()
            .filter(|v| !v.0.contains('=') && filter(v))
            .map(|v| {
                let attrs = if with_attrs {
                    format!("{}{}|", if v.1 { "x" } else { "" }, if v.2 { "r" } else { "" })
                } else {
                    String::new()
                };
                (v.0.clone(), format!("{attrs}{}", v.3))
            })
            .collect()
    }

    fn is_name(s: &str) -> bool {
        yash_syntax::parser::lex::is_name(s)
    }

    #[allow(clippy::too_many_arguments)]
    fn emit(
        w: &mut CasesWriter,
        kind: u64,
        label: &str,
        defs: &str,
        printed: &str,
        eval_script: &str,
        before: &Pairs,
        after: &Pairs,
        tags: &[&str],
    ) {
        w.count(&format!("listing:{label}"));
        let term = format!(
            "(KListing {} {} {} {})",
            coq::n(kind),
            coq::s(printed),
            pairs_coq(before),
            pairs_coq(after)
        );
        let json = format!(
            "{{\"stream\":\"listing\",\"listing\":{},\"definitions\":{},\"printed\":{},\"evaluated\":{},\"before\":{},\"after\":{}}}",
            json_str(label),
            json_str(defs),
            json_str(printed),
            json_str(eval_script),
            pairs_json(before),
            pairs_json(after)
        );
        w.push(&term, &json, tags, Some(format!("{label}:{defs}")));
    }

    /// Runs `defs` followed by `cmd` in shell A, `eval_of(printed)` in a fresh
    /// shell B, and emits the case for the projection `proj`.
    #[allow(clippy::too_many_arguments)]
    fn round_trip(
        w: &mut CasesWriter,
        kind: u64,
        label: &str,
        defs: &str,
        cmd: &str,
        eval_of: impl Fn(&str) -> String,
        proj: impl Fn(&Snap) -> Pairs,
        tags: &[&str],
    ) {
        // the definitions alone give the output prefix to cut off
        let (oa, sa) = run_capture(&format!("{defs}\n{cmd}\nargs __listing_done__\n"));
        let Some(sa) = sa else {
            w.count(&format!("listing:{label}:shell-A-failed"));
            return;
        };
        if !oa.trace.iter().any(|t| t.args == ["__listing_done__"]) {
            // the definitions made the shell exit before the listing (generator problem)
            w.count(&format!("listing:{label}:shell-A-aborted"));
            return;
        }
        let printed = oa.stdout.clone();
        let script_b = eval_of(&printed);
        let (_ob, sb) = run_capture(&script_b);
        let before = proj(&sa);
        let after = match sb {
            Some(sb) => proj(&sb),
            None => vec![("<shell B panicked or did not finish>".into(), String::new())],
        };
        emit(w, kind, label, defs, &printed, &script_b, &before, &after, tags);
    }

    /// Like [`round_trip`], but the listing command runs inside `wrap(cmd)`
    /// (a function body, a subshell, ...) which calls `snap` right after it:
    /// the expected content is the state at that moment.  `proj_a` projects
    /// that snapshot, `proj_b` the final state of the fresh shell B (given
    /// the expectation, to restrict B's state where the listing is partial).
    #[allow(clippy::too_many_arguments)]
    fn round_trip_scoped(
        w: &mut CasesWriter,
        kind: u64,
        label: &str,
        defs: &str,
        wrapped: &str,
        eval_of: impl Fn(&str) -> String,
        proj_a: impl Fn(&Snap) -> Pairs,
        proj_b: impl Fn(&Snap, &Pairs) -> Pairs,
        tags: &[&str],
    ) {
        let (oa, _) = run_capture(&format!("{defs}\n{wrapped}\nargs __listing_done__\n"));
        let snaps = snaps_take();
        if !oa.trace.iter().any(|t| t.args == ["__listing_done__"]) || snaps.len() != 1 {
            w.count(&format!("listing:{label}:shell-A-aborted"));
            return;
        }
        let printed = oa.stdout.clone();
        let script_b = eval_of(&printed);
        let (_ob, sb) = run_capture(&script_b);
        let before = proj_a(&snaps[0]);
        let after = match sb {
            Some(sb) => proj_b(&sb, &before),
            None => vec![("<shell B panicked or did not finish>".into(), String::new())],
        };
        let all_defs = format!("{defs}\n{wrapped}");
        emit(w, kind, label, &all_defs, &printed, &script_b, &before, &after, tags);
    }

    fn proj_of(list: &[(String, bool, bool, String)], filter: impl Fn(&(String, bool, bool, String)) -> bool, with_attrs: bool) -> Pairs {
        list.iter()
            .filter(|v| !v.0.contains('=') && filter(v))
            .map(|v| {
                let attrs = if with_attrs {
                    format!("{}{}|", if v.1 { "x" } else { "" }, if v.2 { "r" } else { "" })
                } else {
                    String::new()
                };
                (v.0.clone(), format!("{attrs}{}", v.3))
            })
            .collect()
    }

    /// Names of the variables a fresh shell has.
    fn baseline_names() -> Vec<String> {
        let (_, s) = run_capture(":\n");
        s.map(|s| s.vars.into_iter().map(|v| v.0).collect()).unwrap_or_default()
    }

    /// Declarations of local variables for a function body: new names, names
    /// that hide globals, with and without attributes.
    fn local_decls(r: &mut Rng) -> String {
        let mut o = String::new();
        for _ in 0..r.below(4) {
            let name = if r.chance(1, 2) { r.pick(IDENTS).to_string() } else { r.pick(&["l1", "l2", "loc"]).to_string() };
            let v = random_string(r, 8);
            let opt = *r.pick(&["", "", "-x ", "-r ", "-x -r "]);
            if r.chance(1, 6) {
                o.push_str(&format!("typeset {opt}{name}; "));
            } else {
                o.push_str(&format!("typeset {opt}{}; ", sq(&format!("{name}={v}"))));
            }
        }
        o
    }

    /// The scope the listing command runs in.  Returns (label suffix, script).
    fn wrap_cmd(r: &mut Rng, cmd: &str, allow_subshell: bool) -> (&'static str, String) {
        match r.below(if allow_subshell { 7 } else { 5 }) {
            0 => ("top", format!("{cmd}\nsnap")),
            1 => ("function", format!("f() {{ {cmd}; snap; }}\nf")),
            2 => {
                let l = local_decls(r);
                ("function+locals", format!("f() {{ {l}{cmd}; snap; }}\nf"))
            }
            3 => {
                let l1 = local_decls(r);
                let l2 = local_decls(r);
                ("nested-functions", format!("f() {{ {l1}{cmd}; snap; }}\ng() {{ {l2}f; }}\ng"))
            }
            4 => ("brace/eval", format!("{{ eval {}; snap; }}", sq(cmd))),
            5 => ("subshell", format!("({cmd}; snap)")),
            _ => {
                let l = local_decls(r);
                ("function+subshell", format!("f() {{ {l}({cmd}; snap); }}\nf"))
            }
        }
    }

    /// The variable listings from inside a scope.
    fn scoped_variable_case(
        w: &mut CasesWriter,
        r: &mut Rng,
        which: usize,
        defs: &str,
        baseline: &[String],
        fixed: Option<(&'static str, &str, &str)>, // (scope label, wrapper with @CMD@, NAME)
    ) {
        // the scope first (as a template), so that a NAME that exists there can be chosen
        let (scope, template): (&'static str, String) = match fixed {
            Some((l, tpl, _)) => (l, tpl.to_string()),
            None => wrap_cmd(r, "@CMD@", true),
        };
        let name = match fixed {
            Some((_, _, n)) => n.to_string(),
            None if which >= 5 => {
                // mostly a name for which the listing prints something
                run_capture(&format!("{defs}\n{}\n", template.replace("@CMD@", ":")));
                let snaps = snaps_take();
                let cands: Vec<String> = match snaps.first() {
                    Some(s) => match which {
                        5 => s.vars.iter().filter(|v| v.1).map(|v| v.0.clone()).collect(),
                        6 => s.vars.iter().filter(|v| v.2).map(|v| v.0.clone()).collect(),
                        _ => s.locals.iter().map(|v| v.0.clone()).collect(),
                    },
                    None => vec![],
                };
                let cands: Vec<String> = cands.into_iter().filter(|n| is_name(n)).collect();
                if cands.is_empty() || r.chance(1, 8) { r.pick(IDENTS).to_string() } else { r.pick(&cands).clone() }
            }
            None => r.pick(IDENTS).to_string(),
        };
        let (cmd, kind): (String, u64) = match which {
            0 => ("export -p".into(), 3),
            1 => ("readonly -p".into(), 4),
            2 => ("set".into(), 11),
            3 => ("typeset -p".into(), 12),
            4 => ("typeset -gp".into(), 5),
            5 => (format!("export -p {name}"), 13),
            6 => (format!("readonly -p {name}"), 13),
            _ => (format!("typeset -p {name}"), 13),
        };
        let wrapped = template.replace("@CMD@", &cmd);
        let label = format!("{} [{scope}]", if which >= 5 { cmd.rsplit_once(' ').unwrap().0.to_string() + " NAME" } else { cmd.clone() });
        let base: Vec<String> = baseline.to_vec();
        let nm = name.clone();
        match which {
            0 => round_trip_scoped(w, kind, &label, defs, &wrapped, |p| p.to_string(),
                |s| proj_of(&s.vars, |v| v.1, false), |s, _| proj_of(&s.vars, |v| v.1, false), &[]),
            1 => round_trip_scoped(w, kind, &label, defs, &wrapped, |p| p.to_string(),
                |s| proj_of(&s.vars, |v| v.2, false), |s, _| proj_of(&s.vars, |v| v.2, false), &[]),
            2 => round_trip_scoped(w, kind, &label, defs, &wrapped, |p| p.to_string(),
                |s| proj_of(&s.vars, |v| is_name(&v.0) && !v.3.starts_with('N'), false),
                |s, _| proj_of(&s.vars, |v| is_name(&v.0) && !v.3.starts_with('N'), false), &[]),
            3 => round_trip_scoped(w, kind, &label, defs, &wrapped, |p| p.to_string(),
                |s| proj_of(&s.locals, |_| true, true),
                move |s, before| proj_of(&s.vars, |v| !base.contains(&v.0) || before.iter().any(|b| b.0 == v.0), true), &[]),
            4 => round_trip_scoped(w, kind, &label, defs, &wrapped, |p| p.to_string(),
                |s| proj_of(&s.vars, |_| true, true), |s, _| proj_of(&s.vars, |_| true, true), &[]),
            5 => round_trip_scoped(w, kind, &label, defs, &wrapped, |p| p.to_string(),
                |s| proj_of(&s.vars, |v| v.0 == nm && v.1, false),
                |s, _| proj_of(&s.vars, |v| v.0 == name && v.1, false), &[]),
            6 => round_trip_scoped(w, kind, &label, defs, &wrapped, |p| p.to_string(),
                |s| proj_of(&s.vars, |v| v.0 == nm && v.2, false),
                |s, _| proj_of(&s.vars, |v| v.0 == name && v.2, false), &[]),
            _ => round_trip_scoped(w, kind, &label, defs, &wrapped, |p| p.to_string(),
                |s| proj_of(&s.locals, |v| v.0 == nm, true),
                |s, _| proj_of(&s.vars, |v| v.0 == name, true), &[]),
        }
    }

    fn var_defs(r: &mut Rng, odd_names: bool) -> String {
        let mut defs = String::new();
        let mut frozen: Vec<String> = vec![];
        let n = 1 + r.below(6);
        for _ in 0..n {
            let v = random_string(r, 12);
            let mut ident = r.pick(IDENTS).to_string();
            while frozen.contains(&ident) {
                ident.push('_');
            }
            match r.below(10) {
                0..=2 => defs.push_str(&format!("{ident}={}\n", sq(&v))),
                3 => {
                    let k = r.below(4);
                    let vals: Vec<String> = (0..k).map(|_| sq(&random_string(r, 6))).collect();
                    defs.push_str(&format!("{ident}=({})\n", vals.join(" ")));
                }
                4 => defs.push_str(&format!("export {}\n", sq(&format!("{ident}={v}")))),
                5 => {
                    defs.push_str(&format!("readonly {}\n", sq(&format!("{ident}={v}"))));
                    frozen.push(ident);
                }
                6 if r.chance(1, 2) => {
                    // an array whose name starts with `-` (assignment syntax takes any literal name)
                    let name = *r.pick(&["-arr", "-a", "-x", "--"]);
                    if !frozen.iter().any(|f| f == name) {
                        let k = r.below(3);
                        let vals: Vec<String> = (0..k).map(|_| sq(&random_string(r, 6))).collect();
                        defs.push_str(&format!("{name}=({})\n", vals.join(" ")));
                        match r.below(3) {
                            0 => defs.push_str(&format!("export -- {name}\n")),
                            1 => {
                                defs.push_str(&format!("readonly -- {name}\n"));
                                frozen.push(name.to_string());
                            }
                            _ => {}
                        }
                    }
                }
                6 => defs.push_str(&format!("typeset -x {}\n", sq(&ident))),
                7 => {
                    defs.push_str(&format!("export {ident}; readonly {ident}={}\n", sq(&v)));
                    frozen.push(ident);
                }
                _ => {
                    let mut name = if odd_names { odd_name(r) } else { ident };
                    while frozen.contains(&name) {
                        name.push('_');
                    }
                    let b = *r.pick(&["typeset", "export", "readonly", "typeset -x", "typeset -r"]);
                    if b.contains("readonly") || b.contains("-r") {
                        frozen.push(name.clone());
                    }
                    let dd = if name.starts_with('-') { "-- " } else { "" };
                    defs.push_str(&format!("{b} {dd}{}\n", sq(&format!("{name}={v}"))));
                }
            }
        }
        defs
    }

    pub fn stream(w: &mut CasesWriter, r: &mut Rng, args: &Args, f15: bool) {
        let f16 = finding_enabled(args, "F16");
        let f17 = finding_enabled(args, "F17");
        // ---- hand-written listings first -------------------------------------
        round_trip(
            w, 0, "alias",
            "alias 'a b=c d' -- '-x=y' 'if=then' '~=~' \"a'=b\\\"c\" '=x' '--=v' 'ls=ls -F' 'nl=a\nb' 'sp= ' 'e=' 'cr=a\rb' 'vt=\u{b}' 'ff=x\u{c}y'\n",
            "alias",
            |printed| format!("alias -- {}\n", split_entries(printed).join(" ")),
            |s| s.aliases.clone(), &[],
        );
        let vars = "typeset -- '-x=2' 'a b=1' \"q'=5\" 'c[=]' 'n\nl=v' '~=t' '#=h'\nexport 'e f=3' E=\nreadonly 'r=4' R\n\
                    typeset -- '-v w=1'\nexport -- '-e f=2'\nreadonly -- '-r x=3'\n-arr=(1 'a b')\nexport -- -arr\n-ro=(x)\nreadonly -- -ro\n\
                    cr='a\rb' vt='a\u{b}b' ff='a\u{c}b' crs=('a\rb' '\u{b}' 'x\u{c}')\n\
                    arr=(1 '' \"'\\\\'\" '*' '~' 'a b')\nempty=()\ntypeset -x arrx\nx='a:~' y='~' z='#' w=\\\\\n";
        round_trip(w, 11, "set", vars, "set", |p| p.to_string(),
            |s| var_proj(s, |v| is_name(&v.0) && !v.3.starts_with('N'), false)
                .into_iter()
                .map(|(n, v)| if v.starts_with('S') { (n, v[1..].to_string()) } else { (n, v) })
                .collect(), &[]);
        round_trip(w, 3, "export -p", vars, "export -p", |p| p.to_string(), |s| var_proj(s, |v| v.1, false), &[]);
        round_trip(w, 4, "readonly -p", vars, "readonly -p", |p| p.to_string(), |s| var_proj(s, |v| v.2, false), &[]);
        round_trip(w, 5, "typeset -p", vars, "typeset -p", |p| p.to_string(), |s| var_proj(s, |_| true, true), &[]);
        round_trip(w, 2, "trap",
            "trap -- 'echo \"x\"' INT\ntrap '' TERM\ntrap - QUIT\ntrap -- '-x' HUP\ntrap -- \"a'b\" EXIT\ntrap -- '#' USR1\ntrap -- 'a\rb' USR2\n",
            "trap", |p| p.to_string(), |s| s.traps.clone(), &[]);
        round_trip(w, 9, "typeset -fp",
            "f() { args \"$1\" 'x y'; }\n'-f'() { args 1; }\n'+'() (args 2)\n'a.b'() { args 3; }\ntypeset -fr f\ntypeset -fr -- -f\n",
            "typeset -fp", |p| p.to_string(), |s| s.functions.clone(), &[]);
        if f16 {
            round_trip(w, 9, "typeset -fp", "'a b'() { args 1; }\n", "typeset -fp", |p| p.to_string(),
                |s| s.functions.clone(), &["F16"]);
        }
        if f17 {
            round_trip(w, 9, "typeset -fp", "'if'() { args 1; }\n", "typeset -fp", |p| p.to_string(),
                |s| s.functions.clone(), &["F17"]);
        }

        // ---- listings from inside a function (hand-written) ---------------------
        let baseline = baseline_names();
        let gdefs = "export E=1 'e f=3' H=glob\nreadonly R=2\nexport XR=5; readonly XR\nx=plain\narr=(1 '' 'a b')\ntypeset -x NOVAL\n";
        let with_locals = "f() { typeset loc=L; typeset -x lx='L X'; typeset -r lr=LR; typeset H=hidden; typeset -x x=lx2; typeset -x -r lxr=1; @CMD@; snap; }\nf";
        let plain_fn = "f() { @CMD@; snap; }\nf";
        let nested = "f() { typeset inner=I; @CMD@; snap; }\ng() { typeset -x outer=O; typeset E=shadow; f; }\ng";
        for which in 0..8 {
            let name = match which { 5 => "E", 6 => "R", _ => "loc" };
            scoped_variable_case(w, r, which, gdefs, &baseline, Some(("function", plain_fn, name)));
            scoped_variable_case(w, r, which, gdefs, &baseline, Some(("function+locals", with_locals, name)));
            scoped_variable_case(w, r, which, gdefs, &baseline, Some(("nested-functions", nested, name)));
        }
        scoped_variable_case(w, r, 5, gdefs, &baseline, Some(("function+locals", with_locals, "lx")));
        scoped_variable_case(w, r, 5, gdefs, &baseline, Some(("function+locals", with_locals, "XR")));
        scoped_variable_case(w, r, 6, gdefs, &baseline, Some(("function+locals", with_locals, "lr")));
        scoped_variable_case(w, r, 6, gdefs, &baseline, Some(("function+locals", with_locals, "XR")));
        scoped_variable_case(w, r, 7, gdefs, &baseline, Some(("function+locals", with_locals, "H")));
        scoped_variable_case(w, r, 7, gdefs, &baseline, Some(("function+locals", with_locals, "E")));

        // ---- listings from inside a scope (random) ----------------------------------
        let n = args.scale(200, 1000);
        for k in 0..n {
            let mut r = r.fork(0x5c0 + k as u64);
            match k % 13 {
                which @ 0..=7 => {
                    let defs = var_defs(&mut r, which == 0 || which == 1 || which == 3 || which == 4);
                    scoped_variable_case(w, &mut r, which, &defs, &baseline, None);
                }
                8 => {
                    let mut defs = String::new();
                    for _ in 0..1 + r.below(3) {
                        let name = r.pick(IDENTS).to_string();
                        let value = random_string(&mut r, 10);
                        defs.push_str(&format!("alias {}\n", sq(&format!("{name}={value}"))));
                    }
                    let (scope, wrapped) = wrap_cmd(&mut r, "alias", true);
                    round_trip_scoped(w, 0, &format!("alias [{scope}]"), &defs, &wrapped,
                        |printed| format!("alias -- {}\n", split_entries(printed).join(" ")),
                        |s| s.aliases.clone(), |s, _| s.aliases.clone(), &[]);
                }
                9 => {
                    let mut defs = String::new();
                    for _ in 0..1 + r.below(3) {
                        let cond = *r.pick(&["INT", "TERM", "HUP", "USR1", "QUIT", "USR2"]);
                        defs.push_str(&format!("trap -- {} {cond}\n", sq(&random_string(&mut r, 10))));
                    }
                    let (scope, wrapped) = wrap_cmd(&mut r, "trap", false);
                    round_trip_scoped(w, 2, &format!("trap [{scope}]"), &defs, &wrapped, |p| p.to_string(),
                        |s| s.traps.clone(), |s, _| s.traps.clone(), &[]);
                }
                10 => {
                    let o = *r.pick(&["allexport", "noclobber", "noglob", "nounset", "pipefail", "notify"]);
                    let (scope, wrapped) = wrap_cmd(&mut r, "set +o", true);
                    round_trip_scoped(w, 6, &format!("set +o [{scope}]"), &format!("set -o {o}\n"), &wrapped,
                        |p| p.to_string(), |s| s.options.clone(), |s, _| s.options.clone(), &[]);
                }
                11 => {
                    let mask = r.below(0o1000);
                    let cmd = *r.pick(&["umask", "umask -S"]);
                    let (scope, wrapped) = wrap_cmd(&mut r, cmd, true);
                    round_trip_scoped(w, 7, &format!("{cmd} [{scope}]"), &format!("umask {mask:o}\n"), &wrapped,
                        |p| format!("umask {p}"), |s| vec![("umask".into(), s.umask.clone())],
                        |s, _| vec![("umask".into(), s.umask.clone())], &[]);
                }
                _ => {
                    let mut defs = String::new();
                    for _ in 0..1 + r.below(3) {
                        let name = r.pick(&["h1", "h2", "a.b", "-f", "zz"]).to_string();
                        defs.push_str(&format!("{}() {}\n", sq(&name), r.pick(FUNC_BODIES)));
                    }
                    // the wrapper function f itself is part of the listing: both sides see it
                    let (scope, wrapped) = wrap_cmd(&mut r, "typeset -fp", true);
                    round_trip_scoped(w, 9, &format!("typeset -fp [{scope}]"), &defs, &wrapped, |p| p.to_string(),
                        |s| s.functions.clone(), |s, _| s.functions.clone(), &[]);
                }
            }
        }

        let n = args.scale(160, 1000);
        for k in 0..n {
            let mut r = r.fork(k as u64);
            match k % 8 {
                // ---- alias ---------------------------------------------------
                0 => {
                    let mut defs = String::new();
                    let mut hazard = false;
                    for _ in 0..1 + r.below(5) {
                        let name = odd_name(&mut r);
                        let value = random_string(&mut r, 12);
                        hazard |= pair_is_f8(&name, &value);
                        let dd = if name.starts_with('-') { "-- " } else { "" };
                        defs.push_str(&format!("alias {dd}{}\n", sq(&format!("{name}={value}"))));
                    }
                    if hazard && !f15 {
                        w.count("skipped:F15-cases(finding not registered)");
                        continue;
                    }
                    let tags: &[&str] = if hazard { &["F15"] } else { &[] };
                    round_trip(
                        w,
                        0,
                        "alias",
                        &defs,
                        "alias",
                        |printed| format!("alias -- {}\n", split_entries(printed).join(" ")),
                        |s| s.aliases.clone(),
                        tags,
                    );
                }
                // ---- set (variables) ---------------------------------------------
                1 => {
                    let defs = var_defs(&mut r, false);
                    // kind 1 promises the model can predict the text: scalars only
                    let (_, probe) = run_capture(&format!("{defs}\n"));
                    let scalars_only = probe
                        .as_ref()
                        .map(|s| s.vars.iter().filter(|v| is_name(&v.0)).all(|v| v.3.starts_with('S')))
                        .unwrap_or(false);
                    round_trip(
                        w,
                        if scalars_only { 1 } else { 11 },
                        "set",
                        &defs,
                        "set",
                        |printed| printed.to_string(),
                        |s| {
                            var_proj(s, |v| is_name(&v.0) && !v.3.starts_with('N'), false)
                                .into_iter()
                                .map(|(n, v)| if v.starts_with('S') { (n, v[1..].to_string()) } else { (n, v) })
                                .collect()
                        },
                        &[],
                    );
                }
                // ---- trap ------------------------------------------------------------
                2 => {
                    let mut defs = String::new();
                    for _ in 0..1 + r.below(4) {
                        let cond = *r.pick(&["EXIT", "INT", "TERM", "HUP", "USR1", "QUIT", "USR2"]);
                        let action = match r.below(6) {
                            0 => String::new(),
                            1 => "-".into(),
                            _ => random_string(&mut r, 12),
                        };
                        defs.push_str(&format!("trap -- {} {cond}\n", sq(&action)));
                    }
                    // an EXIT trap must not run while shell A is observed: the
                    // snapshot is taken before the exit trap runs (run_capture
                    // does not run it at all)
                    round_trip(w, 2, "trap", &defs, "trap", |p| p.to_string(), |s| s.traps.clone(), &[]);
                }
                // ---- export -p / readonly -p / typeset -p ---------------------------
                3 => {
                    let defs = var_defs(&mut r, true);
                    round_trip(w, 3, "export -p", &defs, "export -p", |p| p.to_string(),
                        |s| var_proj(s, |v| v.1, false), &[]);
                }
                4 => {
                    let defs = var_defs(&mut r, true);
                    round_trip(w, 4, "readonly -p", &defs, "readonly -p", |p| p.to_string(),
                        |s| var_proj(s, |v| v.2, false), &[]);
                }
                5 => {
                    let defs = var_defs(&mut r, true);
                    round_trip(w, 5, "typeset -p", &defs, "typeset -p", |p| p.to_string(),
                        |s| var_proj(s, |_| true, true), &[]);
                }
                // ---- set +o, umask -----------------------------------------------------
                6 => {
                    let mut defs = String::new();
                    for _ in 0..1 + r.below(5) {
                        let o = *r.pick(&[
                            "allexport", "noclobber", "noglob", "nounset", "pipefail", "ignoreeof",
                            "hashondefinition", "notify", "posixlycorrect", "nolog", "verbose", "vi", "errexit", "xtrace", "portable",
                        ]);
                        let sign = if r.chance(3, 4) { "-" } else { "+" };
                        defs.push_str(&format!("set {sign}o {o}\n"));
                    }
                    round_trip(w, 6, "set +o", &defs, "set +o", |p| p.to_string(), |s| s.options.clone(), &[]);
                    let mask = r.below(0o1000);
                    let defs = format!("umask {mask:o}\n");
                    if r.chance(1, 2) {
                        round_trip(w, 7, "umask", &defs, "umask", |p| format!("umask {p}"),
                            |s| vec![("umask".into(), s.umask.clone())], &[]);
                    } else {
                        round_trip(w, 8, "umask -S", &defs, "umask -S", |p| format!("umask {p}"),
                            |s| vec![("umask".into(), s.umask.clone())], &[]);
                    }
                }
                // ---- typeset -fp ----------------------------------------------------------
                _ => {
                    let mut defs = String::new();
                    let mut tags: Vec<&str> = vec![];
                    for _ in 0..1 + r.below(4) {
                        let body = *r.pick(FUNC_BODIES);
                        let name = match r.below(12) {
                            0 => {
                                // a name that needs quoting is printed with the
                                // `function` keyword, which the parser rejects (F16)
                                if !f16 {
                                    w.count("skipped:F16-cases(finding not registered)");
                                    r.pick(IDENTS).to_string()
                                } else {
                                    tags.push("F16");
                                    r.pick(&["a b", "x=y", "~", "*", "a'b"]).to_string()
                                }
                            }
                            1 => {
                                // a reserved word as function name is printed bare (F17)
                                if !f17 {
                                    w.count("skipped:F17-cases(finding not registered)");
                                    r.pick(IDENTS).to_string()
                                } else {
                                    tags.push("F17");
                                    r.pick(&["if", "!", "{", "for", "case", "}"]).to_string()
                                }
                            }
                            2 => r.pick(&["-f", "a.b", "1a", "a-b", "é", "a:b", "a,b", "%x", "a/b", "+"]).to_string(),
                            _ => r.pick(IDENTS).to_string(),
                        };
                        defs.push_str(&format!("{}() {body}\n", sq(&name)));
                        if r.chance(1, 5) {
                            let dd = if name.starts_with('-') { "-- " } else { "" };
                            defs.push_str(&format!("typeset -fr {dd}{}\n", sq(&name)));
                        }
                    }
                    round_trip(w, 9, "typeset -fp", &defs, "typeset -fp", |p| p.to_string(),
                        |s| s.functions.clone(), &tags);
                }
            }
        }
    }
}

// ---------------------------------------------------------------------------
// running scripts
// ---------------------------------------------------------------------------

/// Files of the directory the scripts run in (`/`): names a stray pattern
/// would match.
pub const GLOB_FILES: &[&str] = &["/a", "/b", "/ab", "/x=a", "/x=b", "/=", "/-", "/1", "/a=b", "/x=", "/x=1"];

pub fn run(script: &str, extra_files: &[&str]) -> Outcome {
    let mut files: Vec<(String, Vec<u8>)> =
        GLOB_FILES.iter().map(|p| (p.to_string(), vec![])).collect();
    for f in extra_files {
        files.push((f.to_string(), vec![]));
    }
    vsh::run_shell(
        RunOpts { argv: vec!["-c".into(), script.into()], files, ..Default::default() },
        |env: &mut VEnv, _| {
            env.variables.get_or_new("HOME", Scope::Global).assign("/h", None).unwrap();
        },
    )
    .0
}

/// What the shell read: the arguments of the single `args` record, or `None`
/// if there was not exactly one record (error, panic, ...).
type Reading = Option<Vec<String>>;

fn reading_of(o: &Outcome) -> Reading {
    if o.panicked.is_some() || o.deadlock || o.timeout {
        return None;
    }
    let items: Vec<_> = o.trace.iter().filter(|t| t.kind == "args").collect();
    if items.len() == 1 && o.trace.len() == 1 {
        Some(items[0].args.clone())
    } else {
        None
    }
}

/// The script of each reading context for the text `t`.
fn script_of(kind: usize, t: &str) -> String {
    match kind {
        0 => format!("args {t}"),
        1 => format!("x={t}\nargs \"$x\""),
        2 => format!("typeset x={t}\nargs \"$x\""),
        3 => format!("args x={t}"),
        _ => unreachable!(),
    }
}

fn read_one(kind: usize, t: &str) -> Reading {
    reading_of(&run(&script_of(kind, t), &[]))
}

/// Reads many texts in one shell (one line group per text); falls back to one
/// shell per text whenever the batch does not yield one record per text.
fn read_batch(kind: usize, texts: &[String]) -> Vec<Reading> {
    if texts.len() == 1 {
        return vec![read_one(kind, &texts[0])];
    }
    let script: String = texts.iter().map(|t| script_of(kind, t) + "\n").collect();
    let o = run(&script, &[]);
    let ok = o.panicked.is_none()
        && !o.deadlock
        && !o.timeout
        && o.trace.len() == texts.len()
        && o.trace.iter().all(|t| t.kind == "args");
    if ok {
        o.trace.iter().map(|t| Some(t.args.clone())).collect()
    } else {
        texts.iter().map(|t| read_one(kind, t)).collect()
    }
}

// ---------------------------------------------------------------------------
// printing
// ---------------------------------------------------------------------------

fn coq_reading(r: &Reading) -> String {
    match r {
        None => "None".into(),
        Some(l) => {
            let v: Vec<String> = l.iter().map(|s| coq::s(s)).collect();
            format!("(Some {})", coq::list(&v))
        }
    }
}

fn json_reading(r: &Reading) -> String {
    match r {
        None => "null".into(),
        Some(l) => yv_harness::json_str_list(l),
    }
}

// ---------------------------------------------------------------------------
// alphabets and generators
// ---------------------------------------------------------------------------

/// Every shell-special ASCII character, the quotes, newline, tab, two
/// non-ASCII blanks, NEL, a letter and a digit.
pub const SPECIAL: &[char] = &[
    ';', '&', '|', '(', ')', '<', '>', ' ', '\t', '\n', '$', '`', '\\', '"', '\'', '=', '*', '?',
    '#', '~', ':', '{', '}', '[', ']', '!', '^', '-', '/', 'a', '1', '\u{a0}', '\u{3000}', '%', '\r',
    '\u{b}', '\u{c}',
];

/// Dropped from the alphabet of the length-4 enumeration: one operator
/// character of each kind, one ASCII and one non-ASCII blank stay.
pub const LEN4_DROPPED: &[char] = &['|', ')', '>', '\t', '\u{a0}', '^', '%', '1', '\u{b}', '\u{c}'];

const ORDINARY: &[char] = &['a', 'b', 'x', 'Z', '0', '1', '_', '.', ',', '+', '@', '%', 'é', 'ß', '\u{2003}', '\u{85}', '\u{feff}', '\u{200b}', '\r', '\u{b}', '\u{c}', '\u{1}', '\u{7f}', '世'];

pub fn random_string(r: &mut Rng, max_len: usize) -> String {
    if r.chance(1, 10) {
        // nothing but CR / VT / FF forces quoting (a line from a CRLF file, ...)
        let mut s = String::new();
        for _ in 0..1 + r.below(4) {
            if r.chance(1, 2) {
                s.push(*r.pick(&['\r', '\u{b}', '\u{c}']));
            } else {
                s.push(*r.pick(&['a', 'b', 'Z', '0', '_', '.', '/', '-', '+', ',', '%', '@']));
            }
        }
        if !s.contains(['\r', '\u{b}', '\u{c}']) {
            s.push(*r.pick(&['\r', '\u{b}', '\u{c}']));
        }
        return s;
    }
    let len = match r.below(10) {
        0 => 0,
        1..=4 => 1 + r.below(4),
        5..=7 => 1 + r.below(10),
        _ => 1 + r.below(max_len),
    };
    let special_weight = 1 + r.below(9) as u32; // out of 10
    let mut s = String::new();
    for _ in 0..len {
        if r.chance(special_weight, 10) {
            s.push(*r.pick(SPECIAL));
        } else {
            s.push(*r.pick(ORDINARY));
        }
    }
    s
}

/// An arbitrary line for the reader model: pieces in the three notations,
/// bare runs, blanks, backslashes, now and then something unbalanced.
fn random_line(r: &mut Rng, one_word: bool) -> String {
    const BARE: &[char] = &['a', 'b', '1', '-', '/', ':', '~', '=', '#', '[', ']', '{', '}', '!', '%', '^', ',', '.', 'x', 'a', ':', '~', '*', '?'];
    const INSIDE: &[char] = &['a', 'b', ' ', '\t', '\n', ';', '&', '|', '(', ')', '<', '>', '*', '?', '[', ']', '~', ':', '=', '#', '\\', '\'', '"', 'x', '\u{a0}', '\u{3000}'];
    let mut s = String::new();
    let pieces = 1 + r.below(6);
    for _ in 0..pieces {
        match r.below(16) {
            0..=4 => {
                for _ in 0..1 + r.below(4) {
                    s.push(*r.pick(BARE));
                }
            }
            5..=6 => {
                s.push('\'');
                for _ in 0..r.below(4) {
                    let c = *r.pick(INSIDE);
                    if c != '\'' {
                        s.push(c);
                    }
                }
                s.push('\'');
            }
            7..=8 => {
                s.push('"');
                for _ in 0..r.below(5) {
                    let c = *r.pick(INSIDE);
                    match c {
                        '"' => s.push_str("\\\""),
                        '\\' => {
                            s.push('\\');
                            s.push(*r.pick(&['\\', '"', 'a', '\n', '$', '`', '\'', ' ']));
                        }
                        c => s.push(c),
                    }
                }
                s.push('"');
            }
            9..=10 => {
                s.push('\\');
                s.push(*r.pick(INSIDE));
            }
            11..=12 => {
                if !one_word || r.chance(1, 6) {
                    s.push(*r.pick(&[' ', ' ', '\t', '\u{a0}', '\u{3000}', '\u{2003}']))
                }
            }
            13 => s.push_str("\\\n"),
            14 => s.push(*r.pick(&['\'', '"', '\\', '#', '~'])), // possibly unbalanced
            _ => s.push(*r.pick(&['a', 'a', '1', '2'])),
        }
    }
    s
}

// ---------------------------------------------------------------------------
// streams
// ---------------------------------------------------------------------------

fn classify(w: &mut CasesWriter, s: &str, q: &str) {
    let shape = if q == s {
        "shape:bare"
    } else if q.starts_with('\'') {
        "shape:single"
    } else {
        "shape:double"
    };
    w.count(shape);
    w.count(&format!("len:{}", match s.chars().count() { 0 => "0", 1 => "1", 2..=4 => "2-4", 5..=10 => "5-10", _ => "11+" }));
    if s.chars().any(|c| !c.is_ascii() && c.is_whitespace()) {
        w.count("has:non-ascii-blank");
    }
}

fn emit_quote(w: &mut CasesWriter, s: &str, q: &str, rs: &[Reading; 4], tags: &[&str]) {
    classify(w, s, q);
    let term = format!(
        "(KQuote {} {} {} {} {} {})",
        coq::s(s),
        coq::s(q),
        coq_reading(&rs[0]),
        coq_reading(&rs[1]),
        coq_reading(&rs[2]),
        coq_reading(&rs[3])
    );
    let json = format!(
        "{{\"stream\":\"quote\",\"s\":{},\"quoted\":{},\"arg\":{},\"assign\":{},\"decl\":{},\"argeq\":{}}}",
        json_str(s),
        json_str(q),
        json_reading(&rs[0]),
        json_reading(&rs[1]),
        json_reading(&rs[2]),
        json_reading(&rs[3])
    );
    // non-trivial: the string needed quoting
    let key = if q != s { Some(s.to_string()) } else { None };
    w.push(&term, &json, tags, key);
}

fn quote_stream(w: &mut CasesWriter, strings: &[String]) {
    // batches of 50 strings per shell and context
    for chunk in strings.chunks(50) {
        let qs: Vec<String> = chunk.iter().map(|s| yash_quote::quote(s).into_owned()).collect();
        let r: Vec<Vec<Reading>> = (0..4).map(|k| read_batch(k, &qs)).collect();
        for (i, s) in chunk.iter().enumerate() {
            let rs = [r[0][i].clone(), r[1][i].clone(), r[2][i].clone(), r[3][i].clone()];
            emit_quote(w, s, &qs[i], &rs, &[]);
        }
    }
}

/// `x=TEXT` where TEXT is meant to be an array value `( ... )`: the elements x
/// has afterwards (read through the API), `None` if x is not an array.
fn read_array(text: &str) -> Reading {
    let (o, snap) = listing::run_capture(&format!("x={text}"));
    if o.panicked.is_some() {
        return None;
    }
    let v = snap?.vars.into_iter().find(|v| v.0 == "x")?;
    let enc = v.3;
    if !enc.starts_with('A') {
        return None;
    }
    let mut parts = enc.split('\u{1f}');
    parts.next();
    Some(parts.map(|s| s.to_string()).collect())
}

fn array_line_stream(w: &mut CasesWriter, r: &mut Rng, n: usize) {
    for k in 0..n {
        let mut rr = r.fork(0xa77a + k as u64);
        let mut text = String::from("(");
        for i in 0..rr.below(4) {
            if i > 0 || rr.chance(1, 5) {
                text.push_str(*rr.pick(&[" ", " ", "  ", "\t", "\n", " #c'\n", "\u{3000}", "\\\n "]));
            }
            text.push_str(&random_line(&mut rr, true));
        }
        match rr.below(12) {
            0 => {}                       // unclosed
            1 => text.push_str(" )"),
            2 => text.push_str(";)"),
            _ => text.push(')'),
        }
        let reading = read_array(&text);
        w.count("line:kind3(array)");
        w.count(if reading.is_some() { "line:read" } else { "line:rejected" });
        let term = format!("(KLine {} {} {})", coq::n(3), coq::s(&text), coq_reading(&reading));
        let json = format!(
            "{{\"stream\":\"line\",\"kind\":3,\"text\":{},\"read\":{}}}",
            json_str(&text),
            json_reading(&reading)
        );
        w.push(&term, &json, &[], Some(format!("L3{text}")));
    }
}

fn line_stream(w: &mut CasesWriter, r: &mut Rng, n: usize) {
    for k in 0..n {
        let mut rr = r.fork(k as u64);
        let kind = rr.below(3);
        let text = random_line(&mut rr, kind != 0);
        let reading = read_one(kind, &text);
        w.count(&format!("line:kind{kind}"));
        w.count(if reading.is_some() { "line:read" } else { "line:rejected" });
        let term = format!("(KLine {} {} {})", coq::n(kind as u64), coq::s(&text), coq_reading(&reading));
        let json = format!(
            "{{\"stream\":\"line\",\"kind\":{},\"text\":{},\"read\":{}}}",
            kind,
            json_str(&text),
            json_reading(&reading)
        );
        let key = if text.contains(['\'', '"', '\\']) { Some(format!("L{kind}{text}")) } else { None };
        w.push(&term, &json, &[], key);
    }
}

fn ws_case(w: &mut CasesWriter) {
    let table: Vec<String> = (0..=0x10FFFFu32)
        .filter_map(char::from_u32)
        .filter(|c| c.is_whitespace())
        .map(|c| format!("{}", c as u32))
        .collect();
    let delims: Vec<String> = (0..=0x10FFFFu32)
        .filter_map(char::from_u32)
        .filter(|c| yash_syntax::parser::lex::is_token_delimiter_char(*c))
        .map(|c| format!("{}", c as u32))
        .collect();
    let term = format!("(KWs [{}]%N [{}]%N)", table.join("; "), delims.join("; "));
    let json = format!(
        "{{\"stream\":\"whitespace-table\",\"code_points\":[{}],\"token_delimiters\":[{}]}}",
        table.join(","),
        delims.join(",")
    );
    w.count("ws-table");
    w.push(&term, &json, &[], None);
}

/// The rendering of a shape (0 bare, 1 single, 2 double), independent of
/// yash-quote.
fn render(shape: u8, s: &str) -> String {
    match shape {
        0 => s.to_string(),
        1 => format!("'{s}'"),
        _ => {
            let mut o = String::from("\"");
            for c in s.chars() {
                if matches!(c, '"' | '`' | '$' | '\\') {
                    o.push('\\');
                }
                o.push(c);
            }
            o.push('"');
            o
        }
    }
}

fn all_strs(alphabet: &[char], depth: usize) -> Vec<String> {
    let mut v = vec![String::new()];
    for _ in 0..depth {
        let mut n = Vec::with_capacity(v.len() * alphabet.len());
        for c in alphabet {
            for t in &v {
                let mut s = String::new();
                s.push(*c);
                s.push_str(t);
                n.push(s);
            }
        }
        v = n;
    }
    v
}

/// Result of one bounded-exhaustive block.
struct ExhResult {
    alphabet: Vec<char>,
    prefix: String,
    depth: usize,
    strings: usize,
    codes: Vec<String>,
    /// (s, quoted, readings) of the first few anomalous strings
    anomalies: Vec<(String, String, [Reading; 4])>,
    anomaly_count: usize,
}

/// One bounded-exhaustive block (no output; may run on any thread).
fn exh_compute(alphabet: &[char], prefix: &str, depth: usize) -> ExhResult {
    let strings: Vec<String> = all_strs(alphabet, depth).into_iter().map(|t| format!("{prefix}{t}")).collect();
    let qs: Vec<String> = strings.iter().map(|s| yash_quote::quote(s).into_owned()).collect();
    let mut ok = vec![true; strings.len()];
    let mut readings: Vec<[Reading; 4]> = vec![[None, None, None, None]; strings.len()];
    for (start, chunk) in qs.chunks(600).enumerate().map(|(i, c)| (i * 600, c)) {
        for kind in 0..4 {
            let rs = read_batch(kind, chunk);
            for (i, r) in rs.into_iter().enumerate() {
                let s = &strings[start + i];
                let expect = if kind == 3 { format!("x={s}") } else { s.clone() };
                if r != Some(vec![expect]) {
                    ok[start + i] = false;
                }
                readings[start + i][kind] = r;
            }
        }
    }
    let mut codes = Vec::with_capacity(strings.len());
    let mut anomalies = vec![];
    let mut anomaly_count = 0;
    for i in 0..strings.len() {
        let s = &strings[i];
        let q = &qs[i];
        let shape = (0..3u8).find(|sh| &render(*sh, s) == q);
        let mut code = shape.unwrap_or(0) as u64;
        if !ok[i] {
            code += 4;
        }
        if shape.is_none() {
            code += 8;
        }
        if code >= 4 {
            anomaly_count += 1;
            if anomalies.len() < 3 {
                anomalies.push((s.clone(), q.clone(), readings[i].clone()));
            }
        }
        codes.push(format!("{code}"));
    }
    ExhResult {
        alphabet: alphabet.to_vec(),
        prefix: prefix.to_string(),
        depth,
        strings: strings.len(),
        codes,
        anomalies,
        anomaly_count,
    }
}

fn exh_emit(w: &mut CasesWriter, r: &ExhResult) {
    w.count(&format!("exh:len{}", r.prefix.chars().count() + r.depth));
    let alpha: String = r.alphabet.iter().collect();
    let term = format!(
        "(KExh {} {} {} [{}]%N)",
        coq::s(&alpha),
        coq::s(&r.prefix),
        coq::nat(r.depth),
        r.codes.join("; ")
    );
    let json = format!(
        "{{\"stream\":\"exhaustive\",\"alphabet\":{},\"prefix\":{},\"depth\":{},\"strings\":{},\"anomalies\":{}}}",
        json_str(&alpha),
        json_str(&r.prefix),
        r.depth,
        r.strings,
        r.anomaly_count
    );
    w.push(&term, &json, &[], Some(format!("E{}/{}/{}", alpha.chars().count(), r.prefix, r.depth)));
    for (s, q, rs) in &r.anomalies {
        emit_quote(w, s, q, rs, &[]);
    }
}

/// Computes the blocks on all cores (each thread runs its own virtual
/// shells; the result does not depend on the scheduling) and emits them in
/// the order given.
fn exh_blocks(w: &mut CasesWriter, jobs: &[(Vec<char>, String, usize)]) {
    use std::sync::Mutex;
    use std::sync::atomic::{AtomicUsize, Ordering};
    let threads = std::thread::available_parallelism().map(|n| n.get()).unwrap_or(4).clamp(1, 16);
    let next = AtomicUsize::new(0);
    let slots: Vec<Mutex<Option<ExhResult>>> = jobs.iter().map(|_| Mutex::new(None)).collect();
    std::thread::scope(|s| {
        for _ in 0..threads.min(jobs.len().max(1)) {
            s.spawn(|| {
                loop {
                    let i = next.fetch_add(1, Ordering::SeqCst);
                    if i >= jobs.len() {
                        break;
                    }
                    let (a, p, d) = &jobs[i];
                    let r = exh_compute(a, p, *d);
                    *slots[i].lock().unwrap() = Some(r);
                }
            });
        }
    });
    for slot in slots {
        let r = slot.into_inner().unwrap().expect("block computed");
        exh_emit(w, &r);
    }
}

/// An operand for `umask`: octal (valid or not), symbolic (structured or
/// random over the alphabet of the notation), or a real `umask -S` output.
fn umask_operand(r: &mut Rng) -> String {
    match r.below(8) {
        0 => format!("{:o}", r.below(0o1000)),
        1 => format!("{:03o}", r.below(0o1000)),
        2 => r.pick(&["0", "7777", "1777", "8", "0o7", "77777777", "200000", "177777", "09", "1x", "00022"]).to_string(),
        3 | 4 => {
            // structured: clauses of who* (op perm*)+
            let mut s = String::new();
            for i in 0..1 + r.below(3) {
                if i > 0 {
                    s.push(',');
                }
                for _ in 0..r.below(3) {
                    s.push(*r.pick(&['u', 'g', 'o', 'a']));
                }
                for _ in 0..1 + r.below(2) {
                    s.push(*r.pick(&['+', '-', '=']));
                    if r.chance(1, 4) {
                        s.push(*r.pick(&['u', 'g', 'o']));
                    } else {
                        for _ in 0..r.below(4) {
                            s.push(*r.pick(&['r', 'w', 'x', 'X', 's']));
                        }
                    }
                }
            }
            s
        }
        5 => yash_builtin::umask::format::format_symbolic(r.below(0o1000) as u16),
        _ => {
            let n = r.below(8);
            (0..n).map(|_| *r.pick(&['u', 'g', 'o', 'a', '+', '-', '=', 'r', 'w', 'x', 'X', 's', ',', ',', '=', 'z', '1'])).collect()
        }
    }
}

fn umask_case(w: &mut CasesWriter, bits: u32, operand: &str) {
    let script = format!("umask {bits:o}\numask\numask -S\numask -- {}\n", listing::sq(operand));
    let (o, snap) = listing::run_capture(&script);
    let mut lines = o.stdout.lines();
    let oct = lines.next().unwrap_or("").to_string();
    let sym = lines.next().unwrap_or("").to_string();
    let result = snap.and_then(|s| u64::from_str_radix(&s.umask, 8).ok()).unwrap_or(u64::MAX >> 1);
    w.count("umask");
    w.count(if result == bits as u64 { "umask:mask-unchanged" } else { "umask:mask-changed" });
    let term = format!(
        "(KUmask {} {} {} {} {})",
        coq::n(bits as u64),
        coq::s(&oct),
        coq::s(&sym),
        coq::s(operand),
        coq::n(result)
    );
    let json = format!(
        "{{\"stream\":\"umask\",\"mask\":\"{bits:o}\",\"umask\":{},\"umask -S\":{},\"operand\":{},\"mask_after\":\"{result:o}\"}}",
        json_str(&oct),
        json_str(&sym),
        json_str(operand)
    );
    w.push(&term, &json, &[], Some(format!("U{bits}/{operand}")));
}

fn pair_case(w: &mut CasesWriter, n: &str, v: &str, files: &[&str], tags: &[&str]) {
    let line = format!("{}={}", yash_quote::quoted(n), yash_quote::quoted(v));
    let reading = reading_of(&run(&script_of(0, &line), files));
    w.count("pair");
    let term = format!("(KPair {} {} {} {})", coq::s(n), coq::s(v), coq::s(&line), coq_reading(&reading));
    let json = format!(
        "{{\"stream\":\"pair\",\"name\":{},\"value\":{},\"line\":{},\"extra_files\":{},\"read\":{}}}",
        json_str(n),
        json_str(v),
        json_str(&line),
        yv_harness::json_str_list(files),
        json_reading(&reading)
    );
    w.push(&term, &json, tags, Some(format!("P{line}")));
}

/// `name[=]value` hazard: a bare name with `[` and a bare value with `]` give
/// a bracket expression across the `=` (finding F15).
fn pair_is_f8(n: &str, v: &str) -> bool {
    let qn = yash_quote::quote(n);
    let qv = yash_quote::quote(v);
    qn == n && qv == v && n.contains('[') && v.contains(']')
}

/// The cases that exhibit a registered finding are always emitted (tagged);
/// the driver alone decides between KNOWN-FINDING and VIOLATION.
/// (`--opt findings=0` leaves them out, for experiments.)
fn finding_enabled(args: &Args, _tag: &str) -> bool {
    args.opt("findings") != Some("0")
}

fn main() {
    let args = Args::parse();
    let mut rng = Rng::new(args.seed);
    let mut w = CasesWriter::new(&args, "Yv.C07.Run", 60);
    let f15 = finding_enabled(&args, "F15");

    // ---- corpus -----------------------------------------------------------
    ws_case(&mut w);
    let corpus: Vec<String> = [
        "", "a", "abc", " ", "\t", "\n", "a b", "'", "\"", "\\", "$", "`", "$x", "`x`", "$(x)", "${x}",
        "#", "#a", "a#", "~", "~a", "a~", "a:~", ":~", "~:", "x=~", "=", "a=b", "*", "?", "[", "]",
        "[a]", "[]", "][", "a[b", "a]b", "{", "}", "{}", "{a,b}", "}{", "!", "-", "--", "-x",
        "a'b", "a\"b", "'\"'", "'$", "'`'", "'\\'", "'\\\\'", "\\'", "a\\\nb", "'a\\\nb", "'\n'",
        "a\u{a0}b", "\u{3000}", "'\u{3000}", "\u{85}", "\u{2003}x", "\u{feff}", "\u{200b}",
        "if", "then", "{", "}", "!", "[[", "1", "12", "2>", ";", "&", "|", "(", ")", "<", ">",
        ";;", "&&", "||", "a;b", "a&b", "a|b", "a(b", "a)b", "a<b", "a>b", "'a'", "\"a\"",
        "a'$x'\"`y`\"\\z", "x=a:~", "/", "/*", "a/b", "~/a", "a:~/b", "%", "^", "a,b", "\r", "\u{b}",
        "a\rb", "\u{c}", "a\u{b}", "\r\n", "a\r", "'\r", "'~", "':~", "'*", "'?", "'[a]", "'#", "' ", "'\t", "'\n", "';", "'=",
    ]
    .iter()
    .map(|s| s.to_string())
    .collect();
    quote_stream(&mut w, &corpus);
    for (n, v) in [("a", "b"), ("", "x"), ("a b", "c d"), ("a'", "b'"), ("a[", "b"), ("a", "]"), ("~", "~"), ("a:", "~"), ("-x", "y"), ("if", "then")] {
        pair_case(&mut w, n, v, &[], &[]);
    }
    if f15 {
        // F15: the alias listing line `a[=]x` is a pattern; with a file `a=x`
        // in the directory it reads back as `a=x`.
        pair_case(&mut w, "a[", "]x", &["/a=x"], &["F15"]);
    } else {
        w.count("skipped:F15-cases(finding not registered)");
    }

    // ---- bounded-exhaustive ------------------------------------------------
    let mut jobs: Vec<(Vec<char>, String, usize)> = vec![];
    if args.thorough() {
        // every string up to length 3 over the full alphabet, length 4 over
        // the alphabet without the characters that have an equivalent left
        let alpha = SPECIAL.to_vec();
        for d in 0..=2 {
            jobs.push((alpha.clone(), String::new(), d));
        }
        for a in &alpha {
            jobs.push((alpha.clone(), a.to_string(), 2));
        }
        let small: Vec<char> = SPECIAL.iter().copied().filter(|c| !LEN4_DROPPED.contains(c)).collect();
        for a in &small {
            for b in &small {
                jobs.push((small.clone(), format!("{a}{b}"), 2));
            }
        }
    } else {
        let alpha: Vec<char> = "a '\"\\$~:[]#=*\n\r".chars().collect();
        for d in 0..=3 {
            jobs.push((alpha.clone(), String::new(), d));
        }
        // one slice of the full alphabet at length 3
        let c = *rng.fork(77).pick(SPECIAL);
        jobs.push((SPECIAL.to_vec(), c.to_string(), 2));
    }
    exh_blocks(&mut w, &jobs);

    // ---- random strings ------------------------------------------------------
    let n = args.scale(500, 12000);
    let mut r = rng.fork(1);
    let strings: Vec<String> = (0..n).map(|_| random_string(&mut r, 40)).collect();
    quote_stream(&mut w, &strings);

    // ---- arbitrary lines -------------------------------------------------------
    let mut r = rng.fork(2);
    line_stream(&mut w, &mut r, args.scale(500, 12000));
    array_line_stream(&mut w, &mut r, args.scale(150, 3000));

    // ---- pairs -------------------------------------------------------------------
    let mut r = rng.fork(3);
    for _ in 0..args.scale(150, 3000) {
        let n: String = random_string(&mut r, 8).chars().filter(|c| *c != '=').collect();
        let v = random_string(&mut r, 8);
        if pair_is_f8(&n, &v) {
            if f15 {
                pair_case(&mut w, &n, &v, &[], &["F15"]);
            } else {
                w.count("skipped:F15-cases(finding not registered)");
            }
            continue;
        }
        pair_case(&mut w, &n, &v, &[], &[]);
    }

    // ---- umask: printers and operand parser against the model -------------------------
    {
        let mut r = rng.fork(5);
        let masks: Vec<u32> = if args.thorough() {
            (0..512).collect()
        } else {
            let mut v: Vec<u32> = vec![0, 0o22, 0o77, 0o777, 0o27, 0o133, 0o644, 0o400];
            v.extend((0..40).map(|_| r.below(512) as u32));
            v
        };
        for bits in masks {
            for _ in 0..2 {
                let operand = umask_operand(&mut r);
                umask_case(&mut w, bits, &operand);
            }
        }
    }

    // ---- listings ------------------------------------------------------------------
    let mut r = rng.fork(4);
    listing::stream(&mut w, &mut r, &args, f15);

    w.finish(
        "strings over every shell-special character, quotes, newline, tab, non-ASCII blanks and ordinary \
         letters (corpus, bounded-exhaustive blocks, random to length 40); arbitrary lines for the reader \
         model; name=value pairs; state listings re-evaluated by a fresh shell. non-trivial = the string \
         needed quoting / the line contains a quoting character / each block, pair and listing; \
         distinct = by input text",
    );
}
