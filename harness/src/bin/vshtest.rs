use yv_harness::vsh::run_script;
fn main() {
    let script = std::env::args().nth(1).unwrap();
    let o = run_script(&script);
    println!("{:#?}", o);
}
