//! C12 — the job table over histories of job events.
//!
//! Stream A (`CApi`): histories of operations on the real
//! `yash_env::job::JobList`.  After each operation the observations made
//! through the public API (iter, current_job, previous_job, find_by_pid,
//! `job::id::parse_tail(..).find(..)` for a list of job-ID texts, and
//! `last_async_pid()`) are written next to the operation; the operations
//! include `set_last_async_pid`.  Coq replays the history on the model
//! (`Yv.C12.Last.lstep` over `Yv.C12.Model.step`) and evaluates the invariant
//! oracle and the `$!` oracle (`last_ok`) on the implementation's observations.
//!
//! Stream S (`CScript`): whole scripts on the simulated OS under `set -m` with
//! a stub terminal: asynchronous lists (`work N S &`), `jobs`, `jobs %ID`,
//! `wait %ID`, `wait`, `kill -s SIG %ID`, `bg`, `fg`, `work N` (virtual time
//! passes).  After each command the `snap` built-in reads the real `env.jobs`
//! (the same observation as in stream A), `$?`, `$!`, `last_async_pid()` and
//! the state of every child process in the simulated OS; the output of the
//! built-ins is cut out of the shell's standard output and parsed.

use std::cell::RefCell;
use std::collections::BTreeMap;
use std::time::Duration;
use yash_env::builtin::{Builtin, Type};
use yash_env::job::id::{FindError, JobId, parse_tail};
use yash_env::job::{Job, JobList, Pid, ProcessResult, ProcessState};
use yash_env::semantics::{ExitStatus, Field};
use yash_env::signal;
use yash_env::system::concurrency::Sleep as _;
use yash_env::variable::Scope;
use yv_harness::cli::Args;
use yv_harness::out::CasesWriter;
use yv_harness::rng::Rng;
use yv_harness::vsh::{BuiltinFuture, RunOpts, State, VEnv, run_shell};
use yv_harness::{coq, json_str};

#[derive(Clone, Copy, Debug, PartialEq)]
enum St {
    Running,
    Stopped(i32),
    Exited(i32),
    Signaled(i32, bool),
}

impl St {
    fn to_real(self) -> ProcessState {
        match self {
            St::Running => ProcessState::Running,
            St::Stopped(n) => ProcessState::stopped(signal::Number::from_raw_unchecked(
                std::num::NonZeroI32::new(n).unwrap(),
            )),
            St::Exited(n) => ProcessState::exited(ExitStatus(n)),
            St::Signaled(n, c) => ProcessState::Halted(ProcessResult::Signaled {
                signal: signal::Number::from_raw_unchecked(std::num::NonZeroI32::new(n).unwrap()),
                core_dump: c,
            }),
        }
    }
    fn of_real(s: ProcessState) -> St {
        match s {
            ProcessState::Running => St::Running,
            ProcessState::Halted(ProcessResult::Stopped(n)) => St::Stopped(n.as_raw()),
            ProcessState::Halted(ProcessResult::Exited(e)) => St::Exited(e.0),
            ProcessState::Halted(ProcessResult::Signaled { signal, core_dump }) => {
                St::Signaled(signal.as_raw(), core_dump)
            }
        }
    }
    fn coq(self) -> String {
        match self {
            St::Running => "Running".into(),
            St::Stopped(n) => format!("(Stopped {})", coq::n(n as u64)),
            St::Exited(n) => format!("(Exited {})", coq::n(n as u64)),
            St::Signaled(n, c) => format!("(Signaled {} {})", coq::n(n as u64), coq::b(c)),
        }
    }
    fn show(self) -> String {
        match self {
            St::Running => "run".into(),
            St::Stopped(n) => format!("stop{n}"),
            St::Exited(n) => format!("exit{n}"),
            St::Signaled(n, c) => format!("sig{n}{}", if c { "c" } else { "" }),
        }
    }
    fn alive(self) -> bool {
        matches!(self, St::Running | St::Stopped(_))
    }
}

/// Printer of job names (kept as a type so that sharing can be reintroduced;
/// `let`-bound sub-terms made the case files slower to type-check, not faster).
#[derive(Default)]
struct Interner;

impl Interner {
    fn name(&mut self, s: &str) -> String {
        coq::s(s)
    }
    fn wrap(&self, body: &str) -> String {
        format!("({body})")
    }
}

fn jobid_coq(id: &JobId) -> String {
    match id {
        JobId::CurrentJob => "IdCurrent".into(),
        JobId::PreviousJob => "IdPrevious".into(),
        JobId::JobNumber(n) => format!("(IdNumber {}%N)", n.get()),
        JobId::NamePrefix(p) => format!("(IdPrefix {})", coq::s(p)),
        JobId::NameSubstring(p) => format!("(IdSubstr {})", coq::s(p)),
    }
}

fn fres_coq(r: Result<usize, FindError>) -> String {
    match r {
        Ok(i) => format!("(Found {})", coq::nat(i)),
        Err(FindError::NotFound) => "NotFound".into(),
        Err(FindError::Ambiguous) => "Ambiguous".into(),
    }
}

fn fres_show(r: Result<usize, FindError>) -> String {
    match r {
        Ok(i) => format!("{i}"),
        Err(FindError::NotFound) => "none".into(),
        Err(FindError::Ambiguous) => "ambiguous".into(),
    }
}

/// The observation of a `JobList` through its public API: the Coq term of type
/// `obs` and a text for humans.
fn observe(list: &JobList, pids: &[i32], ids: &[String], names: &mut Interner) -> (String, String) {
    let jobs: Vec<String> = list
        .iter()
        .map(|(i, j)| {
            format!(
                "(jv {} {} {} {} {} {})",
                coq::nat(i),
                coq::z(j.pid.0 as i128),
                St::of_real(j.state).coq(),
                coq::b(j.state_changed),
                coq::b(j.is_owned),
                names.name(&j.name)
            )
        })
        .collect();
    let find: Vec<String> = pids
        .iter()
        .map(|p| {
            format!(
                "(fz {} {})",
                coq::z(*p as i128),
                coq::opt(list.find_by_pid(Pid(*p)).map(coq::nat))
            )
        })
        .collect();
    let mut shown_ids = vec![];
    let idl: Vec<String> = ids
        .iter()
        .map(|t| {
            let id = parse_tail(t);
            let r = id.find(list);
            shown_ids.push(format!("%{}={}", t, fres_show(r)));
            format!("(ir {} {} {})", coq::s(t), jobid_coq(&id), fres_coq(r))
        })
        .collect();
    let term = format!(
        "(mkObs {} {} {} {} {})",
        coq::list(&jobs),
        coq::opt(list.current_job().map(coq::nat)),
        coq::opt(list.previous_job().map(coq::nat)),
        coq::list(&find),
        coq::list(&idl)
    );
    let shown: Vec<String> = list
        .iter()
        .map(|(i, j)| format!("{}:{}:{}:{:?}", i, j.pid.0, St::of_real(j.state).show(), j.name))
        .collect();
    let human = format!(
        "[{}] cur={:?} prev={:?} {}",
        shown.join(" "),
        list.current_job(),
        list.previous_job(),
        shown_ids.join(" ")
    );
    (term, human)
}

// ===========================================================================
// Stream A: the JobList API

#[derive(Clone, Debug)]
enum Op {
    Insert(i32, St, String),
    Remove(usize),
    RemoveIdxs(Vec<usize>),
    RemoveFinished,
    Update(i32, St),
    SetCurrent(usize),
    DisownAll,
    Expect(usize, Option<St>),
    Reported(usize),
    /// `set_last_async_pid`
    SetLast(i32),
}

impl Op {
    /// The Coq term of type `lop` (coq/C12/Last.v).
    fn coq(&self, names: &mut Interner) -> String {
        if let Op::SetLast(p) = self {
            return format!("(OSetLast {})", coq::z(*p as i128));
        }
        format!("(LOp {})", self.coq_op(names))
    }
    fn coq_op(&self, names: &mut Interner) -> String {
        match self {
            Op::SetLast(_) => unreachable!(),
            Op::Insert(p, s, n) => {
                format!("(OInsert {} {} {})", coq::z(*p as i128), s.coq(), names.name(n))
            }
            Op::Remove(i) => format!("(ORemove {})", coq::nat(*i)),
            Op::RemoveIdxs(l) => {
                let v: Vec<String> = l.iter().map(|i| coq::nat(*i)).collect();
                format!("(ORemoveIdxs {})", coq::list(&v))
            }
            Op::RemoveFinished => "ORemoveFinished".into(),
            Op::Update(p, s) => format!("(OUpdate {} {})", coq::z(*p as i128), s.coq()),
            Op::SetCurrent(i) => format!("(OSetCurrent {})", coq::nat(*i)),
            Op::DisownAll => "ODisownAll".into(),
            Op::Expect(i, s) => {
                format!("(OExpect {} {})", coq::nat(*i), coq::opt(s.map(|s| s.coq())))
            }
            Op::Reported(i) => format!("(OReported {})", coq::nat(*i)),
        }
    }
    fn show(&self) -> String {
        match self {
            Op::Insert(p, s, n) => format!("insert({p},{},{n:?})", s.show()),
            Op::Remove(i) => format!("remove({i})"),
            Op::RemoveIdxs(l) => format!("remove_if(idx in {l:?})"),
            Op::RemoveFinished => "remove_if(finished)".into(),
            Op::Update(p, s) => format!("update({p},{})", s.show()),
            Op::SetCurrent(i) => format!("set_current({i})"),
            Op::DisownAll => "disown_all".into(),
            Op::Expect(i, s) => format!("expect({i},{:?})", s.map(|s| s.show())),
            Op::Reported(i) => format!("reported({i})"),
            Op::SetLast(p) => format!("set_last_async_pid({p})"),
        }
    }
}

fn apply(list: &mut JobList, op: &Op) {
    match op {
        Op::Insert(p, s, n) => {
            let mut job = Job::new(Pid(*p));
            job.state = s.to_real();
            job.name = n.clone();
            list.insert(job);
        }
        Op::Remove(i) => {
            list.remove(*i);
        }
        Op::RemoveIdxs(l) => list.remove_if(|i, _| l.contains(&i)),
        Op::RemoveFinished => list.remove_if(|_, j| !j.state.is_alive()),
        Op::Update(p, s) => {
            list.update_status(Pid(*p), s.to_real());
        }
        Op::SetCurrent(i) => {
            let _ = list.set_current_job(*i);
        }
        Op::DisownAll => list.disown_all(),
        Op::Expect(i, s) => {
            if let Some(mut j) = list.get_mut(*i) {
                j.expect(s.map(|s| s.to_real()));
            }
        }
        Op::Reported(i) => {
            if let Some(mut j) = list.get_mut(*i) {
                j.state_reported();
            }
        }
        Op::SetLast(p) => list.set_last_async_pid(Pid(*p)),
    }
}

const NAMES: [&str; 14] = [
    "work 5 0",
    "work 5 7",
    "work 3",
    "sleep 10",
    "sleep 100",
    "cat foo | grep bar",
    "cat",
    "",
    "echo é→x",
    "x",
    "7",
    "?",
    "%1",
    "work 5 0",
];

/// Job-ID texts (after the '%') always asked.
const CORE_IDS: [&str; 4] = ["+", "-", "%", ""];
/// Numbers: in and beyond the table, with a sign, with leading zeros, zero,
/// at and over the limit of usize.
const NUM_IDS: [&str; 20] = [
    "1", "2", "3", "4", "5", "6", "7", "8", "9", "10", "12", "+2", "+3", "007", "0", "+0", "00",
    "18446744073709551615", "18446744073709551616", "99999999999999999999999999",
];
const NAME_IDS: [&str; 26] = [
    "w", "work", "work 5", "work 5 0", "work 5 7", "work 3", "s", "sleep", "sleep 10", "sleep 100",
    "cat", "c", "x", "?", "?o", "?5", "? ", "?work", "?10", "?é", "?→x", "?|", "??", "?%1", "?7",
    "echo é",
];
const ODD_IDS: [&str; 12] = ["-1", "1x", "++1", "5+", "+-", "--", "%%", "%1", "é", " 1", "1 ", "+ 1"];

fn pick_ids(rng: &mut Rng) -> Vec<String> {
    let mut v: Vec<String> = CORE_IDS.iter().map(|s| s.to_string()).collect();
    for _ in 0..3 {
        v.push(rng.pick(&NUM_IDS).to_string());
    }
    // numbers within a small table, so that gaps are hit
    v.push(format!("{}", 1 + rng.below(5)));
    for _ in 0..3 {
        v.push(rng.pick(&NAME_IDS).to_string());
    }
    if rng.chance(1, 2) {
        v.push(rng.pick(&ODD_IDS).to_string());
    }
    v.sort();
    v.dedup();
    v
}

fn random_state(rng: &mut Rng) -> St {
    match rng.below(10) {
        0..=3 => St::Running,
        4..=6 => St::Stopped(*rng.pick(&[19, 20, 21, 22])),
        7..=8 => St::Exited(*rng.pick(&[0, 1, 2, 127])),
        _ => St::Signaled(*rng.pick(&[2, 9, 15]), rng.chance(1, 3)),
    }
}

fn random_op(rng: &mut Rng, list: &JobList, pids: &[i32]) -> Op {
    let max_idx = list.iter().map(|(i, _)| i).max().map_or(1, |m| m + 2);
    loop {
        match rng.below(100) {
            0..=6 => {
                // mostly a pid in play (what `&` / bg do), sometimes any number
                let p = if rng.chance(3, 4) { *rng.pick(pids) } else { *rng.pick(&[0, 1, 9, 77, 32767, i32::MAX, -1]) };
                return Op::SetLast(p);
            }
            7..=34 => {
                let p = *rng.pick(pids);
                // The property's precondition: a pid is only reused after its
                // job has finished.
                if let Some(i) = list.find_by_pid(Pid(p)) {
                    if list[i].state.is_alive() {
                        continue;
                    }
                }
                return Op::Insert(p, random_state(rng), rng.pick(&NAMES).to_string());
            }
            35..=59 => return Op::Update(*rng.pick(pids), random_state(rng)),
            60..=71 => return Op::Remove(rng.below(max_idx)),
            72..=76 => {
                let k = rng.below(3) + 1;
                let l: Vec<usize> = (0..k).map(|_| rng.below(max_idx)).collect();
                return Op::RemoveIdxs(l);
            }
            77..=81 => return Op::RemoveFinished,
            82..=91 => return Op::SetCurrent(rng.below(max_idx)),
            92..=93 => return Op::DisownAll,
            94..=97 => {
                let st = if rng.chance(1, 4) { None } else { Some(random_state(rng)) };
                return Op::Expect(rng.below(max_idx), st);
            }
            _ => return Op::Reported(rng.below(max_idx)),
        }
    }
}

fn emit(w: &mut CasesWriter, pids: &[i32], ids: &[String], ops: &[Op]) {
    let mut list = JobList::new();
    let mut names = Interner::default();
    let mut hist = vec![];
    let mut human = vec![];
    let mut max_jobs = 0;
    let mut max_susp = 0;
    for op in ops {
        let was_empty = list.is_empty();
        apply(&mut list, op);
        let (term, h) = observe(&list, pids, ids, &mut names);
        // `$!` is observed after EVERY operation
        let bang = list.last_async_pid().0;
        hist.push(format!("({}, ({}, {}))", op.coq(&mut names), term, coq::z(bang as i128)));
        human.push(format!("{} -> {} $!={}", op.show(), h, bang));
        if bang != 0 && list.is_empty() && !matches!(op, Op::SetLast(_)) && !was_empty {
            w.count("last:nonzero $! observed right after the table became empty");
        }
        if bang != 0 {
            w.count("last:nonzero $! observed");
        }
        max_jobs = max_jobs.max(list.len());
        max_susp = max_susp.max(list.iter().filter(|(_, j)| j.state.is_stopped()).count());
        w.count(match op {
            Op::Insert(..) => "op:insert",
            Op::Remove(..) => "op:remove",
            Op::RemoveIdxs(..) | Op::RemoveFinished => "op:remove_if",
            Op::Update(..) => "op:update_status",
            Op::SetCurrent(..) => "op:set_current_job",
            Op::DisownAll => "op:disown_all",
            Op::Expect(..) | Op::Reported(..) => "op:job_ref_mut",
            Op::SetLast(..) => "op:set_last_async_pid",
        });
        // distribution of the job-ID resolutions asked
        let gap = {
            let idxs: Vec<usize> = list.iter().map(|(i, _)| i).collect();
            idxs.last().is_some_and(|m| idxs.len() <= *m)
        };
        for t in ids {
            let id = parse_tail(t);
            let kind = match id {
                JobId::CurrentJob => "current",
                JobId::PreviousJob => "previous",
                JobId::JobNumber(_) => {
                    if gap {
                        "number(table has a gap)"
                    } else {
                        "number"
                    }
                }
                JobId::NamePrefix(_) => "prefix",
                JobId::NameSubstring(_) => "substring",
            };
            w.count(&format!("id:{kind}:{}", match id.find(&list) {
                Ok(_) => "found",
                Err(FindError::NotFound) => "notfound",
                Err(FindError::Ambiguous) => "ambiguous",
            }));
        }
    }
    w.count(&format!("max_jobs:{max_jobs}"));
    w.count(&format!("max_suspended:{max_susp}"));
    let pidl: Vec<String> = pids.iter().map(|p| coq::z(*p as i128)).collect();
    let idl: Vec<String> = ids.iter().map(|t| coq::s(t)).collect();
    let term = names.wrap(&format!("CApi {} {} {}", coq::list(&pidl), coq::list(&idl), coq::list(&hist)));
    let json = format!(
        "{{\"stream\":\"api\",\"pids\":{:?},\"ids\":{},\"history\":[{}]}}",
        pids,
        yv_harness::json_str_list(ids),
        human.iter().map(|h| json_str(h)).collect::<Vec<_>>().join(",")
    );
    // non-trivial: at least two jobs coexisted and one was suspended
    let key = if max_jobs >= 2 && max_susp >= 1 {
        Some(ops.iter().map(|o| o.show()).collect::<Vec<_>>().join(";"))
    } else {
        None
    };
    w.push(&term, &json, &[], key);
}

// ===========================================================================
// Stream S: scripts on the simulated OS

#[derive(Clone, Copy, Debug, PartialEq)]
enum Sig {
    Stop,
    Cont,
    Term,
    Kill,
}

impl Sig {
    fn name(self) -> &'static str {
        match self {
            Sig::Stop => "STOP",
            Sig::Cont => "CONT",
            Sig::Term => "TERM",
            Sig::Kill => "KILL",
        }
    }
    fn coq(self) -> &'static str {
        match self {
            Sig::Stop => "KStop",
            Sig::Cont => "KCont",
            Sig::Term => "KTerm",
            Sig::Kill => "KKill",
        }
    }
}

/// One command of a script.  A job-ID operand is the text after the '%';
/// `None` = the command is written without an operand (= the current job).
#[derive(Clone, Debug, PartialEq)]
enum Cmd {
    Async { text: String, status: i32 },
    Jobs,
    JobsId(String),
    Wait(String),
    WaitAll,
    Kill(Sig, String),
    Bg(Option<String>),
    Fg(Option<String>),
    Sleep(u32),
}

fn operand(t: &str) -> String {
    format!("'%{t}'")
}

impl Cmd {
    fn render(&self) -> String {
        match self {
            Cmd::Async { text, .. } => format!("{text} &"),
            Cmd::Jobs => "jobs".into(),
            Cmd::JobsId(t) => format!("jobs {}", operand(t)),
            Cmd::Wait(t) => format!("wait {}", operand(t)),
            Cmd::WaitAll => "wait".into(),
            Cmd::Kill(s, t) => format!("kill -s {} {}", s.name(), operand(t)),
            Cmd::Bg(None) => "bg".into(),
            Cmd::Bg(Some(t)) => format!("bg {}", operand(t)),
            Cmd::Fg(None) => "fg".into(),
            Cmd::Fg(Some(t)) => format!("fg {}", operand(t)),
            Cmd::Sleep(n) => format!("work {n}"),
        }
    }
    fn tail(&self) -> Option<String> {
        match self {
            Cmd::JobsId(t) | Cmd::Wait(t) | Cmd::Kill(_, t) => Some(t.clone()),
            Cmd::Bg(t) | Cmd::Fg(t) => Some(t.clone().unwrap_or_default()),
            _ => None,
        }
    }
    fn kind(&self) -> &'static str {
        match self {
            Cmd::Async { .. } => "async",
            Cmd::Jobs => "jobs",
            Cmd::JobsId(_) => "jobs %ID",
            Cmd::Wait(_) => "wait %ID",
            Cmd::WaitAll => "wait",
            Cmd::Kill(Sig::Stop, _) => "kill -s STOP %ID",
            Cmd::Kill(Sig::Cont, _) => "kill -s CONT %ID",
            Cmd::Kill(..) => "kill -s TERM/KILL %ID",
            Cmd::Bg(_) => "bg",
            Cmd::Fg(_) => "fg",
            Cmd::Sleep(_) => "work N (time passes)",
        }
    }
}

#[allow(dead_code)]
#[derive(Clone, Debug)]
struct JobView {
    index: usize,
    pid: i32,
    state: St,
    changed: bool,
    owned: bool,
    name: String,
}

#[derive(Clone, Debug, Default)]
struct Snap {
    obs_term: String,
    human: String,
    jobs: Vec<JobView>,
    last: i32,
    bang: String,
    status: String,
    sys: Vec<(i32, St)>,
    stdout_len: usize,
    /// what each ID text resolved to (by the real find)
    resolved: Vec<(String, String)>,
}

thread_local! {
    static STATE: RefCell<Option<State>> = const { RefCell::new(None) };
    static SNAPS: RefCell<Vec<Snap>> = const { RefCell::new(Vec::new()) };
    static IDS: RefCell<Vec<String>> = const { RefCell::new(Vec::new()) };
    static NAMES_I: RefCell<Interner> = RefCell::new(Interner::default());
    static GEN: RefCell<Option<Gen>> = const { RefCell::new(None) };
}

const SCRIPT_PIDS: std::ops::RangeInclusive<i32> = 2..=11;

/// `work N [STATUS]`: sleeps N virtual milliseconds, returns STATUS.
fn work_main(env: &mut VEnv, args: Vec<Field>) -> BuiltinFuture<'_> {
    Box::pin(async move {
        let n = args.first().and_then(|f| f.value.parse::<u32>().ok()).unwrap_or(1);
        let st = args.get(1).and_then(|f| f.value.parse::<i32>().ok()).unwrap_or(0);
        for _ in 0..n {
            env.system.sleep(Duration::from_millis(1)).await;
        }
        ExitStatus(st).into()
    })
}

fn sys_states(env: &VEnv) -> Vec<(i32, St)> {
    STATE.with(|st| {
        let st = st.borrow();
        let st = st.as_ref().unwrap().borrow();
        st.processes
            .iter()
            .filter(|(pid, _)| **pid != env.main_pid)
            .map(|(pid, p)| (pid.0, St::of_real(p.state())))
            .collect()
    })
}

fn stdout_len() -> usize {
    STATE.with(|st| {
        let st = st.borrow();
        yv_harness::vsh::read_file(st.as_ref().unwrap(), "/dev/stdout").map_or(0, |b| b.len())
    })
}

/// `snap "$?" "$!"`: records the job list, `$?`, `$!` and the process table.
fn snap_main(env: &mut VEnv, args: Vec<Field>) -> BuiltinFuture<'_> {
    Box::pin(async move {
        let status = env.exit_status;
        let pids: Vec<i32> = SCRIPT_PIDS.collect();
        let ids = IDS.with(|i| i.borrow().clone());
        let (obs_term, human) =
            NAMES_I.with(|n| observe(&env.jobs, &pids, &ids, &mut n.borrow_mut()));
        let jobs = env
            .jobs
            .iter()
            .map(|(i, j)| JobView {
                index: i,
                pid: j.pid.0,
                state: St::of_real(j.state),
                changed: j.state_changed,
                owned: j.is_owned,
                name: j.name.clone(),
            })
            .collect();
        let snap = Snap {
            obs_term,
            human,
            jobs,
            last: env.jobs.last_async_pid().0,
            status: args.first().map(|f| f.value.clone()).unwrap_or_default(),
            bang: args.get(1).map(|f| f.value.clone()).unwrap_or_default(),
            sys: sys_states(env),
            stdout_len: stdout_len(),
            resolved: ids.iter().map(|t| (t.clone(), fres_show(parse_tail(t).find(&env.jobs)))).collect(),
        };
        SNAPS.with(|v| v.borrow_mut().push(snap));
        ExitStatus(status.0).into()
    })
}

/// The generator of phase 1: chooses the next command from the real state.
struct Gen {
    rng: Rng,
    plan: Vec<Cmd>,
    /// (pid of the helper job, pid it will stop)
    helpers: Vec<(i32, i32)>,
    last_async_is_helper_for: Option<i32>,
    /// more asynchronous jobs and `%N` after a lower-numbered job has gone
    gaps: bool,
}

fn pick_tail(rng: &mut Rng, jobs: &JobList) -> String {
    let idxs: Vec<usize> = jobs.iter().map(|(i, _)| i).collect();
    let names: Vec<String> = jobs.iter().map(|(_, j)| j.name.clone()).collect();
    let r = rng.below(100);
    if r < 45 && !idxs.is_empty() {
        return format!("{}", rng.pick(&idxs) + 1);
    }
    if r < 55 {
        return format!("{}", 1 + rng.below(6));
    }
    if r < 72 {
        return rng.pick(&["", "%", "+", "-", "-", "+"]).to_string();
    }
    if r < 86 && !names.is_empty() {
        // a prefix of a job's name
        let n: Vec<char> = rng.pick(&names).chars().collect();
        let k = 1 + rng.below(n.len());
        return n[..k].iter().collect();
    }
    if r < 96 && !names.is_empty() {
        // a substring of a job's name
        let n: Vec<char> = rng.pick(&names).chars().collect();
        let a = rng.below(n.len());
        let b = a + 1 + rng.below((n.len() - a).min(4));
        return format!("?{}", n[a..b].iter().collect::<String>());
    }
    rng.pick(&["0", "+1", "+2", "01", "002", "?", "?zz", "nosuchjob", "9", "18446744073709551616"]).to_string()
}

fn choose(g: &mut Gen, env: &VEnv) -> Cmd {
    let jobs = &env.jobs;
    let n = jobs.len();
    let sys: BTreeMap<i32, St> = sys_states(env).into_iter().collect();
    // pids that a live helper is going to stop
    let doomed: Vec<i32> = g
        .helpers
        .iter()
        .filter(|(h, _)| sys.get(h).is_some_and(|s| s.alive()))
        .map(|(_, t)| *t)
        .collect();
    let stopped = |pid: i32| matches!(sys.get(&pid), Some(St::Stopped(_)));
    let rng = &mut g.rng;
    for _ in 0..50 {
        // mostly start with a few jobs
        let r = if n < 2 && rng.chance(3, 5) { 0 } else { rng.below(100) };
        let cmd = match r {
            0..=27 => {
                if n >= 4 && !(g.gaps && n < 6) {
                    continue;
                }
                Cmd::Async {
                    text: format!("work {} {}", 1 + rng.below(9), rng.below(10)),
                    status: 0,
                }
            }
            28..=30 => {
                // a helper that stops a running job a little later
                let live: Vec<i32> = jobs
                    .iter()
                    .filter(|(_, j)| !j.name.starts_with('{') && sys.get(&j.pid.0).is_some_and(|s| *s == St::Running))
                    .map(|(_, j)| j.pid.0)
                    .collect();
                if live.is_empty() || n >= 5 {
                    continue;
                }
                let t = *rng.pick(&live);
                Cmd::Async { text: format!("{{ work {}; kill -s STOP {}; }}", 1 + rng.below(3), t), status: 0 }
            }
            31..=42 => Cmd::Jobs,
            43..=48 => Cmd::JobsId(pick_tail(rng, jobs)),
            49..=62 => {
                let t = pick_tail(rng, jobs);
                if let Ok(i) = parse_tail(&t).find(jobs) {
                    let pid = jobs[i].pid.0;
                    if stopped(pid) || doomed.contains(&pid) {
                        continue;
                    }
                }
                Cmd::Wait(t)
            }
            63..=64 => {
                if jobs.iter().any(|(_, j)| stopped(j.pid.0) || doomed.contains(&j.pid.0)) {
                    continue;
                }
                Cmd::WaitAll
            }
            65..=72 => Cmd::Kill(Sig::Stop, pick_tail(rng, jobs)),
            73..=78 => Cmd::Kill(Sig::Cont, pick_tail(rng, jobs)),
            79..=82 => Cmd::Kill(Sig::Term, pick_tail(rng, jobs)),
            83 => Cmd::Kill(Sig::Kill, pick_tail(rng, jobs)),
            84..=88 => {
                if rng.chance(1, 4) {
                    Cmd::Bg(None)
                } else {
                    Cmd::Bg(Some(pick_tail(rng, jobs)))
                }
            }
            89..=93 => {
                if rng.chance(1, 4) {
                    Cmd::Fg(None)
                } else {
                    Cmd::Fg(Some(pick_tail(rng, jobs)))
                }
            }
            _ => Cmd::Sleep(1 + rng.below(6) as u32),
        };
        return cmd;
    }
    Cmd::Jobs
}

/// `next`: phase 1 only.  Chooses the next command, appends it to the plan and
/// assigns its text to `$CMD`.
fn next_main(env: &mut VEnv, _args: Vec<Field>) -> BuiltinFuture<'_> {
    Box::pin(async move {
        let text = GEN.with(|g| {
            let mut g = g.borrow_mut();
            let g = g.as_mut().unwrap();
            // the helper started by the previous command is known by `$!` now
            if let Some(t) = g.last_async_is_helper_for.take() {
                g.helpers.push((env.jobs.last_async_pid().0, t));
            }
            let mut cmd = choose(g, env);
            if let Cmd::Async { text, status } = &mut cmd {
                if let Some(rest) = text.strip_prefix("{ work ") {
                    let t = rest.rsplit(' ').nth(1).and_then(|s| s.trim_end_matches(';').parse::<i32>().ok());
                    g.last_async_is_helper_for = t;
                    *status = 0;
                } else {
                    *status = text.rsplit(' ').next().and_then(|s| s.parse().ok()).unwrap_or(0);
                }
            }
            let text = cmd.render();
            g.plan.push(cmd);
            text
        });
        env.variables.get_or_new("CMD", Scope::Global).assign(text, None).ok();
        ExitStatus::SUCCESS.into()
    })
}

fn run_on_vsh(script: &str) -> yv_harness::vsh::Outcome {
    let (out, _) = run_shell(
        RunOpts { argv: vec!["-c".into(), script.into()], ..Default::default() },
        move |env, state| {
            STATE.with(|s| *s.borrow_mut() = Some(state.clone()));
            state.borrow_mut().now = Some(std::time::Instant::now());
            yash_env::test_helper::stub_tty(state);
            env.builtins.insert("snap", Builtin::new(Type::Mandatory, snap_main));
            env.builtins.insert("work", Builtin::new(Type::Mandatory, work_main));
            env.builtins.insert("next", Builtin::new(Type::Mandatory, next_main));
        },
    );
    out
}

/// Phase 1: lets the generator choose `nsteps` commands while they run.
fn plan_script(rng: Rng, nsteps: usize, gaps: bool, forced: &[Cmd]) -> Vec<Cmd> {
    if !forced.is_empty() {
        return forced.to_vec();
    }
    GEN.with(|g| {
        *g.borrow_mut() =
            Some(Gen { rng, plan: vec![], helpers: vec![], last_async_is_helper_for: None, gaps })
    });
    let mut script = String::from("set -m\n");
    for _ in 0..nsteps {
        script.push_str("next; eval \"$CMD\"\n");
    }
    IDS.with(|i| i.borrow_mut().clear());
    let _ = run_on_vsh(&script);
    // a deadlocked or aborted phase 1 still leaves the plan chosen so far
    GEN.with(|g| g.borrow_mut().take().unwrap().plan)
}

fn flat_script(plan: &[Cmd]) -> String {
    let mut s = String::from("set -m\nsnap \"$?\" \"$!\"\n");
    for c in plan {
        s.push_str(&c.render());
        s.push_str("\nsnap \"$?\" \"$!\"\n");
    }
    s
}

#[derive(Debug)]
enum LState {
    Running,
    Stopped,
    Done(i32),
    Killed(bool),
}

/// Parses `[N] M STATE                NAME`.
fn parse_jobs_line(line: &str) -> Option<(u64, u8, LState, String)> {
    let rest = line.strip_prefix('[')?;
    let (num, rest) = rest.split_once("] ")?;
    let num: u64 = num.parse().ok()?;
    let mut chars = rest.chars();
    let marker = match chars.next()? {
        ' ' => 0,
        '+' => 1,
        '-' => 2,
        _ => return None,
    };
    if chars.next()? != ' ' {
        return None;
    }
    let rest = chars.as_str();
    let (st, len) = if rest.starts_with("Running") {
        (LState::Running, 7)
    } else if let Some(r) = rest.strip_prefix("Done(") {
        let (n, _) = r.split_once(')')?;
        (LState::Done(n.parse().ok()?), 5 + n.len() + 1)
    } else if rest.starts_with("Done") {
        (LState::Done(0), 4)
    } else if let Some(r) = rest.strip_prefix("Stopped(") {
        let (n, _) = r.split_once(')')?;
        (LState::Stopped, 8 + n.len() + 1)
    } else if let Some(r) = rest.strip_prefix("Killed(") {
        let (n, _) = r.split_once(')')?;
        (LState::Killed(n.ends_with(": core dumped")), 7 + n.len() + 1)
    } else {
        return None;
    };
    // the state is padded to 20 columns and followed by one space
    let skip = len.max(20) + 1;
    let name = rest.get(skip..)?.to_string();
    Some((num, marker, st, name))
}

fn lstate_coq(s: &LState) -> String {
    match s {
        LState::Running => "LRunning".into(),
        LState::Stopped => "LStopped".into(),
        LState::Done(n) => format!("(LDone {})", coq::n(*n as u64)),
        LState::Killed(c) => format!("(LKilled {})", coq::b(*c)),
    }
}

fn snap_coq(s: &Snap) -> Option<String> {
    let status: u64 = s.status.parse().ok()?;
    let bang = if s.bang.is_empty() { None } else { Some(coq::z(s.bang.parse::<i128>().ok()?)) };
    let sys: Vec<String> =
        s.sys.iter().map(|(p, st)| format!("(sz {} {})", coq::z(*p as i128), st.coq())).collect();
    Some(format!(
        "(mkSnap {} {} {} {} {})",
        s.obs_term,
        coq::z(s.last as i128),
        coq::opt(bang),
        coq::n(status),
        coq::list(&sys)
    ))
}

/// Phase 2: runs the flat script, cuts it into steps and writes the case.
/// Returns false if the run was unusable.
fn emit_script(w: &mut CasesWriter, plan: &[Cmd], tags: &[&str]) -> bool {
    let script = flat_script(plan);
    // the ID texts asked in every snapshot: a fixed core, the operands used,
    // and a few texts derived from the commands of the script
    let mut ids: Vec<String> =
        ["", "%", "+", "-", "1", "2", "3", "4", "5", "work"].iter().map(|s| s.to_string()).collect();
    for c in plan {
        if let Some(t) = c.tail() {
            ids.push(t);
        }
        if let Cmd::Async { text, .. } = c {
            if text.starts_with("work") && ids.len() < 16 {
                ids.push(text.clone());
            }
        }
    }
    ids.sort();
    ids.dedup();
    IDS.with(|i| *i.borrow_mut() = ids.clone());
    SNAPS.with(|v| v.borrow_mut().clear());
    NAMES_I.with(|n| *n.borrow_mut() = Interner::default());
    let out = run_on_vsh(&script);
    let snaps = SNAPS.with(|v| std::mem::take(&mut *v.borrow_mut()));
    let mut names = NAMES_I.with(|n| std::mem::take(&mut *n.borrow_mut()));
    if out.panicked.is_some() {
        // a Rust panic in the shell is an implementation failure, not a usable run
        w.count("script:panicked");
        let term = "(CScript nil nil (mkSnap (mkObs nil None None nil nil) 0%Z None 0%N nil) \
                    [(SAsync nil 0%N, mkSnap (mkObs nil None None nil nil) 0%Z None 1%N nil)])";
        let json = format!(
            "{{\"stream\":\"script\",\"script\":{},\"panic\":{}}}",
            json_str(&script),
            json_str(out.panicked.as_deref().unwrap_or(""))
        );
        w.push(term, &json, tags, None);
        return true;
    }
    if snaps.is_empty() {
        w.count("script:no-snapshot");
        return false;
    }
    if out.deadlock || out.timeout {
        w.count("script:truncated(deadlock)");
    }
    let nsteps = (snaps.len() - 1).min(plan.len());
    let stdout = out.stdout.as_bytes();
    let mut steps = vec![];
    let mut human = vec![];
    let mut max_jobs = 0;
    let mut found_ops = 0;
    let init = match snap_coq(&snaps[0]) {
        Some(t) => t,
        None => return false,
    };
    for k in 0..nsteps {
        let (b, a) = (&snaps[k], &snaps[k + 1]);
        let text = String::from_utf8_lossy(&stdout[b.stdout_len.min(stdout.len())..a.stdout_len.min(stdout.len())]).into_owned();
        let lines: Vec<&str> = text.lines().collect();
        let cmd = &plan[k];
        w.count(&format!("cmd:{}", cmd.kind()));
        max_jobs = max_jobs.max(a.jobs.len());
        let jlines = |names: &mut Interner| -> Option<String> {
            let mut v = vec![];
            for l in &lines {
                let (n, m, st, name) = parse_jobs_line(l)?;
                v.push(format!("(jl {} {} {} {})", coq::n(n), coq::n(m as u64), lstate_coq(&st), names.name(&name)));
            }
            Some(coq::list(&v))
        };
        let tail_term = |t: &str| coq::s(t);
        let term = match cmd {
            Cmd::Async { text, status } => {
                format!("(SAsync {} {})", names.name(text), coq::n(*status as u64))
            }
            Cmd::Jobs => match jlines(&mut names) {
                Some(l) => format!("(SJobs {l})"),
                None => {
                    w.count("script:unparsed-jobs-output");
                    return false;
                }
            },
            Cmd::JobsId(t) => match jlines(&mut names) {
                Some(l) => format!("(SJobsId {} {l})", tail_term(t)),
                None => {
                    w.count("script:unparsed-jobs-output");
                    return false;
                }
            },
            Cmd::Wait(t) => format!("(SWait {})", tail_term(t)),
            Cmd::WaitAll => "SWaitAll".into(),
            Cmd::Kill(s, t) => format!("(SKill {} {})", s.coq(), tail_term(t)),
            Cmd::Bg(t) => {
                let mut v = vec![];
                for l in &lines {
                    let parsed = l.strip_prefix('[').and_then(|r| r.split_once("] ")).and_then(|(n, name)| {
                        n.parse::<u64>().ok().map(|n| (n, name.to_string()))
                    });
                    match parsed {
                        Some((n, name)) => v.push(format!("(bl {} {})", coq::n(n), names.name(&name))),
                        None => v.push(format!("(bl 0%N {})", names.name(l))),
                    }
                }
                format!("(SBg {} {})", tail_term(t.as_deref().unwrap_or("")), coq::list(&v))
            }
            Cmd::Fg(t) => {
                let v: Vec<String> = lines.iter().map(|l| names.name(l)).collect();
                format!("(SFg {} {})", tail_term(t.as_deref().unwrap_or("")), coq::list(&v))
            }
            Cmd::Sleep(n) => format!("(SSleep {})", coq::n(*n as u64)),
        };
        // distribution: what the operand resolved to (by the real find, on the
        // table as the snapshot before the command recorded it)
        if let Some(t) = cmd.tail() {
            let res = b
                .resolved
                .iter()
                .find(|(x, _)| *x == t)
                .map(|(_, r)| r.clone())
                .unwrap_or_else(|| "?".into());
            let cls = match res.as_str() {
                "none" => "notfound",
                "ambiguous" => "ambiguous",
                _ => "found",
            };
            if cls == "found" {
                found_ops += 1;
            }
            w.count(&format!("operand:{cls}"));
            // %N used while a lower-numbered slot is vacant
            if let Ok(n) = t.parse::<usize>() {
                let idxs: Vec<usize> = b.jobs.iter().map(|j| j.index).collect();
                if n >= 1 && idxs.contains(&(n - 1)) && (0..n - 1).any(|i| !idxs.contains(&i)) {
                    w.count("operand:%N above a gap in the numbering");
                }
            }
        }
        let snap = match snap_coq(a) {
            Some(s) => s,
            None => return false,
        };
        steps.push(format!("({term}, {snap})"));
        human.push(format!(
            "{} => $?={} $!={} out={:?} jobs={} sys={:?}",
            cmd.render(),
            a.status,
            a.bang,
            text,
            a.human,
            a.sys.iter().map(|(p, s)| format!("{p}:{}", s.show())).collect::<Vec<_>>()
        ));
    }
    w.count(&format!("script:max_jobs:{max_jobs}"));
    let pidl: Vec<String> = SCRIPT_PIDS.map(|p| coq::z(p as i128)).collect();
    let idl: Vec<String> = ids.iter().map(|t| coq::s(t)).collect();
    let term = names.wrap(&format!(
        "CScript {} {} {} {}",
        coq::list(&pidl),
        coq::list(&idl),
        init,
        coq::list(&steps)
    ));
    let shown: String = plan[..nsteps].iter().map(|c| c.render()).collect::<Vec<_>>().join("\n");
    let json = format!(
        "{{\"stream\":\"script\",\"script\":{},\"steps\":[{}],\"stderr\":{}}}",
        json_str(&format!("set -m\n{shown}")),
        human.iter().map(|h| json_str(h)).collect::<Vec<_>>().join(","),
        json_str(&out.stderr)
    );
    // non-trivial: two jobs coexisted and a job-ID operand designated a job
    let key = if max_jobs >= 2 && found_ops >= 1 { Some(shown) } else { None };
    w.push(&term, &json, tags, key);
    true
}

fn asy(d: u32, s: i32) -> Cmd {
    Cmd::Async { text: format!("work {d} {s}"), status: s }
}

fn script_corpus() -> Vec<Vec<Cmd>> {
    let t = |s: &str| s.to_string();
    vec![
        // %N after a lower-numbered job has gone: the numbers do not shift
        vec![asy(2, 7), asy(6, 4), asy(9, 2), Cmd::Wait(t("1")), Cmd::Jobs, Cmd::Wait(t("3")), Cmd::Jobs, Cmd::Wait(t("2")), Cmd::Jobs],
        vec![asy(2, 7), asy(6, 4), asy(9, 2), Cmd::Wait(t("1")), Cmd::Kill(Sig::Stop, t("2")), Cmd::Jobs, Cmd::Kill(Sig::Term, t("3")), Cmd::Jobs, Cmd::Kill(Sig::Cont, t("2")), Cmd::Wait(t("2"))],
        vec![asy(1, 1), asy(5, 2), asy(7, 3), Cmd::Sleep(2), Cmd::Jobs, Cmd::Bg(Some(t("3"))), Cmd::Fg(Some(t("2"))), Cmd::JobsId(t("3")), asy(3, 5), Cmd::Jobs, Cmd::Wait(t("1")), Cmd::Wait(t("3"))],
        // current / previous job and the markers of `jobs`
        vec![asy(5, 7), asy(3, 4), asy(9, 2), Cmd::Kill(Sig::Stop, t("2")), Cmd::Jobs, Cmd::Kill(Sig::Stop, t("1")), Cmd::Jobs, Cmd::Bg(Some(t("2"))), Cmd::Jobs, Cmd::Wait(t("2")), Cmd::Fg(Some(t("1"))), Cmd::Jobs, Cmd::Kill(Sig::Term, t("3")), Cmd::Jobs],
        vec![asy(5, 7), asy(3, 4), Cmd::Wait(t("+")), Cmd::Jobs, Cmd::Wait(t("-")), Cmd::Wait(t("%")), Cmd::Jobs],
        vec![asy(4, 1), asy(4, 2), asy(4, 3), Cmd::Kill(Sig::Stop, t("-")), Cmd::Kill(Sig::Stop, t("-")), Cmd::Jobs, Cmd::Kill(Sig::Kill, t("+")), Cmd::Jobs, Cmd::Fg(None), Cmd::Bg(None), Cmd::Jobs, Cmd::WaitAll],
        // names
        vec![asy(5, 7), asy(3, 4), asy(5, 1), Cmd::Wait(t("work 3")), Cmd::Wait(t("work 5")), Cmd::Wait(t("?7")), Cmd::JobsId(t("w")), Cmd::JobsId(t("?5 1")), Cmd::Kill(Sig::Stop, t("?zz")), Cmd::WaitAll],
        // a helper stops the job that `fg` put in the foreground
        vec![asy(9, 7), Cmd::Async { text: t("{ work 2; kill -s STOP 3; }"), status: 0 }, Cmd::Fg(Some(t("1"))), Cmd::Jobs, asy(1, 3), Cmd::Kill(Sig::Cont, t("?9")), Cmd::Wait(t("-")), Cmd::Wait(t("work")), Cmd::Wait(t("7"))],
        // no jobs at all
        vec![Cmd::Jobs, Cmd::Wait(t("1")), Cmd::Fg(None), Cmd::Bg(Some(t("+"))), Cmd::Kill(Sig::Term, t("%")), Cmd::WaitAll, asy(1, 9), Cmd::Sleep(3), Cmd::Jobs, Cmd::Jobs],
    ]
}

fn main() {
    let args = Args::parse();
    let mut rng = Rng::new(args.seed);
    let mut w = CasesWriter::new(&args, "Yv.C12.Run", args.scale(45, 100));

    // --- stream S first (its cases are the more expensive ones to evaluate)
    for plan in script_corpus() {
        w.count("script:corpus");
        emit_script(&mut w, &plan, &[]);
    }
    let ns = args.scale(220, 4000);
    let mut srng = rng.fork(0x5c);
    for k in 0..ns {
        let mut r = srng.fork(k as u64);
        let nsteps = 5 + r.below(if args.thorough() { 14 } else { 10 });
        let gaps = r.chance(1, 3);
        let plan = plan_script(r.fork(1), nsteps, gaps, &[]);
        if plan.is_empty() {
            continue;
        }
        emit_script(&mut w, &plan, &[]);
    }

    // --- stream A
    // corpus: minimised histories that once mattered
    let n0 = || String::new();
    let corpus: Vec<(Vec<i32>, Vec<&str>, Vec<Op>)> = vec![
        (
            vec![10, 11],
            vec!["+", "-", "1", "2"],
            vec![
                Op::Insert(10, St::Running, n0()),
                Op::Insert(11, St::Stopped(19), n0()),
                Op::Update(11, St::Exited(0)),
                Op::Insert(11, St::Stopped(19), n0()),
            ],
        ),
        (
            vec![10, 11, 12],
            vec!["+", "-", "1", "2", "3", "?"],
            vec![
                Op::Insert(10, St::Stopped(19), n0()),
                Op::Insert(11, St::Stopped(20), n0()),
                Op::Insert(12, St::Running, n0()),
                Op::Remove(0),
                Op::Update(11, St::Running),
                Op::RemoveFinished,
            ],
        ),
        // jobs 1, 2, 3; job 1 removed; %2 and %3 keep their meaning; names
        (
            vec![10, 11, 12, 13],
            vec!["1", "2", "3", "4", "+2", "03", "first", "job", "?job", "?one", "last", "?", "", "%", "+", "-", "0"],
            vec![
                Op::Insert(10, St::Running, "first job".into()),
                Op::Insert(11, St::Running, "job 2".into()),
                Op::Insert(12, St::Running, "last one".into()),
                Op::Remove(0),
                Op::Insert(13, St::Stopped(19), "job 3".into()),
                Op::Remove(1),
                Op::Remove(2),
                Op::Remove(0),
            ],
        ),
        // more than six jobs, then a gap in the middle
        (
            vec![10, 11, 12, 13, 14, 15, 16, 17, 18],
            vec!["1", "5", "6", "7", "8", "9", "10", "w", "work 5", "?5"],
            vec![
                Op::Insert(10, St::Running, "work 5 0".into()),
                Op::Insert(11, St::Running, "work 5 1".into()),
                Op::Insert(12, St::Running, "work 5 2".into()),
                Op::Insert(13, St::Running, "work 6 3".into()),
                Op::Insert(14, St::Running, "work 6 4".into()),
                Op::Insert(15, St::Running, "work 6 5".into()),
                Op::Insert(16, St::Running, "sleep 5".into()),
                Op::Insert(17, St::Running, "x".into()),
                Op::Insert(18, St::Stopped(20), "y".into()),
                Op::Remove(6),
                Op::Remove(2),
                Op::RemoveIdxs(vec![0, 1, 4]),
            ],
        ),
    ];
    let mut corpus = corpus;
    // `$!` survives every operation, in particular the ones that empty the
    // table (remove / remove_if clear the slab) and a second set
    corpus.push((
        vec![10, 11],
        vec!["+", "-", "1", "2"],
        vec![
            Op::SetLast(11),
            Op::Insert(10, St::Running, n0()),
            Op::Remove(0),
            Op::Insert(10, St::Stopped(19), n0()),
            Op::Insert(11, St::Running, n0()),
            Op::SetLast(10),
            Op::Update(10, St::Exited(0)),
            Op::Update(11, St::Signaled(9, false)),
            Op::SetCurrent(1),
            Op::DisownAll,
            Op::Expect(0, Some(St::Running)),
            Op::Reported(1),
            Op::RemoveFinished,
            Op::SetLast(0),
            Op::Insert(10, St::Running, n0()),
            Op::SetLast(-1),
            Op::RemoveIdxs(vec![0]),
        ],
    ));
    for (pids, ids, ops) in &corpus {
        let ids: Vec<String> = ids.iter().map(|s| s.to_string()).collect();
        emit(&mut w, pids, &ids, ops);
    }

    if args.thorough() {
        // bounded-exhaustive: every history of length <= 3 over 2 pids, 3 states
        let pids = vec![10, 11];
        let ids: Vec<String> = ["+", "-", "1", "2", "3", "a", "?b"].iter().map(|s| s.to_string()).collect();
        let mut alphabet = vec![];
        for (p, name) in [(10, "ab"), (11, "abc")] {
            for st in [St::Running, St::Stopped(19), St::Exited(0)] {
                alphabet.push(Op::Insert(p, st, name.to_string()));
                alphabet.push(Op::Update(p, st));
            }
        }
        for i in [0usize, 1] {
            alphabet.push(Op::Remove(i));
            alphabet.push(Op::SetCurrent(i));
        }
        alphabet.push(Op::RemoveFinished);
        alphabet.push(Op::SetLast(11));
        let mut stack: Vec<Vec<usize>> = vec![vec![]];
        while let Some(seq) = stack.pop() {
            if !seq.is_empty() {
                // respect the precondition of insert along the way
                let mut list = JobList::new();
                let mut ok = true;
                let ops: Vec<Op> = seq.iter().map(|i| alphabet[*i].clone()).collect();
                for op in &ops {
                    if let Op::Insert(p, _, _) = op {
                        if let Some(i) = list.find_by_pid(Pid(*p)) {
                            if list[i].state.is_alive() {
                                ok = false;
                                break;
                            }
                        }
                    }
                    apply(&mut list, op);
                }
                if !ok {
                    continue;
                }
                w.count("exhaustive");
                emit(&mut w, &pids, &ids, &ops);
            }
            if seq.len() < 3 {
                for i in 0..alphabet.len() {
                    let mut s2 = seq.clone();
                    s2.push(i);
                    stack.push(s2);
                }
            }
        }
    }

    let n = args.scale(600, 12000);
    for k in 0..n {
        let mut r = rng.fork(k as u64);
        // every fourth history: many jobs (numbers beyond 6) and removals
        let many = k % 4 == 3;
        let npids = if many { 7 + r.below(4) } else { 2 + r.below(4) };
        let pids: Vec<i32> = (0..npids).map(|i| 10 + i as i32).collect();
        let len = if args.thorough() { 1 + r.below(40) } else { 1 + r.below(24) };
        let ids = pick_ids(&mut r);
        let mut list = JobList::new();
        let mut ops = vec![];
        if r.chance(1, 2) {
            let op = Op::SetLast(*r.pick(&pids));
            apply(&mut list, &op);
            ops.push(op);
        }
        if many {
            for p in &pids {
                let op = Op::Insert(*p, random_state(&mut r), r.pick(&NAMES).to_string());
                apply(&mut list, &op);
                ops.push(op);
            }
        }
        for _ in 0..len {
            let op = random_op(&mut r, &list, &pids);
            apply(&mut list, &op);
            ops.push(op);
        }
        emit(&mut w, &pids, &ids, &ops);
    }
    w.finish(
        "stream A: random histories over 2-10 pids (insert only on a vacant or finished pid) with job names \
         and 8-12 job-ID texts resolved after every operation, set_last_async_pid at random points (about 7 % of the \
         operations and first in half of the histories) and last_async_pid() read after every operation; non-trivial = at least two jobs coexisted and \
         at least one was suspended; distinct = by operation sequence.  stream S: scripts of 5-18 commands \
         chosen from the real state (asynchronous lists, jobs, wait/kill/bg/fg with %N %+ %- %% %name %?name \
         operands, virtual time); non-trivial = two jobs coexisted and an operand designated a job; distinct = by script",
    );
}
