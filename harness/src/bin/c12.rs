//! C12 — histories of job events on the real `yash_env::job::JobList`.
//!
//! For every history the observations made through the public API after each
//! operation are written next to the operation; Coq replays the history on the
//! model (`Yv.C12.Model.step`) and evaluates the invariant oracle on the
//! implementation's observations.

use yash_env::job::id::parse as parse_job_id;
use yash_env::job::{Job, JobList, Pid, ProcessResult, ProcessState};
use yash_env::semantics::ExitStatus;
use yash_env::signal;
use yv_harness::cli::Args;
use yv_harness::out::CasesWriter;
use yv_harness::rng::Rng;
use yv_harness::{coq, json_str};

#[derive(Clone, Copy, Debug, PartialEq)]
enum St {
    Running,
    Stopped(i32),
    Exited(i32),
    Signaled(i32, bool),
}

impl St {
    fn to_real(self) -> ProcessState {
        match self {
            St::Running => ProcessState::Running,
            St::Stopped(n) => ProcessState::stopped(signal::Number::from_raw_unchecked(
                std::num::NonZeroI32::new(n).unwrap(),
            )),
            St::Exited(n) => ProcessState::exited(ExitStatus(n)),
            St::Signaled(n, c) => ProcessState::Halted(ProcessResult::Signaled {
                signal: signal::Number::from_raw_unchecked(std::num::NonZeroI32::new(n).unwrap()),
                core_dump: c,
            }),
        }
    }
    fn of_real(s: ProcessState) -> St {
        match s {
            ProcessState::Running => St::Running,
            ProcessState::Halted(ProcessResult::Stopped(n)) => St::Stopped(n.as_raw()),
            ProcessState::Halted(ProcessResult::Exited(e)) => St::Exited(e.0),
            ProcessState::Halted(ProcessResult::Signaled { signal, core_dump }) => {
                St::Signaled(signal.as_raw(), core_dump)
            }
        }
    }
    fn coq(self) -> String {
        match self {
            St::Running => "Running".into(),
            St::Stopped(n) => format!("(Stopped {})", coq::n(n as u64)),
            St::Exited(n) => format!("(Exited {})", coq::n(n as u64)),
            St::Signaled(n, c) => format!("(Signaled {} {})", coq::n(n as u64), coq::b(c)),
        }
    }
    fn show(self) -> String {
        match self {
            St::Running => "run".into(),
            St::Stopped(n) => format!("stop{n}"),
            St::Exited(n) => format!("exit{n}"),
            St::Signaled(n, c) => format!("sig{n}{}", if c { "c" } else { "" }),
        }
    }
}

#[derive(Clone, Debug)]
enum Op {
    Insert(i32, St),
    Remove(usize),
    RemoveIdxs(Vec<usize>),
    RemoveFinished,
    Update(i32, St),
    SetCurrent(usize),
    DisownAll,
    Expect(usize, Option<St>),
    Reported(usize),
}

impl Op {
    fn coq(&self) -> String {
        match self {
            Op::Insert(p, s) => format!("(OInsert {} {})", coq::z(*p as i128), s.coq()),
            Op::Remove(i) => format!("(ORemove {})", coq::nat(*i)),
            Op::RemoveIdxs(l) => {
                let v: Vec<String> = l.iter().map(|i| coq::nat(*i)).collect();
                format!("(ORemoveIdxs {})", coq::list(&v))
            }
            Op::RemoveFinished => "ORemoveFinished".into(),
            Op::Update(p, s) => format!("(OUpdate {} {})", coq::z(*p as i128), s.coq()),
            Op::SetCurrent(i) => format!("(OSetCurrent {})", coq::nat(*i)),
            Op::DisownAll => "ODisownAll".into(),
            Op::Expect(i, s) => {
                format!("(OExpect {} {})", coq::nat(*i), coq::opt(s.map(|s| s.coq())))
            }
            Op::Reported(i) => format!("(OReported {})", coq::nat(*i)),
        }
    }
    fn show(&self) -> String {
        match self {
            Op::Insert(p, s) => format!("insert({p},{})", s.show()),
            Op::Remove(i) => format!("remove({i})"),
            Op::RemoveIdxs(l) => format!("remove_if(idx in {l:?})"),
            Op::RemoveFinished => "remove_if(finished)".into(),
            Op::Update(p, s) => format!("update({p},{})", s.show()),
            Op::SetCurrent(i) => format!("set_current({i})"),
            Op::DisownAll => "disown_all".into(),
            Op::Expect(i, s) => format!("expect({i},{:?})", s.map(|s| s.show())),
            Op::Reported(i) => format!("reported({i})"),
        }
    }
}

fn apply(list: &mut JobList, op: &Op) {
    match op {
        Op::Insert(p, s) => {
            let mut job = Job::new(Pid(*p));
            job.state = s.to_real();
            list.insert(job);
        }
        Op::Remove(i) => {
            list.remove(*i);
        }
        Op::RemoveIdxs(l) => list.remove_if(|i, _| l.contains(&i)),
        Op::RemoveFinished => list.remove_if(|_, j| !j.state.is_alive()),
        Op::Update(p, s) => {
            list.update_status(Pid(*p), s.to_real());
        }
        Op::SetCurrent(i) => {
            let _ = list.set_current_job(*i);
        }
        Op::DisownAll => list.disown_all(),
        Op::Expect(i, s) => {
            if let Some(mut j) = list.get_mut(*i) {
                j.expect(s.map(|s| s.to_real()));
            }
        }
        Op::Reported(i) => {
            if let Some(mut j) = list.get_mut(*i) {
                j.state_reported();
            }
        }
    }
}

const IDS: [&str; 8] = ["%+", "%-", "%1", "%2", "%3", "%4", "%5", "%6"];

fn observe(list: &JobList, pids: &[i32]) -> (String, String) {
    let jobs: Vec<String> = list
        .iter()
        .map(|(i, j)| {
            format!(
                "({}, ({}, {}, {}, {}))",
                coq::nat(i),
                coq::z(j.pid.0 as i128),
                St::of_real(j.state).coq(),
                coq::b(j.state_changed),
                coq::b(j.is_owned)
            )
        })
        .collect();
    let find: Vec<String> = pids
        .iter()
        .map(|p| {
            format!(
                "({}, {})",
                coq::z(*p as i128),
                coq::opt(list.find_by_pid(Pid(*p)).map(coq::nat))
            )
        })
        .collect();
    let ids: Vec<String> = IDS
        .iter()
        .map(|id| coq::opt(parse_job_id(id).unwrap().find(list).ok().map(coq::nat)))
        .collect();
    let term = format!(
        "(mkObs {} {} {} {} {})",
        coq::list(&jobs),
        coq::opt(list.current_job().map(coq::nat)),
        coq::opt(list.previous_job().map(coq::nat)),
        coq::list(&find),
        coq::list(&ids)
    );
    let shown: Vec<String> =
        list.iter().map(|(i, j)| format!("{}:{}:{}", i, j.pid.0, St::of_real(j.state).show())).collect();
    let human = format!(
        "[{}] cur={:?} prev={:?}",
        shown.join(" "),
        list.current_job(),
        list.previous_job()
    );
    (term, human)
}

fn random_state(rng: &mut Rng) -> St {
    match rng.below(10) {
        0..=3 => St::Running,
        4..=6 => St::Stopped(*rng.pick(&[19, 20, 21, 22])),
        7..=8 => St::Exited(*rng.pick(&[0, 1, 2, 127])),
        _ => St::Signaled(*rng.pick(&[2, 9, 15]), rng.chance(1, 3)),
    }
}

fn random_op(rng: &mut Rng, list: &JobList, pids: &[i32]) -> Op {
    let max_idx = list.iter().map(|(i, _)| i).max().map_or(1, |m| m + 2);
    loop {
        match rng.below(100) {
            0..=34 => {
                let p = *rng.pick(pids);
                // The property's precondition: a pid is only reused after its
                // job has finished.
                if let Some(i) = list.find_by_pid(Pid(p)) {
                    if list[i].state.is_alive() {
                        continue;
                    }
                }
                return Op::Insert(p, random_state(rng));
            }
            35..=59 => return Op::Update(*rng.pick(pids), random_state(rng)),
            60..=71 => return Op::Remove(rng.below(max_idx)),
            72..=76 => {
                let k = rng.below(3) + 1;
                let l: Vec<usize> = (0..k).map(|_| rng.below(max_idx)).collect();
                return Op::RemoveIdxs(l);
            }
            77..=81 => return Op::RemoveFinished,
            82..=91 => return Op::SetCurrent(rng.below(max_idx)),
            92..=93 => return Op::DisownAll,
            94..=97 => {
                let st = if rng.chance(1, 4) { None } else { Some(random_state(rng)) };
                return Op::Expect(rng.below(max_idx), st);
            }
            _ => return Op::Reported(rng.below(max_idx)),
        }
    }
}

fn emit(w: &mut CasesWriter, pids: &[i32], ops: &[Op]) {
    let mut list = JobList::new();
    let mut hist = vec![];
    let mut human = vec![];
    let mut max_jobs = 0;
    let mut max_susp = 0;
    for op in ops {
        apply(&mut list, op);
        let (term, h) = observe(&list, pids);
        hist.push(format!("({}, {})", op.coq(), term));
        human.push(format!("{} -> {}", op.show(), h));
        max_jobs = max_jobs.max(list.len());
        max_susp = max_susp.max(list.iter().filter(|(_, j)| j.state.is_stopped()).count());
        w.count(match op {
            Op::Insert(..) => "op:insert",
            Op::Remove(..) => "op:remove",
            Op::RemoveIdxs(..) | Op::RemoveFinished => "op:remove_if",
            Op::Update(..) => "op:update_status",
            Op::SetCurrent(..) => "op:set_current_job",
            Op::DisownAll => "op:disown_all",
            Op::Expect(..) | Op::Reported(..) => "op:job_ref_mut",
        });
    }
    w.count(&format!("max_jobs:{max_jobs}"));
    w.count(&format!("max_suspended:{max_susp}"));
    let pidl: Vec<String> = pids.iter().map(|p| coq::z(*p as i128)).collect();
    let term = format!("({}, {})", coq::list(&pidl), coq::list(&hist));
    let json = format!(
        "{{\"pids\":{:?},\"history\":[{}]}}",
        pids,
        human.iter().map(|h| json_str(h)).collect::<Vec<_>>().join(",")
    );
    // non-trivial: at least two jobs coexisted and one was suspended
    let key = if max_jobs >= 2 && max_susp >= 1 {
        Some(ops.iter().map(|o| o.show()).collect::<Vec<_>>().join(";"))
    } else {
        None
    };
    w.push(&term, &json, &[], key);
}

fn main() {
    let args = Args::parse();
    let mut rng = Rng::new(args.seed);
    let mut w = CasesWriter::new(&args, "Yv.C12.Run", 100);

    // corpus: minimised histories that once mattered
    let corpus: Vec<(Vec<i32>, Vec<Op>)> = vec![
        (
            vec![10, 11],
            vec![
                Op::Insert(10, St::Running),
                Op::Insert(11, St::Stopped(19)),
                Op::Update(11, St::Exited(0)),
                Op::Insert(11, St::Stopped(19)),
            ],
        ),
        (
            vec![10, 11, 12],
            vec![
                Op::Insert(10, St::Stopped(19)),
                Op::Insert(11, St::Stopped(20)),
                Op::Insert(12, St::Running),
                Op::Remove(0),
                Op::Update(11, St::Running),
                Op::RemoveFinished,
            ],
        ),
    ];
    for (pids, ops) in &corpus {
        emit(&mut w, pids, ops);
    }

    if args.thorough() {
        // bounded-exhaustive: every history of length <= 3 over 2 pids, 3 states
        let pids = vec![10, 11];
        let mut alphabet = vec![];
        for p in [10, 11] {
            for st in [St::Running, St::Stopped(19), St::Exited(0)] {
                alphabet.push(Op::Insert(p, st));
                alphabet.push(Op::Update(p, st));
            }
        }
        for i in [0usize, 1] {
            alphabet.push(Op::Remove(i));
            alphabet.push(Op::SetCurrent(i));
        }
        alphabet.push(Op::RemoveFinished);
        let mut stack: Vec<Vec<usize>> = vec![vec![]];
        while let Some(seq) = stack.pop() {
            if !seq.is_empty() {
                // respect the precondition of insert along the way
                let mut list = JobList::new();
                let mut ok = true;
                let ops: Vec<Op> = seq.iter().map(|i| alphabet[*i].clone()).collect();
                for op in &ops {
                    if let Op::Insert(p, _) = op {
                        if let Some(i) = list.find_by_pid(Pid(*p)) {
                            if list[i].state.is_alive() {
                                ok = false;
                                break;
                            }
                        }
                    }
                    apply(&mut list, op);
                }
                if !ok {
                    continue;
                }
                w.count("exhaustive");
                emit(&mut w, &pids, &ops);
            }
            if seq.len() < 3 {
                for i in 0..alphabet.len() {
                    let mut s2 = seq.clone();
                    s2.push(i);
                    stack.push(s2);
                }
            }
        }
    }

    let n = args.scale(600, 12000);
    for k in 0..n {
        let mut r = rng.fork(k as u64);
        let npids = 2 + r.below(4);
        let pids: Vec<i32> = (0..npids).map(|i| 10 + i as i32).collect();
        let len = if args.thorough() { 1 + r.below(40) } else { 1 + r.below(24) };
        let mut list = JobList::new();
        let mut ops = vec![];
        for _ in 0..len {
            let op = random_op(&mut r, &list, &pids);
            apply(&mut list, &op);
            ops.push(op);
        }
        emit(&mut w, &pids, &ops);
    }
    w.finish(
        "random histories over 2-5 pids (insert only on a vacant or finished pid); \
         non-trivial = at least two jobs coexisted and at least one was suspended; \
         distinct = by operation sequence",
    );
}
