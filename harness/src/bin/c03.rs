//! C03 — arithmetic expansion: `yash_arith::eval(text, &mut HashMap)` on
//! generated expression texts and variable environments.
//!
//! For every case the text, the variables before, and the implementation's
//! answer (value / error cause with its location ranges / panic) together with
//! the variables afterwards are written as a Coq term; Coq evaluates the oracle
//! (`Yv.C03.Spec.oracle`: lexer + C grammar + denotational semantics in Z) on the
//! implementation's answer and compares the model (`Yv.C03.Model.run`) with it.
//!
//! Streams (all derived from the seed):
//!   ascii     Rust's classification of the 128 ASCII code points
//!   corpus    hand-written texts (minimised cases, every error cause, the
//!             variable-value forms of the `$((x))` / `$(($x))` clause)
//!   tree      random expression trees (depth <= 5) rendered with random
//!             spacing, minimal / surplus / missing parentheses, constants in
//!             decimal / octal / hexadecimal, boundary operands
//!   pairs     boundary operands x binary operator x boundary operands
//!             (thorough: every triple), also through variables and compound
//!             assignment
//!   triples   `a op1 b op2 c` without parentheses (precedence and
//!             associativity) over boundary operands; thorough: the space
//!             `triples5` = all 18 x 18 operator pairs x 5^3 operands
//!             {0, 1, -1, 63, 2^63-1}, exhaustively (40500 texts)
//!   varval    a variable holding a constant-like string, as `x` and as the
//!             text itself
//!   soup      random token sequences
//!   unicode   random characters, including non-ASCII blanks, letters, digits
//!   portable  corpus, trees and soup with Config { portable: true }
//!             (ast/portability.rs: `++` / `--` rejected wherever they stand)
//!   depth     1 inside N parentheses / after N `!` / inside N nested `?:`,
//!             N = 100 .. 100000, each evaluated in a child process (this binary
//!             re-executed with `--opt deep=KIND:N`) so that a stack overflow is an
//!             observed outcome (Crash) and not the end of the harness; a crash at
//!             depth >= 5000 is tagged F20 (open known finding), any other crash is not
//!   shellx    the shell's arithmetic expansion with `set -u` on/off, read-only
//!             variables, `$name` / `${name}` and nested `$(( ))` in the text; the
//!             variables are read by the EXIT trap, also after an expansion error
//!   shell     tree texts through the whole shell on the simulated OS:
//!             `args "$((text))"` after assigning the variables, then the
//!             variables read back (yash-semantics expansion/initial/arith.rs)

use std::collections::{BTreeMap, BTreeSet, HashMap};
use std::panic::{AssertUnwindSafe, catch_unwind};
use yash_arith::{Config, ErrorCause, EvalError, PortabilityError, SyntaxError, TokenError, Value};
use yv_harness::cli::Args;
use yv_harness::out::CasesWriter;
use yv_harness::rng::Rng;
use yv_harness::vsh;
use yv_harness::{coq, json_str};

type Vars = BTreeMap<String, String>;

fn range(r: &std::ops::Range<usize>) -> String {
    format!("({}, {})", coq::n(r.start as u64), coq::n(r.end as u64))
}

fn env_term(v: &Vars) -> String {
    let l: Vec<String> = v.iter().map(|(k, x)| format!("({}, {})", coq::s(k), coq::s(x))).collect();
    coq::list(&l)
}

fn env_json(v: &Vars) -> String {
    let l: Vec<String> = v.iter().map(|(k, x)| format!("{}:{}", json_str(k), json_str(x))).collect();
    format!("{{{}}}", l.join(","))
}

/// The implementation's answer as a Coq term of type `outcome`, a short text,
/// and a class for the histogram.
fn run_impl(text: &str, vars: &Vars) -> (String, String, String) {
    run_impl_config(text, vars, false)
}

fn run_impl_config(text: &str, vars: &Vars, portable: bool) -> (String, String, String) {
    let mut env: HashMap<String, String> = vars.iter().map(|(k, v)| (k.clone(), v.clone())).collect();
    let mut config = Config::new();
    config.portable = portable;
    let r = catch_unwind(AssertUnwindSafe(|| yash_arith::eval_with_config(text, &mut env, config)));
    let after: Vars = env.into_iter().collect();
    let e = env_term(&after);
    match r {
        Err(_) => ("RPanic".into(), "PANIC".into(), "panic".into()),
        Ok(Ok(Value::Integer(i))) => (
            format!("(RVal {} {})", coq::z(i as i128), e),
            format!("{} {}", i, env_json(&after)),
            "value".into(),
        ),
        Ok(Ok(v)) => panic!("unknown kind of value {v:?}"),
        Ok(Err(err)) => {
            let (cause, name): (String, &str) = match &err.cause {
                ErrorCause::SyntaxError(s) => {
                    let (t, n): (String, &str) = match s {
                        SyntaxError::TokenError(TokenError::InvalidNumericConstant) => {
                            ("(SETok InvalidNumericConstant)".into(), "InvalidNumericConstant")
                        }
                        SyntaxError::TokenError(TokenError::InvalidCharacter) => {
                            ("(SETok InvalidCharacter)".into(), "InvalidCharacter")
                        }
                        SyntaxError::IncompleteExpression => {
                            ("IncompleteExpression".into(), "IncompleteExpression")
                        }
                        SyntaxError::MissingOperator => ("MissingOperator".into(), "MissingOperator"),
                        SyntaxError::UnclosedParenthesis { opening_location } => (
                            format!("(UnclosedParenthesis {})", range(opening_location)),
                            "UnclosedParenthesis",
                        ),
                        SyntaxError::QuestionWithoutColon { question_location } => (
                            format!("(QuestionWithoutColon {})", range(question_location)),
                            "QuestionWithoutColon",
                        ),
                        SyntaxError::ColonWithoutQuestion => {
                            ("ColonWithoutQuestion".into(), "ColonWithoutQuestion")
                        }
                        SyntaxError::InvalidOperator => ("InvalidOperator".into(), "InvalidOperator"),
                        other => panic!("unknown syntax error {other:?}"),
                    };
                    (format!("(CSyntax {t})"), n)
                }
                ErrorCause::EvalError(x) => {
                    let (t, n): (String, &str) = match x {
                        EvalError::InvalidVariableValue(v) => {
                            (format!("(InvalidVariableValue {})", coq::s(v)), "InvalidVariableValue")
                        }
                        EvalError::Overflow => ("Overflow".into(), "Overflow"),
                        EvalError::DivisionByZero => ("DivisionByZero".into(), "DivisionByZero"),
                        EvalError::LeftShiftingNegative => {
                            ("LeftShiftingNegative".into(), "LeftShiftingNegative")
                        }
                        EvalError::ReverseShifting => ("ReverseShifting".into(), "ReverseShifting"),
                        EvalError::AssignmentToValue => ("AssignmentToValue".into(), "AssignmentToValue"),
                        other => panic!("unknown evaluation error {other:?}"),
                    };
                    (format!("(CEval {t})"), n)
                }
                ErrorCause::PortabilityError(PortabilityError::IncrementDecrement) => {
                    ("CPortability".into(), "NonPortableIncrementDecrement")
                }
                other => panic!("unknown error cause {other:?}"),
            };
            (
                format!("(RErr {} {} {})", cause, range(&err.location), e),
                format!("error {} at {:?} {}", name, err.location, env_json(&after)),
                format!("error:{name}"),
            )
        }
    }
}

fn emit(w: &mut CasesWriter, stream: &str, text: &str, vars: &Vars) {
    emit_config(w, stream, text, vars, false)
}

fn emit_config(w: &mut CasesWriter, stream: &str, text: &str, vars: &Vars, portable: bool) {
    let (out, shown, class) = run_impl_config(text, vars, portable);
    let term = format!(
        "({} {} {} {} {})",
        if portable { "KPortable" } else { "KEval" },
        class_table(text),
        coq::s(text),
        env_term(vars),
        out
    );
    let json = format!(
        "{{\"stream\":{},\"text\":{},\"vars\":{},\"impl\":{}}}",
        json_str(stream),
        json_str(text),
        env_json(vars),
        json_str(&shown)
    );
    w.count(&format!("stream:{stream}"));
    w.count(&format!("answer:{class}"));
    let nops = text.chars().filter(|c| "+-*/%<>=!&|^~?".contains(*c)).count();
    w.count(&format!("operator_chars:{}", nops.min(8)));
    let key = if nops >= 1 { Some(format!("{text}\u{0}{}", env_json(vars))) } else { None };
    w.push(&term, &json, &[], key);
}

fn class_table(text: &str) -> String {
    let mut cls: BTreeSet<char> = BTreeSet::new();
    for c in text.chars() {
        if !c.is_ascii() {
            cls.insert(c);
        }
    }
    let tbl: Vec<String> = cls
        .iter()
        .map(|c| {
            let k = if c.is_whitespace() {
                1
            } else if c.is_alphanumeric() {
                2
            } else {
                0
            };
            format!("({}, {})", coq::n(*c as u64), coq::n(k))
        })
        .collect();
    coq::list(&tbl)
}

/// The text through the whole shell.  The text must not contain characters the
/// shell expands or quotes inside `$(( ))` and must have balanced parentheses.
fn emit_shell(w: &mut CasesWriter, text: &str, vars: &Vars) {
    assert!(!text.contains(['$', '`', '\\', '"', '\'']));
    let mut script = String::new();
    for (k, v) in vars {
        assert!(!v.contains('\''));
        script.push_str(&format!("{k}='{v}'\n"));
    }
    script.push_str(&format!("args \"$(({text}))\"\n"));
    script.push_str("args");
    for n in NAMES {
        script.push_str(&format!(" \"${{{n}+s}}\" \"${n}\""));
    }
    script.push('\n');
    let out = vsh::run_script(&script);
    let args: Vec<&vsh::TraceItem> = out.trace.iter().filter(|t| t.kind == "args").collect();
    let (ans, shown, class): (String, String, &str) = if out.panicked.is_some() {
        ("AnsPanic".into(), format!("PANIC {:?}", out.panicked), "panic")
    } else if args.len() == 2
        && args[0].args.len() == 1
        && args[1].args.len() == 2 * NAMES.len()
        && args[0].args[0].parse::<i64>().is_ok()
    {
        let value: i64 = args[0].args[0].parse().unwrap();
        let mut after = Vars::new();
        for (i, n) in NAMES.iter().enumerate() {
            if args[1].args[2 * i] == "s" {
                after.insert(n.to_string(), args[1].args[2 * i + 1].clone());
            }
        }
        (
            format!("(AnsValue {} {})", coq::z(value as i128), env_term(&after)),
            format!("{} {}", value, env_json(&after)),
            "value",
        )
    } else if args.is_empty() && out.status != 0 && !out.deadlock && !out.timeout {
        ("AnsError".into(), format!("error (status {})", out.status), "error")
    } else {
        // anything else: the expansion was not a decimal number, the shell went on
        // after an error, hung, ...
        ("AnsOther".into(), format!("unexpected: {out:?}"), "other")
    };
    let term = format!("(KShell {} {} {} {})", class_table(text), coq::s(text), env_term(vars), ans);
    let json = format!(
        "{{\"stream\":\"shell\",\"text\":{},\"vars\":{},\"script\":{},\"impl\":{}}}",
        json_str(text),
        env_json(vars),
        json_str(&script),
        json_str(&shown)
    );
    w.count("stream:shell");
    w.count(&format!("shell_answer:{class}"));
    w.push(&term, &json, &[], Some(format!("sh\u{0}{text}\u{0}{}", env_json(vars))));
}

// ---------------------------------------------------------------------------
// the text of `$(( ))` as units: literal text, `${name}` / `$name`, nested `$(( ))`

#[derive(Clone, Debug)]
enum Unit {
    Lit(String),
    Param(String, bool), // name, written with braces
    Arith(Vec<Unit>),
}

fn units_script(us: &[Unit], out: &mut String) {
    for u in us {
        match u {
            Unit::Lit(t) => out.push_str(t),
            Unit::Param(n, true) => out.push_str(&format!("${{{n}}}")),
            Unit::Param(n, false) => out.push_str(&format!("${n}")),
            Unit::Arith(inner) => {
                out.push_str("$((");
                units_script(inner, out);
                out.push_str("))");
            }
        }
    }
}

fn units_coq(us: &[Unit]) -> String {
    let mut v = vec![];
    for u in us {
        match u {
            Unit::Lit(t) => v.extend(t.chars().map(|c| format!("ULit {}", c as u32))),
            Unit::Param(n, _) => v.push(format!("UParam {}", coq::s(n))),
            Unit::Arith(inner) => v.push(format!("UArith {}", units_coq(inner))),
        }
    }
    if v.is_empty() { "(@nil tunit)".into() } else { format!("[{}]%N", v.join("; ")) }
}

fn tree_units(t: &Tree, r: &mut Rng, depth: usize, out: &mut Vec<Unit>) {
    if depth < 2 && !matches!(t, Tree::Var(_)) && r.chance(1, 7) {
        let mut inner = vec![];
        tree_units(t, r, depth + 1, &mut inner);
        out.push(Unit::Arith(inner));
        return;
    }
    let lit = |out: &mut Vec<Unit>, s: &str| out.push(Unit::Lit(s.to_string()));
    let sub = |t: &Tree, r: &mut Rng, out: &mut Vec<Unit>| {
        let leaf = matches!(t, Tree::Var(_)) || matches!(t, Tree::Num(v, _) if *v >= 0);
        if !leaf {
            out.push(Unit::Lit("(".into()));
        }
        tree_units(t, r, depth, out);
        if !leaf {
            out.push(Unit::Lit(")".into()));
        }
    };
    match t {
        Tree::Num(..) => {
            let mut s = String::new();
            t.render(1, 100, &mut Rng::new(0), &mut s);
            lit(out, s.trim());
        }
        Tree::Var(n) => match r.below(4) {
            0 => out.push(Unit::Param(n.clone(), true)),
            1 => {
                out.push(Unit::Param(n.clone(), false));
                lit(out, " ");
            }
            _ => lit(out, n),
        },
        Tree::Pre(o, a) => {
            lit(out, o);
            lit(out, " ");
            sub(a, r, out);
        }
        Tree::Post(o, a) => {
            sub(a, r, out);
            lit(out, o);
        }
        Tree::Bin(o, _, a, b) | Tree::Asg(o, a, b) => {
            sub(a, r, out);
            lit(out, &format!(" {o} "));
            sub(b, r, out);
        }
        Tree::Cond(c, a, b) => {
            sub(c, r, out);
            lit(out, " ? ");
            sub(a, r, out);
            lit(out, " : ");
            sub(b, r, out);
        }
    }
}

/// `args "$(( units ))"` in the shell with nounset on/off and read-only variables; the
/// variables are read by the EXIT trap, also after an expansion error.
fn emit_shellx(w: &mut CasesWriter, us: &[Unit], vars: &Vars, nounset: bool, ro: &[String]) {
    let mut text = String::new();
    units_script(us, &mut text);
    assert!(!text.contains(['`', '\\', '"', '\'']));
    let mut script = String::from("trap 'args");
    for n in NAMES {
        script.push_str(&format!(" \"${{{n}+s}}\" \"${{{n}-}}\""));
    }
    script.push_str("' EXIT\n");
    for (k, v) in vars {
        assert!(!v.contains('\''));
        script.push_str(&format!("{k}='{v}'\n"));
    }
    if !ro.is_empty() {
        script.push_str(&format!("readonly {}\n", ro.join(" ")));
    }
    if nounset {
        script.push_str("set -u\n");
    }
    script.push_str(&format!("args \"$(({text}))\"\n"));
    let out = vsh::run_script(&script);
    let args: Vec<&vsh::TraceItem> = out.trace.iter().filter(|t| t.kind == "args").collect();
    let read_vars = |t: &vsh::TraceItem| {
        let mut after = Vars::new();
        for (i, n) in NAMES.iter().enumerate() {
            if t.args[2 * i] == "s" {
                after.insert(n.to_string(), t.args[2 * i + 1].clone());
            }
        }
        after
    };
    let nv = 2 * NAMES.len();
    let (ans, shown, class): (String, String, &str) = if out.panicked.is_some() {
        ("SaPanic".into(), format!("PANIC {:?}", out.panicked), "panic")
    } else if args.len() == 2 && args[0].args.len() == 1 && args[1].args.len() == nv && out.status == 0 {
        let after = read_vars(args[1]);
        (
            format!("(SaText {} {})", coq::s(&args[0].args[0]), env_term(&after)),
            format!("{} {}", args[0].args[0], env_json(&after)),
            "value",
        )
    } else if args.len() == 1 && args[0].args.len() == nv && out.status != 0 && !out.deadlock && !out.timeout {
        let after = read_vars(args[0]);
        (format!("(SaError {})", env_term(&after)), format!("error {}", env_json(&after)), "error")
    } else {
        ("SaOther".into(), format!("unexpected: {out:?}"), "other")
    };
    let rol: Vec<String> = ro.iter().map(|n| coq::s(n)).collect();
    let term = format!(
        "(KShellX {} {} {} {} {} {})",
        class_table(&text),
        coq::b(nounset),
        coq::list(&rol),
        units_coq(us),
        env_term(vars),
        ans
    );
    let json = format!(
        "{{\"stream\":\"shellx\",\"script\":{},\"impl\":{}}}",
        json_str(&script),
        json_str(&shown)
    );
    w.count("stream:shellx");
    w.count(&format!("shellx_answer:{class}"));
    w.count(if nounset { "shellx:nounset" } else { "shellx:unset-is-0" });
    if !ro.is_empty() {
        w.count("shellx:with-readonly");
    }
    w.push(&term, &json, &[], Some(format!("shx\u{0}{script}")));
}

// ---------------------------------------------------------------------------
// expression trees

const BIN_OPS: [(&str, u8); 20] = [
    ("||", 3), ("&&", 4), ("|", 5), ("^", 6), ("&", 7), ("==", 8), ("!=", 8), ("<", 9), ("<=", 9),
    (">", 9), (">=", 9), ("<<", 10), (">>", 10), ("+", 11), ("-", 11), ("*", 12), ("/", 12),
    ("%", 12), ("*", 12), ("-", 11),
];
const ASSIGN_OPS: [&str; 11] = ["=", "|=", "^=", "&=", "<<=", ">>=", "+=", "-=", "*=", "/=", "%="];
const PREFIX_OPS: [&str; 6] = ["+", "-", "!", "~", "++", "--"];
// the variables the generated texts can name, including "abc", a *value* of VALUES that
// is a name (`$((${c} = 1))` with c=abc assigns abc); all are read back in the shell streams
const NAMES: [&str; 9] = ["a", "b", "c", "x", "y", "_z1", "u", "m", "abc"];

const BOUNDARY: [i128; 14] = [
    0,
    1,
    -1,
    2,
    7,
    62,
    63,
    64,
    65,
    2147483648,
    4294967296,
    9223372036854775807,
    -9223372036854775807,
    -9223372036854775808,
];

#[derive(Clone, Debug)]
enum Tree {
    Num(i128, u8), // value, radix selector
    Var(String),
    Pre(&'static str, Box<Tree>),
    Post(&'static str, Box<Tree>),
    Bin(&'static str, u8, Box<Tree>, Box<Tree>),
    Asg(&'static str, Box<Tree>, Box<Tree>),
    Cond(Box<Tree>, Box<Tree>, Box<Tree>),
}

fn sp(r: &mut Rng) -> &'static str {
    match r.below(12) {
        0..=5 => "",
        6..=8 => " ",
        9 => "  ",
        10 => "\t",
        _ => "\n",
    }
}

/// Renders a non-negative constant in the selected radix.
fn num(v: i128, sel: u8) -> String {
    match sel % 4 {
        0 | 1 => format!("{v}"),
        2 => format!("0{v:o}"),
        _ => {
            if sel % 8 == 3 {
                format!("0x{v:x}")
            } else {
                format!("0X{v:X}")
            }
        }
    }
}

impl Tree {
    /// precedence of the root as the parser of C sees it (13 = unary/primary)
    fn prec(&self) -> u8 {
        match self {
            Tree::Num(v, _) => {
                if *v < 0 {
                    13
                } else {
                    14
                }
            }
            Tree::Var(_) => 14,
            Tree::Post(..) => 14,
            Tree::Pre(..) => 13,
            Tree::Bin(_, p, _, _) => *p,
            Tree::Cond(..) => 2,
            Tree::Asg(..) => 1,
        }
    }

    /// Renders the tree.  `need` = the lowest precedence the context accepts
    /// without parentheses; parentheses are added when needed with
    /// probability `keep`/100 and when not needed with probability 12/100.
    fn render(&self, need: u8, keep: u32, r: &mut Rng, out: &mut String) {
        let paren = if self.prec() < need { r.chance(keep, 100) } else { r.chance(12, 100) };
        out.push_str(sp(r));
        if paren {
            out.push('(');
            out.push_str(sp(r));
        }
        match self {
            Tree::Num(v, sel) => {
                if *v == -9223372036854775808 {
                    // not a constant of the language: written as an expression
                    out.push_str("(-9223372036854775807");
                    out.push_str(sp(r));
                    out.push_str("-1)");
                } else if *v < 0 {
                    out.push('-');
                    out.push_str(&num(-*v, *sel));
                } else {
                    out.push_str(&num(*v, *sel));
                }
            }
            Tree::Var(n) => out.push_str(n),
            Tree::Pre(o, a) => {
                out.push_str(o);
                // keep `- -a` from becoming `--a` most of the time
                if r.chance(4, 5) {
                    out.push(' ');
                }
                a.render(13, keep, r, out);
            }
            Tree::Post(o, a) => {
                a.render(14, keep, r, out);
                out.push_str(sp(r));
                out.push_str(o);
            }
            Tree::Bin(o, p, a, b) => {
                a.render(*p, keep, r, out);
                out.push_str(sp(r));
                out.push_str(o);
                if r.chance(3, 5) {
                    out.push(' ');
                }
                b.render(*p + 1, keep, r, out);
            }
            Tree::Asg(o, a, b) => {
                a.render(13, keep, r, out);
                out.push_str(sp(r));
                out.push_str(o);
                if r.chance(3, 5) {
                    out.push(' ');
                }
                b.render(1, keep, r, out);
            }
            Tree::Cond(c, a, b) => {
                c.render(3, keep, r, out);
                out.push_str(sp(r));
                out.push('?');
                a.render(1, keep, r, out);
                out.push_str(sp(r));
                out.push(':');
                b.render(2, keep, r, out);
            }
        }
        if paren {
            out.push_str(sp(r));
            out.push(')');
        }
        out.push_str(sp(r));
    }
}

fn random_operand(r: &mut Rng) -> Tree {
    match r.below(10) {
        0..=3 => Tree::Num(*r.pick(&BOUNDARY), r.below(8) as u8),
        4..=5 => Tree::Num(r.range(-70, 70) as i128, r.below(8) as u8),
        6 => Tree::Num((r.next_u64() >> r.below(64)) as i128 & 0x7fff_ffff_ffff_ffff, r.below(8) as u8),
        _ => Tree::Var(r.pick(&NAMES).to_string()),
    }
}

fn random_tree(r: &mut Rng, depth: usize) -> Tree {
    if depth == 0 || r.chance(1, 6) {
        return random_operand(r);
    }
    match r.below(100) {
        0..=49 => {
            let (o, p) = *r.pick(&BIN_OPS);
            Tree::Bin(o, p, Box::new(random_tree(r, depth - 1)), Box::new(random_tree(r, depth - 1)))
        }
        50..=61 => {
            let o = *r.pick(&PREFIX_OPS);
            let a = if (o == "++" || o == "--") && r.chance(9, 10) {
                Tree::Var(r.pick(&NAMES).to_string())
            } else {
                random_tree(r, depth - 1)
            };
            Tree::Pre(o, Box::new(a))
        }
        62..=69 => {
            let a = if r.chance(9, 10) {
                Tree::Var(r.pick(&NAMES).to_string())
            } else {
                random_tree(r, depth - 1)
            };
            Tree::Post(if r.chance(1, 2) { "++" } else { "--" }, Box::new(a))
        }
        70..=84 => {
            let a = if r.chance(9, 10) {
                Tree::Var(r.pick(&NAMES).to_string())
            } else {
                random_tree(r, depth - 1)
            };
            Tree::Asg(*r.pick(&ASSIGN_OPS), Box::new(a), Box::new(random_tree(r, depth - 1)))
        }
        _ => Tree::Cond(
            Box::new(random_tree(r, depth - 1)),
            Box::new(random_tree(r, depth - 1)),
            Box::new(random_tree(r, depth - 1)),
        ),
    }
}

const VALUES: [&str; 30] = [
    "0", "1", "-1", "5", "+7", "010", "0x10", "0X1f", "-0x10", "-010", "08", "0x", "", " 5", "5 ",
    "abc", "1a", "9223372036854775807", "-9223372036854775808", "9223372036854775808", "62", "63",
    "64", "-64", "2147483648", "0777777777777777777777", "0x7fffffffffffffff", "--5", "+-5", "1_0",
];

fn random_vars(r: &mut Rng) -> Vars {
    let mut v = Vars::new();
    v.insert("m".into(), "-9223372036854775808".into());
    for n in ["a", "b", "c", "x", "y", "_z1"] {
        match r.below(10) {
            0..=1 => {}
            2..=4 => {
                v.insert(n.into(), format!("{}", r.range(-70, 70)));
            }
            5..=6 => {
                v.insert(n.into(), format!("{}", BOUNDARY[r.below(BOUNDARY.len())]));
            }
            _ => {
                v.insert(n.into(), r.pick(&VALUES).to_string());
            }
        }
    }
    v
}

// ---------------------------------------------------------------------------
// token soup and characters

const TOKENS: [&str; 60] = [
    "?", ":", "|=", "||", "|", "^=", "^", "&=", "&&", "&", "==", "=", "!=", "<=", "<<=", "<<", "<",
    ">=", ">>=", ">>", ">", "+=", "++", "+", "-=", "--", "-", "*=", "*", "/=", "/", "%=", "%", "~",
    "!", "(", ")", "(", ")", "0", "1", "2", "7", "08", "0x", "0x1F", "017", "63", "64",
    "9223372036854775807", "9223372036854775808", "a", "b", "x", "x", "_z1", "1a", "a1", "$", "#",
];

const CHARS: [char; 40] = [
    ' ', '\t', '\n', '\u{b}', '\u{c}', '\r', '\u{85}', '\u{a0}', '\u{1680}', '\u{2003}', '\u{2028}',
    '\u{3000}', '\u{200b}', 'a', 'Z', '_', '0', '7', '9', 'é', 'ß', 'λ', 'Ж', '中', '٣', '५', '²',
    '½', 'Ⅷ', '𝟘', '𝐀', '\u{301}', '€', '→', '😀', '\u{0}', '\u{7f}', '$', '.', ',',
];

fn soup(r: &mut Rng, len: usize) -> String {
    let mut s = String::new();
    for _ in 0..len {
        s.push_str(r.pick(&TOKENS));
        s.push_str(sp(r));
    }
    s
}

fn unicode_text(r: &mut Rng, len: usize) -> String {
    let mut s = String::new();
    for _ in 0..len {
        match r.below(10) {
            0..=3 => s.push(*r.pick(&CHARS)),
            4..=6 => s.push_str(r.pick(&TOKENS)),
            7 => {
                // any scalar value
                let c = loop {
                    let x = (r.next_u64() % 0x11_0000) as u32;
                    if let Some(c) = char::from_u32(x) {
                        break c;
                    }
                };
                s.push(c);
            }
            8 => {
                let c = char::from_u32(0x80 + (r.next_u64() % 0x2000) as u32).unwrap_or('x');
                s.push(c);
            }
            _ => s.push(char::from_u32(r.below(128) as u32).unwrap()),
        }
    }
    s
}

/// The texts of the depth stream (the same as `deep_text` in coq/C03/Run.v).
fn deep_text(kind: u32, n: usize) -> String {
    match kind {
        0 => format!("{}1{}", "(".repeat(n), ")".repeat(n)),
        1 => format!("{}1", "!".repeat(n)),
        2 => format!("{}1{}", "1?".repeat(n), ":0".repeat(n)),
        _ => panic!("unknown kind {kind}"),
    }
}

/// Runs `deep_text(kind, n)` in a child process; the Coq term of type `deep_out`,
/// a text for humans, and whether the child crashed.
fn run_deep(kind: u32, n: usize) -> (String, String, bool) {
    use std::io::Read;
    use std::os::unix::process::ExitStatusExt;
    use std::process::{Command, Stdio};
    let exe = std::env::current_exe().expect("current_exe");
    let mut child = Command::new(exe)
        .args(["--opt", &format!("deep={kind}:{n}")])
        .stdin(Stdio::null())
        .stdout(Stdio::piped())
        .stderr(Stdio::null())
        .spawn()
        .expect("spawn the child process");
    let start = std::time::Instant::now();
    let status = loop {
        match child.try_wait().expect("try_wait") {
            Some(st) => break Some(st),
            None if start.elapsed().as_secs() >= 120 => {
                let _ = child.kill();
                let _ = child.wait();
                break None;
            }
            None => std::thread::sleep(std::time::Duration::from_millis(5)),
        }
    };
    let mut out = String::new();
    if let Some(mut o) = child.stdout.take() {
        let _ = o.read_to_string(&mut out);
    }
    match status {
        None => ("DTimeout".into(), "timeout".into(), false),
        Some(st) if st.success() => {
            let mut lines = out.lines();
            let term = lines.next().expect("the child printed nothing").to_string();
            let shown = lines.next().unwrap_or("").to_string();
            (format!("(DOut {term})"), shown, false)
        }
        Some(st) => {
            let sig = st.signal().unwrap_or(0);
            (format!("(DCrash {})", coq::n(sig as u64)), format!("CRASH signal {sig} ({st})"), true)
        }
    }
}

fn lit(v: i128) -> String {
    if v == -9223372036854775808 {
        "m".into()
    } else {
        format!("{v}")
    }
}

fn main() {
    let args = Args::parse();
    if let Some(spec) = args.opt("deep") {
        // child mode of the depth stream: `--opt deep=KIND:N`; evaluates the text on
        // the main thread (inherited stack limit) and prints the outcome
        let (kind, n) = spec.split_once(':').expect("deep=KIND:N");
        let text = deep_text(kind.parse().expect("kind"), n.parse().expect("n"));
        let (term, shown, _) = run_impl(&text, &Vars::new());
        println!("{term}\n{shown}");
        return;
    }
    let mut rng = Rng::new(args.seed);
    let mut w = CasesWriter::new(&args, "Yv.C03.Run", if args.thorough() { 1000 } else { 150 });

    // -- ascii -------------------------------------------------------------------
    {
        let tbl: Vec<String> = (0u32..128)
            .map(|i| {
                let c = char::from_u32(i).unwrap();
                let k = if c.is_whitespace() {
                    1
                } else if c.is_alphanumeric() {
                    2
                } else {
                    0
                };
                format!("({}, {})", coq::n(i as u64), coq::n(k))
            })
            .collect();
        w.count("stream:ascii");
        w.push(
            &format!("(KAscii {})", coq::list(&tbl)),
            "{\"stream\":\"ascii\"}",
            &[],
            None,
        );
    }

    // -- corpus ------------------------------------------------------------------
    let mut base = Vars::new();
    base.insert("m".into(), "-9223372036854775808".into());
    base.insert("x".into(), "5".into());
    base.insert("o".into(), "010".into());
    base.insert("h".into(), "0x10".into());
    base.insert("bad".into(), "1a".into());
    base.insert("e".into(), "".into());
    let corpus = [
        "1+2*3", "(1+2)*3", "1 - 2 - 3", "2 * 3 % 4", "1 << 2 + 3", "1 < 2 == 1", "6 & 3 == 3",
        "1 | 2 ^ 3 & 4", "1 || 0 && 0", "0 ? 1 : 2 ? 3 : 4", "1 ? 2 : 3 ? 4 : 5", "a = b = 3",
        "a = 1 ? 2 : 3", "1 ? a : b = 7", "0 ? a : b = 7", "(1 ? a : b) = 7", "(x) = 3", "(x)++",
        "x++ + x", "x + x++", "x = x++ + ++x", "++x", "x--", "--x", "- -x", "--x--", "++1", "1++", "x++ ++",
        "-x++", "!x", "~x", "~0", "!!7", "+-+-3", "- - 3", "-+3", "1 = 2", "a + b = 2", "x += 2",
        "x -= 7", "x *= x", "x /= 0", "x %= 3", "x <<= 62", "x >>= 1", "x &= 4", "x |= 8", "x ^= x",
        "o", "h", "o + h", "bad", "e", "u", "u++", "m", "-m", "m - 1", "m / -1", "m % -1", "m * -1",
        "m >> 63", "m >> 64", "m << 1", "-1 << 1", "1 << -1", "1 >> -1", "1 << 62", "1 << 63",
        "1 << 64", "2 << 62", "3 << 62", "0 << 64", "0 << 63", "1 << 4294967296", "1 >> 4294967296",
        "1 >> 64", "1 >> 63", "-1 >> 63", "-8 >> 1", "-7 >> 1", "9223372036854775807 + 1",
        "9223372036854775807 * 2", "-9223372036854775807 - 2", "-9223372036854775808",
        "9223372036854775808", "0x7fffffffffffffff", "0x8000000000000000", "0777777777777777777777",
        "01000000000000000000000", "00", "08", "0x", "0X", "0xg", "1a", "1_", "0b1", "-7 / 2", "-7 % 2",
        "7 / -2", "7 % -2", "1 / 0", "1 % 0", "0 / 0", "0 && 1 / 0", "1 || 1 / 0", "1 ? 2 : 1 / 0",
        "0 ? 1 / 0 : 2", "0 && (x = 9)", "1 || x++", "1 && (x = 9)", "0 || x++", "0 && bad",
        "1 || bad", "0 ? bad : 1", "", " ", "(", ")", "()", "(1", "1)", "((1)", "1 +", "+", "* 2",
        "1 2", "1 x", "x y", "1 ? 2", "1 ? 2 :", "1 : 2", "(1 : 2)", "1 ? : 2", "? 1 : 2", "1 ? 2 3",
        "a ! b", "a ~ b", "a (b)", "a ++ b", "1 $", "$", "#", "1 + $", "1 2 $", "\u{a0}1\u{2003}+\u{3000}2",
        "é + 1", "λ = 3", "٣", "1٣", "x٣", "½", "中文 = 2", "1 +\u{200b}2", "1 €", "€",
        "x=010", "x = 0x10 + 010", "a=b=c=d=1", "a ? b ? 1 : 2 : 3", "1?2:3?4:5", "1 ? 2 : 3 = 4",
        "a = 1, 2", "a == 1 ? 10 : 20", "(((((1)))))", "1 + + 2", "1 - - 2", "1 +++ 2", "x +++ 2",
        "x+++x", "x---x", "1<2<3", "3>2>1", "1<<1<<1", "64>>1>>1", "2*3/4%5", "1-2+3", "!0+1", "~1*2",
        "-2*3", "- 2 * - 3", "1 <= 2 != 2 >= 3", "1 & 2 | 3 ^ 4 && 5 || 6",
        // one text per pair of adjacent precedence levels (value differs if the
        // two levels are swapped or merged) and per left-associative level
        "0 && 0 | 1", "1 | 1 ^ 1", "1 ^ 1 & 0", "2 & 2 == 2", "0 == 1 < 0", "1 < 1 << 1",
        "1 << 1 + 1", "1 + 2 * 3", "1 || 0 ? 2 : 3", "x = 0 ? 1 : 2", "0 && 1 || 1", "1 || 1 && 0",
        "2 * 3 + 1", "7 - 2 * 3", "1 + 1 << 1", "1 << 1 < 1", "1 < 0 == 0", "2 == 2 & 2",
        "0 & 1 ^ 1", "1 ^ 1 | 1", "1 | 0 && 0", "8 / 4 / 2", "7 % 4 % 2", "8 / 4 * 2", "8 * 4 / 2",
        "7 % 4 * 2", "1 << 1 << 2", "64 >> 2 >> 1", "64 >> 2 << 1", "2 == 2 == 1", "1 != 1 != 1",
        "3 >= 2 >= 1", "1 <= 1 <= 0", "5 - 3 + 1", "5 + 3 - 1", "~1 + 1", "!1 + 1", "-1 - -1",
        "!0 == 1", "~0 & 1", "- 3 % 2", "x = y = 2 + 1", "x += y = 2", "x ? y : 1 ? 2 : 3",
        "1 ? 0 : 1 ? 2 : 3", "0 ? 1 : 0 ? 2 : 3",
    ];
    for t in corpus {
        emit(&mut w, "corpus", t, &base);
    }

    // -- varval: `$((x))` against `$(($x))` -------------------------------------------
    {
        let mut vals: Vec<String> = VALUES.iter().map(|s| s.to_string()).collect();
        for v in [
            "00", "-0", "+0", "0x0", "0XfF", "0xFFFFFFFFFFFFFFFF", "-0x8000000000000000",
            "0x8000000000000000", "-01000000000000000000000", "01000000000000000000000",
            "+9223372036854775807", "-9223372036854775809", "0x-5", "0x+5", "- 5", "-", "+", "٣", "1٣",
            "0x1g", "0o7", "0b1", "1e3", "1.0", "x", "0x00000000000000000000000001", "0000000000000000000000000007",
        ] {
            vals.push(v.to_string());
        }
        let n = args.scale(40, 1500);
        for k in 0..n {
            let mut r = rng.fork(0x5000 + k as u64);
            let mut s = String::new();
            if r.chance(1, 3) {
                s.push_str(*r.pick(&["-", "+", "-", ""]));
            }
            match r.below(4) {
                0 => s.push_str(&format!("{}", r.next_u64() >> r.below(64))),
                1 => s.push_str(&format!("0{:o}", r.next_u64() >> r.below(64))),
                2 => s.push_str(&format!("0x{:x}", r.next_u64() >> r.below(64))),
                _ => s.push_str(&format!("0X{:X}", r.next_u64() >> r.below(64))),
            }
            if r.chance(1, 12) {
                s.push(*r.pick(&['8', '9', 'g', '_', ' ', 'x']));
            }
            vals.push(s);
        }
        for v in &vals {
            let mut vars = Vars::new();
            vars.insert("x".into(), v.clone());
            emit(&mut w, "varval", "x", &vars);
            emit(&mut w, "varval", v, &vars);
        }
    }

    // -- pairs ---------------------------------------------------------------------
    {
        let mut all: Vec<(i128, &str, i128)> = vec![];
        for a in BOUNDARY {
            for (o, _) in &BIN_OPS[..18] {
                for b in BOUNDARY {
                    all.push((a, o, b));
                }
            }
        }
        let take = args.scale(350, all.len());
        let mut r = rng.fork(0x6000);
        let mut vars = Vars::new();
        vars.insert("m".into(), "-9223372036854775808".into());
        for i in 0..take {
            let (a, o, b) = if args.thorough() { all[i] } else { all[r.below(all.len())] };
            let form = if args.thorough() { i % 3 } else { r.below(3) };
            match form {
                0 => emit(&mut w, "pairs", &format!("{} {} {}", lit(a), o, lit(b)), &vars),
                1 => {
                    let mut v2 = vars.clone();
                    v2.insert("p".into(), format!("{a}"));
                    v2.insert("q".into(), format!("{b}"));
                    emit(&mut w, "pairs", &format!("p{}q", o), &v2);
                }
                _ => {
                    if ["==", "!=", "<", "<=", ">", ">=", "&&", "||"].contains(&o) {
                        emit(&mut w, "pairs", &format!("({}){}({})", lit(a), o, lit(b)), &vars);
                    } else {
                        let mut v2 = vars.clone();
                        v2.insert("p".into(), format!("{a}"));
                        emit(&mut w, "pairs", &format!("p {}= {}", o, lit(b)), &v2);
                    }
                }
            }
        }
    }

    // -- triples: precedence and associativity ----------------------------------------
    {
        const SMALL: [i128; 7] = [0, 1, -1, 2, 3, 63, 9223372036854775807];
        let mut r = rng.fork(0x7000);
        let mut vars = Vars::new();
        vars.insert("m".into(), "-9223372036854775808".into());
        if args.thorough() {
            // EXHAUSTIVE named space `triples5`: every text `a o1 b o2 c` (no
            // parentheses) with o1, o2 among the 18 binary operators that evaluate
            // both operands or short-circuit, and a, b, c among five boundary operands:
            // 18 * 18 * 5^3 = 40500 texts
            const FIVE: [i128; 5] = [0, 1, -1, 63, 9223372036854775807];
            for (o1, _) in &BIN_OPS[..18] {
                for (o2, _) in &BIN_OPS[..18] {
                    for a in FIVE {
                        for b in FIVE {
                            for c in FIVE {
                                emit(&mut w, "triples5", &format!("{} {} {} {} {}", lit(a), o1, lit(b), o2, lit(c)), &vars);
                            }
                        }
                    }
                }
            }
        } else {
            for k in 0..400 {
                let (o1, p1) = *r.pick(&BIN_OPS);
                let (mut o2, mut p2) = *r.pick(&BIN_OPS);
                if k % 2 == 0 {
                    // operators of the same or an adjacent level
                    while p2.abs_diff(p1) > 1 {
                        (o2, p2) = *r.pick(&BIN_OPS);
                    }
                }
                let (a, b, c) = (*r.pick(&SMALL), *r.pick(&SMALL), *r.pick(&SMALL));
                emit(&mut w, "triples", &format!("{} {} {} {} {}", lit(a), o1, lit(b), o2, lit(c)), &vars);
            }
        }
    }

    // -- trees -----------------------------------------------------------------------
    let n = args.scale(700, 16000);
    for k in 0..n {
        let mut r = rng.fork(0x1000 + k as u64);
        let depth = 1 + r.below(5);
        let t = random_tree(&mut r, depth);
        let keep = *r.pick(&[100u32, 100, 100, 90, 50]);
        let mut s = String::new();
        t.render(1, keep, &mut r, &mut s);
        let vars = random_vars(&mut r);
        emit(&mut w, "tree", &s, &vars);
    }

    // -- portable: Config { portable: true } -----------------------------------------------
    for t in [
        "1+2", "x++", "++x", "x--", "--x", "1 + x++", "0 && x++", "1 || ++x", "0 ? x++ : 2", "1 ? 2 : --x",
        "x++ + y--", "y-- + x++", "(x)++", "- -x", "+ +x", "1 - -1", "1 + +1", "x+++y", "x---y", "++", "1 ++ 2",
        "x++ $", "$ x++", "x++ +", "(x++", "-- -- x", "++1", "1++", "x = y++", "a ? b++ : c--", "1 / 0 + x++",
        "bad + x++", "x++ + bad", "x +++ ++ y",
    ] {
        emit_config(&mut w, "portable", t, &base, true);
    }
    let n = args.scale(150, 2500);
    for k in 0..n {
        let mut r = rng.fork(0x8000 + k as u64);
        let depth = 1 + r.below(4);
        let t = random_tree(&mut r, depth);
        let mut s = String::new();
        t.render(1, 100, &mut r, &mut s);
        if r.chance(1, 4) {
            let len = 1 + r.below(6);
            s = soup(&mut r, len);
        }
        let vars = random_vars(&mut r);
        emit_config(&mut w, "portable", &s, &vars, true);
    }

    // -- depth -------------------------------------------------------------------------
    for kind in 0u32..3 {
        for n in [100usize, 1000, 5000, 20000, 100000] {
            let (out, shown, crashed) = run_deep(kind, n);
            let term = format!("(KDeep {} {} {})", coq::n(kind as u64), coq::n(n as u64), out);
            let what = ["parentheses", "unary operators", "conditionals"][kind as usize];
            let json = format!(
                "{{\"stream\":\"depth\",\"text\":{},\"nesting\":{},\"of\":{},\"impl\":{}}}",
                json_str(&deep_text(kind, 3).replace("111", "1")),
                n,
                json_str(what),
                json_str(&shown)
            );
            w.count("stream:depth");
            w.count(if crashed { "depth_answer:crash" } else { "depth_answer:returned" });
            // F20: the open finding is a crash on *very* deep nesting only
            let tags: &[&str] = if crashed && n >= 5000 { &["F20"] } else { &[] };
            w.push(&term, &json, tags, Some(format!("deep {kind} {n}")));
        }
    }

    // -- shell -------------------------------------------------------------------------
    let n = args.scale(150, 2500);
    for k in 0..n {
        let mut r = rng.fork(0x4000 + k as u64);
        let depth = 1 + r.below(4);
        let t = random_tree(&mut r, depth);
        let keep = *r.pick(&[100u32, 100, 100, 90]);
        let mut s = String::new();
        t.render(1, keep, &mut r, &mut s);
        let mut vars = random_vars(&mut r);
        vars.retain(|_, v| !v.contains('\''));
        emit_shell(&mut w, &s, &vars);
    }
    for t in [
        "1+2*3", "x=010", "a = b = 3", "u", "u++ + u", "bad", "1/0", "1 ? a : b = 7", "m - 1", "-m",
        "(1", "1 +", "08", "e", "o + h",
    ] {
        let mut vars = Vars::new();
        vars.insert("m".into(), "-9223372036854775808".into());
        vars.insert("x".into(), "5".into());
        if t == "(1" {
            continue; // the shell's own parser decides where `$((` ends
        }
        emit_shell(&mut w, t, &vars);
    }

    // -- shellx: nounset, read-only variables, `$x`, nested `$(( ))` ------------------------
    {
        let lit = |s: &str| Unit::Lit(s.to_string());
        let par = |n: &str, b: bool| Unit::Param(n.to_string(), b);
        let fixed: Vec<(Vec<Unit>, bool, Vec<&str>)> = vec![
            (vec![lit("x + u")], false, vec![]),
            (vec![lit("x + u")], true, vec![]),
            (vec![lit("0 && u")], true, vec![]),
            (vec![lit("1 || u")], true, vec![]),
            (vec![lit("u = 3")], true, vec![]),
            (vec![lit("u += 3")], true, vec![]),
            (vec![lit("u++")], true, vec![]),
            (vec![lit("x = 7")], false, vec!["x"]),
            (vec![lit("(y = 2) + (x = 7)")], false, vec!["x"]),
            (vec![lit("(x = 7) + (y = 2)")], false, vec!["x"]),
            (vec![lit("x++")], false, vec!["x"]),
            (vec![lit("--x")], false, vec!["x"]),
            (vec![lit("x += 0")], false, vec!["x"]),
            (vec![lit("0 && (x = 1)")], false, vec!["x"]),
            (vec![lit("x + 1")], false, vec!["x"]),
            (vec![lit("(y = 2) + 1 / 0")], false, vec![]),
            (vec![lit("(y = 2) + (y = 3) + c")], false, vec![]),
            (vec![par("x", true), lit(" + 1")], false, vec![]),
            (vec![par("x", false), lit(" + x")], false, vec![]),
            (vec![par("u", true), lit(" + 1")], false, vec![]),
            (vec![par("u", true), lit(" + 1")], true, vec![]),
            (vec![par("m", true)], false, vec![]),
            (vec![lit("m")], false, vec![]),
            (vec![par("x", true), lit(" = 3")], false, vec![]),
            (vec![lit("1 + "), Unit::Arith(vec![lit("x * 2")]), lit(" + 1")], false, vec![]),
            (vec![lit("1 + "), Unit::Arith(vec![lit("y = 4")]), lit(" + y")], false, vec![]),
            (vec![Unit::Arith(vec![lit("y = 4")]), lit(" + 1 / 0")], false, vec![]),
            (vec![lit("2 * "), Unit::Arith(vec![lit("1 / 0")])], false, vec![]),
            (vec![lit("2 * "), Unit::Arith(vec![lit("0 - 3")])], false, vec![]),
            (vec![Unit::Arith(vec![Unit::Arith(vec![lit("x")]), lit("+"), par("x", true)])], false, vec![]),
        ];
        for (us, nounset, ro) in fixed {
            let mut vars = Vars::new();
            vars.insert("m".into(), "-9223372036854775808".into());
            vars.insert("x".into(), "5".into());
            vars.insert("c".into(), "1a".into());
            let ro: Vec<String> = ro.iter().map(|s| s.to_string()).collect();
            emit_shellx(&mut w, &us, &vars, nounset, &ro);
        }
        let n = args.scale(200, 3000);
        for k in 0..n {
            let mut r = rng.fork(0x9000 + k as u64);
            let depth = 1 + r.below(4);
            let t = random_tree(&mut r, depth);
            let mut us = vec![];
            tree_units(&t, &mut r, 0, &mut us);
            let mut vars = random_vars(&mut r);
            vars.retain(|_, v| !v.contains('\''));
            let nounset = r.chance(1, 2);
            let mut ro = vec![];
            for name in vars.keys() {
                if r.chance(1, 5) {
                    ro.push(name.clone());
                }
            }
            emit_shellx(&mut w, &us, &vars, nounset, &ro);
        }
    }

    // -- soup --------------------------------------------------------------------------
    let n = args.scale(300, 6000);
    for k in 0..n {
        let mut r = rng.fork(0x2000 + k as u64);
        let len = 1 + r.below(9);
        let s = soup(&mut r, len);
        let vars = random_vars(&mut r);
        emit(&mut w, "soup", &s, &vars);
    }

    // -- unicode -------------------------------------------------------------------------
    let n = args.scale(200, 4000);
    for k in 0..n {
        let mut r = rng.fork(0x3000 + k as u64);
        let len = 1 + r.below(10);
        let s = unicode_text(&mut r, len);
        let vars = random_vars(&mut r);
        emit(&mut w, "unicode", &s, &vars);
    }

    w.finish(
        "expression texts with a variable environment; non-trivial = the text contains at least \
         one operator character; distinct = by text and environment",
    );
}
