//! C09 — redirections on the real shell, observed through the descriptor table
//! of the simulated process.
//!
//! Every case is a script of *items* (a command of some kind with a list of
//! redirections, a change of the descriptor limit, `set -C`/`set +C`).  The
//! probe built-in `fds` records the descriptor table of the calling process
//! (descriptor, identity of the open file description, close-on-exec flag),
//! the attributes of the open file descriptions and the files in play; it is
//! run before the first item, after every item (tag T) and as the body of the
//! commands (tag I).  Coq replays the items on the model (`Yv.C09.Model`) and
//! evaluates the oracle (`Yv.C09.Spec.oracle_cmd`) on the observations.
//!
//! Stream `failure-points` (`failure_point_stream`): lists of 1-3 redirections
//! that succeed when nothing constrains allocation, under descriptor limits
//! chosen so that each allocation step of `perform` in turn is the first to
//! fail (saving dup of the 1st/2nd/3rd redirection, open, here-document file,
//! dup2 onto the target).  These scripts end with `echo Z9`: besides the
//! tables, the harness checks that this text reaches the standard output.

use std::cell::RefCell;
use std::io::SeekFrom;
use std::rc::Rc;
use yash_env::builtin::{Builtin, Type};
use yash_env::semantics::{ExitStatus, Field};
use yash_env::system::r#virtual::{FdBody, FileBody, FileSystem, OpenFileDescription};
use yash_env::system::resource::{INFINITY, LimitPair, Resource, SetRlimit as _};
use yash_env::system::{FdFlag, GetPid as _};
use yv_harness::cli::Args;
use yv_harness::out::CasesWriter;
use yv_harness::rng::Rng;
use yv_harness::vsh::{self, BuiltinFuture, State, VEnv};
use yv_harness::{coq, json_str};

// ---------------------------------------------------------------------------
// path keys

/// (key, path).  Keys 0 1 2 are the files behind the standard descriptors.
const PATHS: [(u64, &str); 15] = [
    (0, "/dev/stdin"),
    (1, "/dev/stdout"),
    (2, "/dev/stderr"),
    (3, "/a"),   // always a regular file
    (4, "/b"),   // regular or missing
    (5, "/c"),   // regular or missing
    (6, "/e"),   // regular or missing
    (7, "/d"),   // always a directory
    (8, "/d/x"), // regular or missing
    (9, "/s"),   // the script, when the shell is started as `yash /s`
    (10, "/dev/null"), // always an empty regular file
    (20, "/s0"), // scripts read with the . built-in
    (21, "/s1"),
    (22, "/s2"),
    (23, "/s3"),
];
const MISSING_SCRIPT: u64 = 24; // never exists
const MISSING_SCRIPT_PATH: &str = "/nosuchscript";
const BAD_PATH: &str = "/a/x"; // through a regular file: ENOTDIR

fn path_of(key: u64) -> &'static str {
    if key == MISSING_SCRIPT {
        return MISSING_SCRIPT_PATH;
    }
    PATHS.iter().find(|(k, _)| *k == key).unwrap().1
}

// ---------------------------------------------------------------------------
// observations

#[derive(Clone, Debug, PartialEq)]
enum FRef {
    Path(u64),
    Anon(Vec<u8>, u64),
    Pipe,
    Unknown,
}

#[derive(Clone, Debug, PartialEq)]
struct Ofd {
    file: FRef,
    r: bool,
    w: bool,
    app: bool,
}

#[derive(Clone, Debug, PartialEq)]
enum Node {
    Reg(Vec<u64>),
    Dir,
    Other,
}

#[derive(Clone, Debug, PartialEq)]
struct Obs {
    tag: String,
    main: bool,
    pid: i32,
    tab: Vec<(i32, usize, bool)>,
    ofds: Vec<(usize, Ofd)>,
    fs: Vec<(u64, Option<Node>)>,
}

thread_local! {
    static STATE: RefCell<Option<State>> = const { RefCell::new(None) };
    /// Every open file description seen so far; the index is its label.  Weak
    /// references: they do not keep a description open (a pipe would never
    /// report end-of-file), but they keep its allocation, so that an address
    /// is never reused for another description within a case.
    static SEEN: RefCell<Vec<std::rc::Weak<RefCell<OpenFileDescription>>>> = const { RefCell::new(Vec::new()) };
    static OBS: RefCell<Vec<Obs>> = const { RefCell::new(Vec::new()) };
}

fn label(ofd: &Rc<RefCell<OpenFileDescription>>) -> usize {
    SEEN.with(|s| {
        let mut s = s.borrow_mut();
        if let Some(i) = s.iter().position(|o| std::ptr::eq(o.as_ptr(), Rc::as_ptr(ofd))) {
            return i;
        }
        s.push(Rc::downgrade(ofd));
        s.len() - 1
    })
}

/// File content as the model sees it: the bytes, or `[999, len]` for anything
/// long (diagnostic messages of the shell).
fn canon_content(c: &[u8]) -> Vec<u64> {
    if c.len() <= 12 { c.iter().map(|b| *b as u64).collect() } else { vec![999, c.len() as u64] }
}

fn snapshot<'a, I>(fds: I, fs: &FileSystem, tag: &str, main: bool, pid: i32) -> Obs
where
    I: IntoIterator<Item = (&'a yash_env::io::Fd, &'a FdBody)>,
{
    let mut tab = vec![];
    let mut ofds: Vec<(usize, Ofd)> = vec![];
    for (fd, body) in fds {
        let l = label(&body.open_file_description);
        tab.push((fd.0, l, body.flags.contains(FdFlag::CloseOnExec)));
        if ofds.iter().any(|(k, _)| *k == l) {
            continue;
        }
        let mut ofd = body.open_file_description.borrow_mut();
        // `is_appending` has no getter; the derived Debug output shows it
        let app = format!("{:?}", &*ofd).contains("is_appending: true");
        let key = PATHS
            .iter()
            .find(|(_, p)| fs.get(p).map(|i| Rc::ptr_eq(&i, ofd.inode())).unwrap_or(false))
            .map(|(k, _)| *k);
        let file = match key {
            Some(k) => FRef::Path(k),
            None => {
                let off = ofd.seek(SeekFrom::Current(0)).unwrap_or(usize::MAX) as u64;
                match &ofd.inode().borrow().body {
                    FileBody::Regular { content, .. } => FRef::Anon(content.clone(), off),
                    FileBody::Fifo { .. } => FRef::Pipe,
                    _ => FRef::Unknown,
                }
            }
        };
        ofds.push((l, Ofd { file, r: ofd.is_readable(), w: ofd.is_writable(), app }));
    }
    let files = PATHS
        .iter()
        .filter(|(k, _)| *k >= 3)
        .map(|(k, p)| {
            let node = fs.get(p).ok().map(|i| match &i.borrow().body {
                FileBody::Regular { content, .. } => Node::Reg(canon_content(content)),
                FileBody::Directory { .. } => Node::Dir,
                _ => Node::Other,
            });
            (*k, node)
        })
        .collect();
    Obs { tag: tag.to_string(), main, pid, tab, ofds, fs: files }
}

/// `fds TAG`: records the table of the calling process.
fn fds_main(env: &mut VEnv, args: Vec<Field>) -> BuiltinFuture<'_> {
    Box::pin(async move {
        let tag = args.first().map(|f| f.value.clone()).unwrap_or_default();
        let pid = env.system.getpid();
        let main = pid == env.main_pid;
        let obs = STATE.with(|st| {
            let st = st.borrow();
            let state = st.as_ref().unwrap().borrow();
            let proc = &state.processes[&pid];
            snapshot(proc.fds().iter(), &state.file_system, &tag, main, pid.0)
        });
        OBS.with(|o| o.borrow_mut().push(obs));
        ExitStatus::SUCCESS.into()
    })
}

/// `lim N`: sets the soft RLIMIT_NOFILE to N (0 = infinity).
fn lim_main(env: &mut VEnv, args: Vec<Field>) -> BuiltinFuture<'_> {
    Box::pin(async move {
        let n: u64 = args.first().and_then(|f| f.value.parse().ok()).unwrap_or(0);
        let soft = if n == 0 { INFINITY } else { n as _ };
        match env.system.setrlimit(Resource::NOFILE, LimitPair { soft, hard: INFINITY }) {
            Ok(()) => ExitStatus::SUCCESS.into(),
            Err(_) => ExitStatus::FAILURE.into(),
        }
    })
}

// ---------------------------------------------------------------------------
// items

#[derive(Clone, Copy, Debug, PartialEq)]
enum Fop {
    In,
    InOut,
    Out,
    Clobber,
    Append,
}

#[derive(Clone, Debug, PartialEq)]
enum Body {
    File(Fop, Option<u64>), // None = the bad path
    Dup(bool, Darg),        // true = <& , false = >&
    Here(String),
    Pipe,       // >>|
    HereString, // <<<
}

#[derive(Clone, Debug, PartialEq)]
enum Darg {
    Fd(u64),
    Close,
    Malformed,
}

#[derive(Clone, Debug, PartialEq)]
struct Redir {
    fd: u64,
    body: Body,
    /// write the descriptor number even when it is the operator's default
    explicit: bool,
}

#[derive(Clone, Copy, Debug, PartialEq)]
enum Kind {
    Regular,
    Special,
    Function,
    Group,
    Subshell,
    NotFound,
    Empty,
    Exec,
    /// exec with an operand that cannot be invoked
    ExecFail,
    /// `cmd &` followed by `wait`
    Async,
}

/// The file named by the operand of the . built-in.
#[derive(Clone, Copy, Debug, PartialEq)]
enum DotTarget {
    Script(usize), // /s0 .. /s3, holding the body
    Missing,
    Bad, // a path through a regular file
}

#[derive(Clone, Debug, PartialEq)]
enum Item {
    Cmd(Kind, usize, Vec<Redir>), // usize: syntactic variant of the kind
    /// compound command (Kind::Group) or function (Kind::Function) with
    /// redirections whose body is a list of items
    Group(Kind, usize, Vec<Redir>, Vec<Item>),
    /// `. FILE` (false) or `command . FILE` (true) with redirections; the file
    /// holds the body
    Dot(bool, Vec<Redir>, DotTarget, Vec<Item>),
    /// a command (Regular or Function) with a command substitution among its words
    Subst(Kind, Vec<Redir>),
    /// a pipeline of n commands
    Pipe(usize),
    Limit(Option<u64>),
    Noclobber(bool),
    Errexit(bool),
}

impl Redir {
    fn default_fd(&self) -> u64 {
        match &self.body {
            Body::File(Fop::In | Fop::InOut, _) | Body::Dup(true, _) | Body::Here(_) | Body::HereString => 0,
            _ => 1,
        }
    }
    /// (text on the command line, here-document body to put after the line)
    fn text(&self, heredoc_no: &mut usize) -> (String, Option<String>) {
        let fd = if self.explicit || self.fd != self.default_fd() { self.fd.to_string() } else { String::new() };
        // some operands are given through a parameter expansion
        let p = |k: &Option<u64>| match k {
            Some(k) if (3..=8).contains(k) && (k + self.fd) % 3 == 0 => format!("\"$p{k}\""),
            Some(k) => path_of(*k).to_string(),
            None => BAD_PATH.to_string(),
        };
        match &self.body {
            Body::File(op, k) => {
                let o = match op {
                    Fop::In => "<",
                    Fop::InOut => "<>",
                    Fop::Out => ">",
                    Fop::Clobber => ">|",
                    Fop::Append => ">>",
                };
                (format!("{fd}{o}{}", p(k)), None)
            }
            Body::Dup(input, a) => {
                let o = if *input { "<&" } else { ">&" };
                let a = match a {
                    Darg::Fd(n) => n.to_string(),
                    Darg::Close => "-".into(),
                    Darg::Malformed => "x".into(),
                };
                (format!("{fd}{o}{a}"), None)
            }
            Body::Here(c) => {
                let d = format!("E{}", *heredoc_no);
                *heredoc_no += 1;
                (format!("{fd}<<{d}"), Some(format!("{c}{d}\n")))
            }
            Body::Pipe => (format!("{fd}>>|7"), None),
            Body::HereString => (format!("{fd}<<<w"), None),
        }
    }
    fn coq(&self) -> String {
        let p = |k: &Option<u64>| match k {
            Some(k) => format!("(PKey {k})"),
            None => "PBad".into(),
        };
        let b = match &self.body {
            Body::File(op, k) => format!(
                "(BFile {} {})",
                match op {
                    Fop::In => "FileIn",
                    Fop::InOut => "FileInOut",
                    Fop::Out => "FileOut",
                    Fop::Clobber => "FileClobber",
                    Fop::Append => "FileAppend",
                },
                p(k)
            ),
            Body::Dup(input, a) => format!(
                "(BDup {} {})",
                if *input { "FdIn" } else { "FdOut" },
                match a {
                    Darg::Fd(n) => format!("(DFd {n})"),
                    Darg::Close => "DClose".into(),
                    Darg::Malformed => "DMalformed".into(),
                }
            ),
            Body::Here(c) => format!("(BHere {})", nlist(c.bytes().map(|b| b as u64))),
            Body::Pipe | Body::HereString => "BUnsupported".into(),
        };
        format!("(mkRedir {} {})", self.fd, b)
    }
}

fn nlist<I: IntoIterator<Item = u64>>(it: I) -> String {
    let v: Vec<String> = it.into_iter().map(|x| x.to_string()).collect();
    if v.is_empty() { "(@nil N)".into() } else { format!("[{}]", v.join("; ")) }
}

const GROUP_VARIANTS: usize = 5;
const SPECIAL_VARIANTS: usize = 2;

/// Function definitions collected while the script text is produced.
#[derive(Default)]
struct Defs {
    text: String,
    count: usize,
    /// (index, content) of the files /s0 .. read by the . built-in
    scripts: Vec<(usize, String)>,
}

fn redirs_text(redirs: &[Redir]) -> (String, String) {
    let mut n = 0;
    let mut words = vec![];
    let mut bodies = String::new();
    for r in redirs {
        let (w, b) = r.text(&mut n);
        words.push(w);
        if let Some(b) = b {
            bodies.push_str(&b);
        }
    }
    (words.join(" "), bodies)
}

fn items_text(items: &[Item], defs: &mut Defs) -> String {
    let mut s = String::new();
    for i in items {
        s.push_str(&i.text(defs));
        s.push_str("fds T\n");
    }
    s
}

impl Item {
    /// Script lines of the item (without the trailing `fds T`).
    fn text(&self, defs: &mut Defs) -> String {
        match self {
            Item::Limit(l) => format!("lim {}\n", l.unwrap_or(0)),
            Item::Noclobber(b) => format!("set {}C\n", if *b { "-" } else { "+" }),
            Item::Errexit(b) => format!("set {}e\n", if *b { "-" } else { "+" }),
            Item::Dot(via, redirs, target, body) => {
                let (rs, bodies) = redirs_text(redirs);
                let path = match target {
                    DotTarget::Script(i) => {
                        let content = format!("fds D\n{}", items_text(body, defs));
                        defs.scripts.push((*i, content));
                        path_of(20 + *i as u64)
                    }
                    DotTarget::Missing => MISSING_SCRIPT_PATH,
                    DotTarget::Bad => BAD_PATH,
                };
                let head = if *via { "command . " } else { ". " };
                format!("{head}{path} {rs}\n{bodies}")
            }
            Item::Subst(kind, redirs) => {
                let (rs, bodies) = redirs_text(redirs);
                let head = if *kind == Kind::Function { "f $(fds S)" } else { "fds I $(fds S)" };
                format!("{head} {rs}\n{bodies}")
            }
            Item::Pipe(n) => format!("{}\n", vec!["fds P"; *n].join(" | ")),
            Item::Group(kind, variant, redirs, body) => {
                let (rs, bodies) = redirs_text(redirs);
                let inner = format!("fds B\n{}", items_text(body, defs));
                match kind {
                    Kind::Function => {
                        let name = format!("g{}", defs.count);
                        defs.count += 1;
                        defs.text.push_str(&format!("{name}() {{\n{inner}}}\n"));
                        format!("{name} {rs}\n{bodies}")
                    }
                    _ => match variant % 3 {
                        0 => format!("{{\n{inner}}} {rs}\n{bodies}"),
                        1 => format!("if true; then\n{inner}fi {rs}\n{bodies}"),
                        _ => format!("for i in 1; do\n{inner}done {rs}\n{bodies}"),
                    },
                }
            }
            Item::Cmd(kind, variant, redirs) => {
                let (rs, bodies) = redirs_text(redirs);
                // a regular built-in may also be run through eval, the
                // redirections being part of the evaluated text
                if *kind == Kind::Regular && variant % 4 == 3 && bodies.is_empty() && !rs.contains('\'') {
                    return format!("eval 'fds I {rs}'\n");
                }
                let head = match kind {
                    Kind::Regular => "fds I".to_string(),
                    Kind::Special => match variant % SPECIAL_VARIANTS {
                        0 => "sfds I".to_string(),
                        _ => "eval 'fds I'".to_string(),
                    },
                    Kind::Function => "f".to_string(),
                    Kind::Group => match variant % GROUP_VARIANTS {
                        0 => "{ fds I; }".to_string(),
                        1 => "if true; then fds I; fi".to_string(),
                        2 => "for i in 1; do fds I; done".to_string(),
                        3 => "case x in (x) fds I;; esac".to_string(),
                        _ => "until fds I; do false; done".to_string(),
                    },
                    Kind::Subshell => "( fds I )".to_string(),
                    Kind::NotFound => "nosuchcommand".to_string(),
                    Kind::Empty => String::new(),
                    Kind::Exec => "exec".to_string(),
                    Kind::Async => {
                        let head = match variant % 3 {
                            0 => "fds I",
                            1 => "{ fds I; }",
                            _ => "f",
                        };
                        return format!("{head} {rs} &\n{bodies}wait\n");
                    }
                    Kind::ExecFail => match variant % 2 {
                        0 => "exec /no/such/utility".to_string(),
                        _ => "exec nosuchutility arg".to_string(),
                    },
                };
                let line = if head.is_empty() { rs } else if rs.is_empty() { head } else { format!("{head} {rs}") };
                format!("{line}\n{bodies}")
            }
        }
    }
    fn coq(&self, interactive: bool) -> String {
        match self {
            Item::Limit(None) => "(ILimit None)".into(),
            Item::Limit(Some(l)) => format!("(ILimit (Some {l}))"),
            Item::Noclobber(b) => format!("(INoclobber {})", coq::b(*b)),
            Item::Errexit(b) => format!("(IErrexit {})", coq::b(*b)),
            Item::Dot(via, redirs, target, body) => {
                let rs: Vec<String> = redirs.iter().map(|r| r.coq()).collect();
                let b: Vec<String> = body.iter().map(|i| i.coq(interactive)).collect();
                let p = match target {
                    DotTarget::Script(i) => format!("(PKey {})", 20 + i),
                    DotTarget::Missing => format!("(PKey {MISSING_SCRIPT})"),
                    DotTarget::Bad => "PBad".to_string(),
                };
                format!("(IDot {} {} {p} {})", coq::b(*via), coq::list(&rs), coq::list(&b))
            }
            Item::Subst(kind, redirs) => {
                let k = if *kind == Kind::Function { "KFunction" } else { "KRegular" };
                let rs: Vec<String> = redirs.iter().map(|r| r.coq()).collect();
                format!("(ISubst (mkCmd {k} {}))", coq::list(&rs))
            }
            Item::Pipe(n) => format!("(IPipe {n}%nat)"),
            Item::Group(kind, _, redirs, body) => {
                let k = if *kind == Kind::Function { "KFunction" } else { "KGroup" };
                let rs: Vec<String> = redirs.iter().map(|r| r.coq()).collect();
                let b: Vec<String> = body.iter().map(|i| i.coq(interactive)).collect();
                format!("(IGroup {k} {} {})", coq::list(&rs), coq::list(&b))
            }
            Item::Cmd(kind, _, redirs) => {
                let k = match kind {
                    Kind::Regular => "KRegular",
                    Kind::Special => "KSpecial",
                    Kind::Function => "KFunction",
                    Kind::Group => "KGroup",
                    Kind::Subshell => "KSubshell",
                    Kind::NotFound => "KNotFound",
                    Kind::Empty => "KEmpty",
                    Kind::Exec => "KExec",
                    Kind::Async => "KAsync",
                    Kind::ExecFail => if interactive { "(KExecFail true)" } else { "(KExecFail false)" },
                };
                let rs: Vec<String> = redirs.iter().map(|r| r.coq()).collect();
                format!("(ICmd (mkCmd {k} {}))", coq::list(&rs))
            }
        }
    }
}

fn obs_coq(o: &Obs) -> String {
    let tab: Vec<String> =
        o.tab.iter().map(|(fd, l, cx)| format!("({fd}, mkEnt {l} {})", coq::b(*cx))).collect();
    let ofds: Vec<String> = o
        .ofds
        .iter()
        .map(|(l, a)| {
            let f = match &a.file {
                FRef::Path(k) => format!("(FPath {k})"),
                FRef::Anon(c, off) => format!("(FAnon {} {off})", nlist(c.iter().map(|b| *b as u64))),
                FRef::Pipe => "FPipe".into(),
                // never produced by the shell: shown as a path key no file has
                FRef::Unknown => "(FPath 99)".into(),
            };
            format!("({l}, mkOfd {f} {} {} {})", coq::b(a.r), coq::b(a.w), coq::b(a.app))
        })
        .collect();
    let fs: Vec<String> = o
        .fs
        .iter()
        .map(|(k, n)| {
            let n = match n {
                None => "None".to_string(),
                Some(Node::Reg(c)) => format!("(Some (Reg {} false))", nlist(c.iter().copied())),
                Some(Node::Dir) => "(Some Dir)".into(),
                Some(Node::Other) => "(Some (Reg [998] false))".into(),
            };
            format!("({k}, {n})")
        })
        .collect();
    format!("(mkObs {} {} {})", coq::list(&tab), coq::list(&ofds), coq::list(&fs))
}

fn obs_show(o: &Obs) -> String {
    let t: Vec<String> =
        o.tab.iter().map(|(fd, l, cx)| format!("{fd}={l}{}", if *cx { "x" } else { "" })).collect();
    t.join(" ")
}

// ---------------------------------------------------------------------------
// running a case

struct InitFiles {
    /// content of the regular files at keys 3.. (None = missing)
    files: Vec<(u64, Option<Vec<u8>>)>,
}

impl InitFiles {
    /// `script`: the script text if the shell reads it from the file /s
    fn coq(&self, script: Option<&str>, dots: &[(usize, String)]) -> String {
        let mut v: Vec<String> = vec![];
        if let Some(sc) = script {
            v.push(format!("(9, Reg {} false)", nlist(canon_content(sc.as_bytes()))));
        }
        for (i, c) in dots {
            v.push(format!("({}, Reg {} false)", 20 + i, nlist(canon_content(c.as_bytes()))));
        }
        for (k, c) in &self.files {
            if let Some(c) = c {
                v.push(format!("({k}, Reg {} false)", nlist(c.iter().map(|b| *b as u64))));
            }
        }
        v.push("(7, Dir)".into());
        v.push("(10, Reg (@nil N) false)".into());
        coq::list(&v)
    }
}

/// What a step of the trace belongs to.
#[derive(Clone, Debug)]
enum StepOf {
    Cmd(Kind, Vec<Redir>),
    /// start of the body of a compound command / refused compound command
    Push(Kind, Vec<Redir>),
    Pop,
    Limit(Option<u64>),
    Noclobber,
    /// child of a command substitution / of a pipeline
    Child,
    /// a pipeline that started no child
    PipeFailed,
    Startup,
}

struct Outcome {
    gave_up: bool,
    init: Obs,
    /// per step: what it belongs to, inside, after, exited
    steps: Vec<(StepOf, Option<Obs>, Obs, bool)>,
    problem: Option<String>,
}

struct Parser {
    it: std::iter::Peekable<std::vec::IntoIter<Obs>>,
    fin: Option<Obs>,
    steps: Vec<(StepOf, Option<Obs>, Obs, bool)>,
    problem: Option<String>,
    /// a child of a pipeline did not reach its command (outside the domain)
    gave_up: bool,
}

impl Parser {
    fn next_if_tag(&mut self, tag: &str) -> Option<Obs> {
        if self.it.peek().map(|o| o.tag == tag).unwrap_or(false) { self.it.next() } else { None }
    }
    /// Consumes the observations of the items; true = the shell exited.
    fn items(&mut self, items: &[Item]) -> bool {
        for item in items {
            if self.problem.is_some() {
                return true;
            }
            match item {
                Item::Cmd(kind, _, redirs) => {
                    let inside = self.next_if_tag("I");
                    if self.next_if_tag("I").is_some() {
                        self.problem = Some("two inside observations".into());
                    }
                    match self.next_if_tag("T") {
                        Some(o) => self.steps.push((StepOf::Cmd(*kind, redirs.clone()), inside, o, false)),
                        None if self.it.peek().is_some() => {
                            self.problem = Some("unexpected observation".into());
                            return true;
                        }
                        None => {
                            // the shell exited in this item
                            match self.fin.clone() {
                                Some(f) => self.steps.push((StepOf::Cmd(*kind, redirs.clone()), inside, f, true)),
                                None => self.problem = Some("no final state".into()),
                            }
                            return true;
                        }
                    }
                }
                Item::Limit(_) | Item::Noclobber(_) | Item::Errexit(_) => match self.next_if_tag("T") {
                    Some(o) => {
                        let t = match item {
                            Item::Limit(l) => StepOf::Limit(*l),
                            _ => StepOf::Noclobber,
                        };
                        self.steps.push((t, None, o, false))
                    }
                    None => {
                        self.problem = Some("missing observation after lim/set".into());
                        return true;
                    }
                },
                Item::Subst(kind, redirs) => {
                    let child = self.next_if_tag("S");
                    let inside = self.next_if_tag("I");
                    match self.next_if_tag("T") {
                        Some(o) => {
                            self.steps.push((StepOf::Child, child, o.clone(), false));
                            self.steps.push((StepOf::Cmd(*kind, redirs.clone()), inside, o, false));
                        }
                        None if self.it.peek().is_some() => {
                            self.problem = Some("unexpected observation".into());
                            return true;
                        }
                        None => {
                            match self.fin.clone() {
                                Some(f) => {
                                    if child.is_some() || inside.is_some() {
                                        // the command itself made the shell exit (errexit)
                                        self.steps.push((StepOf::Child, child, f.clone(), true));
                                        self.steps.push((StepOf::Cmd(*kind, redirs.clone()), inside, f, true));
                                    } else {
                                        self.steps.push((StepOf::Child, None, f, true))
                                    }
                                }
                                None => self.problem = Some("no final state".into()),
                            }
                            return true;
                        }
                    }
                }
                Item::Pipe(n) => {
                    let mut children = vec![];
                    while let Some(o) = self.next_if_tag("P") {
                        children.push(o);
                    }
                    children.sort_by_key(|o| o.pid);
                    match self.next_if_tag("T") {
                        Some(o) => {
                            if children.len() != *n {
                                self.gave_up = true;
                                return true;
                            }
                            for c in children {
                                self.steps.push((StepOf::Child, Some(c), o.clone(), false));
                            }
                        }
                        None if self.it.peek().is_some() => {
                            self.problem = Some("unexpected observation".into());
                            return true;
                        }
                        None => {
                            match self.fin.clone() {
                                Some(f) => {
                                    if children.is_empty() {
                                        self.steps.push((StepOf::PipeFailed, None, f, true));
                                    } else {
                                        for c in children {
                                            self.steps.push((StepOf::Child, Some(c), f.clone(), true));
                                        }
                                    }
                                }
                                None => self.problem = Some("no final state".into()),
                            }
                            return true;
                        }
                    }
                }
                Item::Dot(_via, redirs, _, body) => {
                    if let Some(b) = self.next_if_tag("D") {
                        self.steps.push((StepOf::Push(Kind::Group, redirs.clone()), Some(b.clone()), b, false));
                        if self.items(body) {
                            return true;
                        }
                        match self.next_if_tag("T") {
                            Some(o) => self.steps.push((StepOf::Pop, None, o, false)),
                            None => {
                                self.problem = Some("missing observation after the . built-in".into());
                                return true;
                            }
                        }
                    } else {
                        match self.next_if_tag("T") {
                            Some(o) => self.steps.push((StepOf::Push(Kind::Group, redirs.clone()), None, o, false)),
                            None if self.it.peek().is_some() => {
                                self.problem = Some("unexpected end after the . built-in".into());
                                return true;
                            }
                            None => {
                                match self.fin.clone() {
                                    Some(f) => self.steps.push((StepOf::Push(Kind::Group, redirs.clone()), None, f, true)),
                                    None => self.problem = Some("no final state".into()),
                                }
                                return true;
                            }
                        }
                    }
                }
                Item::Group(kind, _, redirs, body) => {
                    if let Some(b) = self.next_if_tag("B") {
                        self.steps.push((StepOf::Push(*kind, redirs.clone()), Some(b.clone()), b, false));
                        if self.items(body) {
                            return true;
                        }
                        match self.next_if_tag("T") {
                            Some(o) => self.steps.push((StepOf::Pop, None, o, false)),
                            None => {
                                self.problem = Some("missing observation after a compound command".into());
                                return true;
                            }
                        }
                    } else {
                        // the redirections were refused
                        match self.next_if_tag("T") {
                            Some(o) => self.steps.push((StepOf::Push(*kind, redirs.clone()), None, o, false)),
                            None if self.it.peek().is_some() => {
                                self.problem = Some("unexpected observation after a refused compound command".into());
                                return true;
                            }
                            None => {
                                // errexit: the shell exits
                                match self.fin.clone() {
                                    Some(f) => self.steps.push((StepOf::Push(*kind, redirs.clone()), None, f, true)),
                                    None => self.problem = Some("no final state".into()),
                                }
                                return true;
                            }
                        }
                    }
                }
            }
        }
        false
    }
}

const PREAMBLE: &str = "f() { fds I; }\np3=/a p4=/b p5=/c p6=/e p7=/d p8=/d/x\n";

/// How the shell is started.
#[derive(Clone, Copy, Debug, Default, PartialEq)]
struct Ctx {
    /// `yash /s` instead of `yash -c SCRIPT`
    script_file: bool,
    /// descriptor limit in force before the shell opens its script
    startup_limit: Option<u64>,
    /// `yash -i -c SCRIPT`
    interactive: bool,
    /// the script ends with `echo Z9`: if the shell gets there and descriptor 1
    /// is bound as at the beginning, the text must reach the standard output
    marker: bool,
}

/// (the script, the files read by the . built-in)
fn build(items: &[Item], marker: bool) -> (String, Vec<(usize, String)>) {
    let mut defs = Defs::default();
    let body = items_text(items, &mut defs);
    let tail = if marker { MARKER_LINE } else { "" };
    (format!("{PREAMBLE}{}fds T\n{body}{tail}", defs.text), defs.scripts)
}

const MARKER: &str = "Z9\n";
const MARKER_LINE: &str = "echo Z9\n";

fn script_of(items: &[Item], marker: bool) -> String {
    let (mut script, dots) = build(items, marker);
    for (i, c) in dots {
        script.push_str(&format!("--- /s{i} ---\n{c}"));
    }
    script
}

thread_local! {
    /// the table before the shell opens its script (`yash /s`)
    static PRE: RefCell<Option<Obs>> = const { RefCell::new(None) };
}

fn empty_obs() -> Obs {
    Obs { tag: "F".into(), main: true, pid: 0, tab: vec![], ofds: vec![], fs: vec![] }
}

fn run_case(init: &InitFiles, items: &[Item], ctx: &Ctx) -> Outcome {
    SEEN.with(|s| s.borrow_mut().clear());
    OBS.with(|o| o.borrow_mut().clear());
    PRE.with(|p| *p.borrow_mut() = None);
    let (script, dots) = build(items, ctx.marker);
    let mut files: Vec<(String, Vec<u8>)> = vec![];
    for (k, c) in &init.files {
        if let Some(c) = c {
            files.push((path_of(*k).to_string(), c.clone()));
        }
    }
    for (i, c) in &dots {
        files.push((path_of(20 + *i as u64).to_string(), c.clone().into_bytes()));
    }
    files.push(("/dev/null".to_string(), vec![]));
    // the directory /d always exists; /d/x only if listed
    let have_dx = init.files.iter().any(|(k, c)| *k == 8 && c.is_some());
    if !have_dx {
        files.push(("/d/.keep".to_string(), vec![]));
    }
    let argv = if ctx.script_file {
        files.push(("/s".to_string(), script.clone().into_bytes()));
        vec!["/s".to_string()]
    } else if ctx.interactive {
        vec!["-i".to_string(), "-c".to_string(), script]
    } else {
        vec!["-c".to_string(), script]
    };
    let startup_limit = ctx.startup_limit;
    let (o, state) = vsh::run_shell(
        vsh::RunOpts { argv, files, ..Default::default() },
        move |env, state| {
            STATE.with(|s| *s.borrow_mut() = Some(Rc::clone(state)));
            env.builtins.insert("fds", Builtin::new(Type::Mandatory, fds_main));
            env.builtins.insert("sfds", Builtin::new(Type::Special, fds_main));
            env.builtins.insert("lim", Builtin::new(Type::Mandatory, lim_main));
            if let Some(l) = startup_limit {
                let _ = env.system.setrlimit(Resource::NOFILE, LimitPair { soft: l as _, hard: INFINITY });
            }
            let pid = env.system.getpid();
            let st = state.borrow();
            let pre = snapshot(st.processes[&pid].fds().iter(), &st.file_system, "T", true, pid.0);
            PRE.with(|p| *p.borrow_mut() = Some(pre));
        },
    );
    STATE.with(|s| *s.borrow_mut() = None);
    let obs = OBS.with(|o| std::mem::take(&mut *o.borrow_mut()));
    let pre = PRE.with(|p| p.borrow_mut().take());
    let mut problem = None;
    if let Some(p) = &o.panicked {
        problem = Some(format!("panic: {p}"));
    } else if o.deadlock || o.timeout {
        problem = Some("deadlock or timeout".into());
    }
    // final state of the main process (pid 2)
    let fin = state.as_ref().map(|st| {
        let st = st.borrow();
        let (pid, proc) = st.processes.iter().next().unwrap();
        snapshot(proc.fds().iter(), &st.file_system, "F", true, pid.0)
    });
    let mut it = obs.into_iter().peekable();
    let mut steps = vec![];
    let init_obs;
    if ctx.script_file {
        // the table before the script is opened, then the start-up itself
        let Some(pre) = pre else {
            return Outcome {
                gave_up: false,
                init: empty_obs(),
                steps: vec![],
                problem: Some("no observation before start-up".into()),
            };
        };
        init_obs = pre.clone();
        if let Some(l) = ctx.startup_limit {
            steps.push((StepOf::Limit(Some(l)), None, pre, false));
        }
        match it.next() {
            Some(o) if o.tag == "T" && o.main => steps.push((StepOf::Startup, None, o, false)),
            Some(_) => problem = Some("unexpected first observation".into()),
            None => {
                // the shell could not open its script
                match fin.clone() {
                    Some(f) => steps.push((StepOf::Startup, None, f, true)),
                    None => problem = Some("no final state".into()),
                }
                return Outcome { gave_up: false, init: init_obs, steps, problem };
            }
        }
    } else {
        init_obs = match it.next() {
            Some(o) if o.tag == "T" && o.main => o,
            _ => {
                return Outcome {
                    gave_up: false,
                    init: fin.clone().unwrap_or(empty_obs()),
                    steps: vec![],
                    problem: Some("no initial observation".into()),
                };
            }
        };
    }
    let fin_copy = fin.clone();
    let mut parser = Parser { it, fin, steps, problem, gave_up: false };
    parser.items(items);
    let Parser { steps, mut problem, gave_up, .. } = parser;
    // visible effect: the shell reached the end of the script with descriptor 1
    // bound to what it was bound to at the beginning, so the text written by
    // the last command must be at the end of the standard output
    if ctx.marker && problem.is_none() && !gave_up && steps.iter().all(|(_, _, _, ex)| !*ex) {
        let fd1 = |o: &Obs| o.tab.iter().find(|(fd, _, _)| *fd == 1).map(|(_, l, _)| *l);
        if let Some(f) = &fin_copy {
            if fd1(&init_obs).is_some() && fd1(&init_obs) == fd1(f) && !o.stdout.ends_with(MARKER) {
                problem = Some("the text written by the command after the last one did not reach the standard output".into());
            }
        }
    }
    Outcome { gave_up, init: init_obs, steps, problem }
}

// ---------------------------------------------------------------------------
// generators

fn random_body(r: &mut Rng, fds: &[u64]) -> Body {
    let path = |r: &mut Rng| -> Option<u64> {
        match r.below(20) {
            0 => None,
            1..=6 => Some(3),
            7..=10 => Some(4),
            11..=13 => Some(5),
            14..=15 => Some(6),
            16..=17 => Some(7),
            _ => Some(8),
        }
    };
    match r.below(100) {
        0..=11 => Body::File(Fop::In, path(r)),
        12..=27 => Body::File(Fop::Out, path(r)),
        28..=33 => Body::File(Fop::Clobber, path(r)),
        34..=41 => Body::File(Fop::Append, path(r)),
        42..=47 => Body::File(Fop::InOut, path(r)),
        48..=76 => {
            let a = match r.below(12) {
                0..=2 => Darg::Close,
                3 => Darg::Malformed,
                _ => Darg::Fd(*r.pick(fds)),
            };
            Body::Dup(r.chance(1, 2), a)
        }
        77..=94 => Body::Here(r.pick(&["", "h\n", "ab\ncd\n"]).to_string()),
        95..=97 => Body::Pipe,
        _ => Body::HereString,
    }
}

/// Descriptors used as targets and as sources of duplication: mostly 0..=9,
/// sometimes the numbers the shell uses for its own copies.
fn random_fd(r: &mut Rng, wide: bool) -> u64 {
    if wide && r.chance(1, 8) { 10 + r.below(4) as u64 } else { *r.pick(&[0, 0, 1, 1, 2, 2, 3, 3, 3, 4, 4, 5, 6, 7, 8, 9]) }
}

fn random_redirs(r: &mut Rng, max: usize, wide: bool) -> Vec<Redir> {
    let n = match r.below(10) {
        0 => 0,
        1..=4 => 1,
        5..=7 => 2,
        _ => 3 + r.below(max.saturating_sub(2).max(1)),
    };
    let srcs: Vec<u64> = (0..8).map(|_| random_fd(r, wide)).collect();
    (0..n)
        .map(|_| Redir { fd: random_fd(r, wide), body: random_body(r, &srcs), explicit: r.chance(2, 3) })
        .collect()
}

fn random_kind(r: &mut Rng) -> Kind {
    match r.below(100) {
        0..=24 => Kind::Regular,
        25..=31 => Kind::Special,
        32..=42 => Kind::Function,
        43..=58 => Kind::Group,
        59..=67 => Kind::Subshell,
        68..=76 => Kind::NotFound,
        77..=83 => Kind::Empty,
        84..=87 => Kind::Async,
        88..=90 => Kind::ExecFail,
        _ => Kind::Exec,
    }
}

fn random_items(r: &mut Rng, len: usize, wide: bool) -> Vec<Item> {
    let mut dots = 0;
    random_items_at(r, len, wide, 0, &mut dots)
}

/// `dots`: how many of the script files /s0 .. /s3 are taken
fn random_items_at(r: &mut Rng, len: usize, wide: bool, depth: usize, dots: &mut usize) -> Vec<Item> {
    let mut items = vec![];
    for _ in 0..len {
        match r.below(112) {
            100..=105 => {
                // the . built-in: the shell opens a descriptor of its own
                let via = r.chance(2, 3);
                let redirs = if r.chance(1, 2) { random_redirs(r, 2, wide) } else { vec![] };
                let target = match r.below(8) {
                    0 => DotTarget::Missing,
                    1 => DotTarget::Bad,
                    _ if *dots < 4 && depth < 2 => {
                        *dots += 1;
                        DotTarget::Script(*dots - 1)
                    }
                    _ => DotTarget::Missing,
                };
                let body = if let DotTarget::Script(_) = target {
                    let n = r.below(3);
                    random_items_at(r, n, wide, depth + 1, dots)
                } else {
                    vec![]
                };
                items.push(Item::Dot(via, redirs, target, body));
            }
            106..=108 => {
                let kind = if r.chance(1, 3) { Kind::Function } else { Kind::Regular };
                items.push(Item::Subst(kind, random_redirs(r, 2, wide)));
            }
            109..=111 => items.push(Item::Pipe(2 + r.below(3))),
            0..=4 => items.push(Item::Noclobber(r.chance(2, 3))),
            5 => items.push(Item::Errexit(r.chance(1, 2))),
            6..=11 if depth == 0 => {
                let l = if r.chance(1, 4) { None } else { Some(r.range(10, 16) as u64) };
                items.push(Item::Limit(l));
            }
            12..=23 if depth < 2 => {
                // a compound command or a function with a body of its own
                let kind = if r.chance(1, 3) { Kind::Function } else { Kind::Group };
                let redirs = random_redirs(r, 3, wide);
                let n = 1 + r.below(3);
                let body = random_items_at(r, n, wide, depth + 1, dots);
                items.push(Item::Group(kind, r.below(60), redirs, body));
            }
            _ => {
                let mut kind = random_kind(r);
                // inside a body, exec (whose effect would outlive the body) is rare
                if depth > 0 && matches!(kind, Kind::Exec | Kind::ExecFail) && r.chance(3, 4) {
                    kind = Kind::Regular;
                }
                let mut redirs = random_redirs(r, 4, wide);
                if kind == Kind::Empty && redirs.is_empty() {
                    redirs.push(Redir { fd: 1, body: Body::File(Fop::Out, Some(5)), explicit: false });
                }
                items.push(Item::Cmd(kind, r.below(60), redirs));
            }
        }
    }
    items
}

fn without_async(items: &[Item]) -> Vec<Item> {
    items
        .iter()
        .map(|i| match i {
            Item::Cmd(Kind::Async, v, rs) => Item::Cmd(Kind::Subshell, *v, rs.clone()),
            Item::Group(k, v, rs, body) => Item::Group(*k, *v, rs.clone(), without_async(body)),
            Item::Dot(via, rs, t, body) => Item::Dot(*via, rs.clone(), *t, without_async(body)),
            other => other.clone(),
        })
        .collect()
}

/// Number of script files used by the items (nested ones included).
fn count_dots(items: &[Item]) -> usize {
    items
        .iter()
        .map(|i| match i {
            Item::Dot(_, _, t, body) => usize::from(matches!(t, DotTarget::Script(_))) + count_dots(body),
            Item::Group(_, _, _, body) => count_dots(body),
            _ => 0,
        })
        .sum()
}

fn random_init(r: &mut Rng) -> InitFiles {
    let tok = |r: &mut Rng| -> Vec<u8> {
        let n = r.below(4);
        (0..n).map(|_| b'A' + r.below(26) as u8).collect()
    };
    let mut files = vec![(3, Some(tok(r)))];
    for k in [4u64, 5, 6, 8] {
        files.push((k, if r.chance(1, 2) { Some(tok(r)) } else { None }));
    }
    InitFiles { files }
}

// ---------------------------------------------------------------------------

struct Emitter {
    w: CasesWriter,
    discarded: usize,
    /// of the case emitted last: per command step, its kind and whether its
    /// body was seen running
    last_cmds: Vec<(Kind, bool)>,
}

impl Emitter {
    /// Runs and writes one case; returns false if the case was outside the
    /// domain (a limit below an open descriptor) and was dropped.
    fn emit(&mut self, stream: &str, init: &InitFiles, items: &[Item], ctx: &Ctx, tags: &[&str]) -> bool {
        // an interactive shell reports every asynchronous job on its standard
        // error: outside the model
        let no_async;
        let items = if ctx.interactive {
            no_async = without_async(items);
            &no_async[..]
        } else {
            items
        };
        let out = run_case(init, items, ctx);
        let script_file = ctx.script_file;
        let (script_text, dots) = build(items, ctx.marker);
        let script_opt = if script_file { Some(script_text.as_str()) } else { None };
        if out.gave_up {
            self.discarded += 1;
            self.w.count("discarded:pipeline-child-gave-up");
            return false;
        }
        // domain: the limit is never lowered to or below an open descriptor
        let mut lim: Option<u64> = None;
        let mut before = &out.init;
        for (of, _, after, _) in out.steps.iter() {
            if let StepOf::Limit(l) = of {
                lim = *l;
            }
            if let Some(l) = lim {
                if before.tab.iter().chain(after.tab.iter()).any(|(fd, _, _)| *fd as u64 >= l) {
                    self.discarded += 1;
                    self.w.count("discarded:limit-below-open-descriptor");
                    return false;
                }
            }
            // a pipeline started with descriptor 1 closed: a child may give up
            // before it reaches its command, which cannot be observed
            if matches!(of, StepOf::Child | StepOf::PipeFailed) && !before.tab.iter().any(|(fd, _, _)| *fd == 1) {
                self.discarded += 1;
                self.w.count("discarded:pipe-with-stdout-closed");
                return false;
            }
            before = after;
        }
        let steps: Vec<String> = out
            .steps
            .iter()
            .map(|(_, inside, after, ex)| {
                format!(
                    "(mkStep {} {} {})",
                    coq::opt(inside.as_ref().map(obs_coq)),
                    obs_coq(after),
                    coq::b(*ex)
                )
            })
            .collect();
        let mut items_coq: Vec<String> = vec![];
        if script_file {
            if let Some(l) = ctx.startup_limit {
                items_coq.push(format!("(ILimit (Some {l}))"));
            }
            items_coq.push("(IStartup (PKey 9))".to_string());
        }
        items_coq.extend(items.iter().map(|i| i.coq(ctx.interactive)));
        let term = if let Some(p) = &out.problem {
            // a panic, a hang or a malformed trace: an empty table can never be
            // a restored one, so the oracle rejects the case
            let _ = p;
            format!(
                "(inl ({}, {}, {}, [mkStep None (mkObs [] [] []) true]))%N",
                init.coq(script_opt, &dots),
                coq::list(&items_coq[..1.min(items_coq.len())]),
                obs_coq(&out.init)
            )
        } else {
            format!("(inl ({}, {}, {}, {}))%N", init.coq(script_opt, &dots), coq::list(&items_coq), obs_coq(&out.init), coq::list(&steps))
        };
        let shown: Vec<String> = out
            .steps
            .iter()
            .map(|(_, inside, after, ex)| {
                format!(
                    "{}{} -> {}",
                    inside.as_ref().map(|i| format!("[{}] ", obs_show(i))).unwrap_or_default(),
                    if *ex { "EXIT" } else { "" },
                    obs_show(after)
                )
            })
            .collect();
        let json = format!(
            "{{\"stream\":{},\"started_as\":{},\"script\":{},\"problem\":{},\"initial\":{},\"observed\":{}}}",
            json_str(stream),
            json_str(&format!(
                "{}{}",
                if script_file { "yash /s" } else if ctx.interactive { "yash -i -c" } else { "yash -c" },
                ctx.startup_limit.map(|l| format!(" (descriptor limit {l} from the start)")).unwrap_or_default()
            )),
            json_str(&script_of(items, ctx.marker)),
            json_str(out.problem.as_deref().unwrap_or("")),
            json_str(&obs_show(&out.init)),
            yv_harness::json_str_list(&shown)
        );
        // histogram
        self.w.count(&format!("stream:{stream}"));
        self.w.count(if script_file {
            "context:script-file(internal fd 10)"
        } else if ctx.interactive {
            "context:interactive-command-string"
        } else {
            "context:command-string"
        });
        self.last_cmds = out
            .steps
            .iter()
            .filter_map(|(of, inside, _, _)| match of {
                StepOf::Cmd(k, _) => Some((*k, inside.is_some())),
                _ => None,
            })
            .collect();
        let mut failed = 0;
        let mut ran = 0;
        let mut max_saved = 0;
        let mut nested = 0;
        for (of, inside, _, ex) in out.steps.iter() {
            match of {
                StepOf::Cmd(kind, redirs) | StepOf::Push(kind, redirs) => {
                    if matches!(of, StepOf::Push(..)) {
                        self.w.count(&format!("kind:compound-with-body({kind:?})"));
                        nested += 1;
                    } else {
                        self.w.count(&format!("kind:{kind:?}"));
                    }
                    self.w.count(&format!("redirs:{}", redirs.len().min(5)));
                    for r in redirs {
                        self.w.count(match &r.body {
                            Body::File(Fop::In, _) => "op:<",
                            Body::File(Fop::InOut, _) => "op:<>",
                            Body::File(Fop::Out, _) => "op:>",
                            Body::File(Fop::Clobber, _) => "op:>|",
                            Body::File(Fop::Append, _) => "op:>>",
                            Body::Dup(true, _) => "op:<&",
                            Body::Dup(false, _) => "op:>&",
                            Body::Here(_) => "op:<<",
                            Body::Pipe => "op:>>|",
                            Body::HereString => "op:<<<",
                        });
                    }
                    if let Some(ins) = inside {
                        ran += 1;
                        max_saved = max_saved.max(ins.tab.iter().filter(|(fd, _, cx)| *cx && *fd >= 10).count());
                    } else if !redirs.is_empty() && !matches!(kind, Kind::Empty | Kind::NotFound | Kind::Exec) {
                        failed += 1;
                    }
                    if *ex {
                        self.w.count("shell-exited");
                    }
                }
                StepOf::Pop => (),
                StepOf::Child => self.w.count("child-of-pipe-observed"),
                StepOf::PipeFailed => self.w.count("pipeline-without-any-pipe"),
                StepOf::Startup => {
                    if *ex {
                        self.w.count("startup:script-not-opened");
                    }
                }
                StepOf::Limit(Some(_)) => self.w.count("limit:finite"),
                StepOf::Limit(None) => self.w.count("limit:infinite"),
                StepOf::Noclobber => self.w.count("noclobber-switch"),
            }
        }
        if nested > 0 {
            self.w.count("scripts-with-nested-redirections");
        }
        self.w.count(&format!("commands-refused:{}", failed.min(4)));
        self.w.count(&format!("max-saved-descriptors:{}", max_saved.min(5)));
        let key = if ran >= 1 && (failed >= 1 || max_saved >= 2) { Some(script_of(items, ctx.marker)) } else { None };
        self.w.push(&term, &json, tags, key);
        true
    }
}

const CMD: Ctx = Ctx { script_file: false, startup_limit: None, interactive: false, marker: false };
const FILE: Ctx = Ctx { script_file: true, startup_limit: None, interactive: false, marker: false };
const INTERACTIVE: Ctx = Ctx { script_file: false, startup_limit: None, interactive: true, marker: false };

fn rd(fd: u64, body: Body) -> Redir {
    Redir { fd, body, explicit: true }
}

fn corpus() -> Vec<(InitFiles, Vec<Item>)> {
    use Body::*;
    let std_init = || InitFiles {
        files: vec![(3, Some(b"AAA".to_vec())), (4, Some(b"BB".to_vec())), (5, None), (6, None), (8, Some(b"X".to_vec()))],
    };
    let cmd = |k: Kind, rs: Vec<Redir>| Item::Cmd(k, 0, rs);
    vec![
        // the earlier leak: a failed redirection three times (missing file)
        (
            std_init(),
            vec![
                cmd(Kind::Regular, vec![rd(0, File(Fop::In, Some(5)))]),
                cmd(Kind::Regular, vec![rd(0, File(Fop::In, Some(5)))]),
                cmd(Kind::Regular, vec![rd(0, File(Fop::In, Some(5)))]),
            ],
        ),
        // a failing second redirection after a successful first, each kind
        (
            std_init(),
            vec![
                cmd(Kind::Regular, vec![rd(1, File(Fop::Out, Some(4))), rd(0, File(Fop::In, Some(5)))]),
                cmd(Kind::Function, vec![rd(1, File(Fop::Out, Some(4))), rd(0, File(Fop::In, Some(5)))]),
                cmd(Kind::Group, vec![rd(1, File(Fop::Out, Some(4))), rd(0, File(Fop::In, Some(5)))]),
                cmd(Kind::Subshell, vec![rd(1, File(Fop::Out, Some(4))), rd(0, File(Fop::In, Some(5)))]),
                cmd(Kind::NotFound, vec![rd(1, File(Fop::Out, Some(4))), rd(0, File(Fop::In, Some(5)))]),
                cmd(Kind::Empty, vec![rd(1, File(Fop::Out, Some(4))), rd(0, File(Fop::In, Some(5)))]),
                cmd(Kind::Special, vec![rd(1, File(Fop::Out, Some(4))), rd(0, File(Fop::In, Some(5)))]),
            ],
        ),
        // every operator once, on open and closed targets
        (
            std_init(),
            vec![
                cmd(
                    Kind::Regular,
                    vec![
                        rd(0, File(Fop::In, Some(3))),
                        rd(3, File(Fop::Out, Some(4))),
                        rd(4, File(Fop::Append, Some(5))),
                        rd(5, File(Fop::InOut, Some(3))),
                        rd(6, Dup(false, Darg::Fd(1))),
                        rd(7, Dup(true, Darg::Fd(0))),
                        rd(2, Dup(false, Darg::Close)),
                        rd(8, Here("h\n".into())),
                        rd(9, File(Fop::Clobber, Some(4))),
                    ],
                ),
                cmd(Kind::Exec, vec![rd(3, File(Fop::In, Some(3))), rd(4, Dup(true, Darg::Fd(3)))]),
                cmd(Kind::Regular, vec![rd(3, Dup(true, Darg::Close)), rd(4, File(Fop::Out, Some(6)))]),
                cmd(Kind::Exec, vec![rd(3, Dup(true, Darg::Close))]),
            ],
        ),
        // noclobber: existing regular file, missing file, directory, >| override
        (
            std_init(),
            vec![
                Item::Noclobber(true),
                cmd(Kind::Regular, vec![rd(1, File(Fop::Out, Some(3)))]),
                cmd(Kind::Regular, vec![rd(1, File(Fop::Out, Some(5)))]),
                cmd(Kind::Regular, vec![rd(1, File(Fop::Out, Some(5)))]),
                cmd(Kind::Regular, vec![rd(1, File(Fop::Out, Some(7)))]),
                cmd(Kind::Regular, vec![rd(1, File(Fop::Clobber, Some(3)))]),
                Item::Noclobber(false),
                cmd(Kind::Regular, vec![rd(1, File(Fop::Out, Some(4)))]),
            ],
        ),
        // descriptors the shell uses itself as targets and sources
        (
            std_init(),
            vec![
                cmd(Kind::Regular, vec![rd(0, File(Fop::In, Some(3))), rd(10, File(Fop::Out, Some(4)))]),
                cmd(Kind::Regular, vec![rd(10, File(Fop::Out, Some(4))), rd(0, File(Fop::In, Some(3)))]),
                cmd(Kind::Regular, vec![rd(0, File(Fop::In, Some(3))), rd(3, Dup(true, Darg::Fd(10)))]),
                cmd(Kind::Exec, vec![rd(10, File(Fop::In, Some(3)))]),
                cmd(Kind::Regular, vec![rd(10, Dup(true, Darg::Close)), rd(0, File(Fop::In, Some(3)))]),
                cmd(Kind::Regular, vec![rd(3, Dup(true, Darg::Fd(10))), rd(0, File(Fop::In, Some(3)))]),
            ],
        ),
        // `echo x >out 2>/no/such/dir/err; echo after`: the first redirection
        // succeeds, the second fails; the next command must see the old table
        (
            std_init(),
            vec![
                cmd(Kind::Regular, vec![Redir { fd: 1, body: File(Fop::Out, Some(4)), explicit: false }, rd(2, File(Fop::Out, None))]),
                cmd(Kind::Regular, vec![]),
                cmd(Kind::Function, vec![rd(1, File(Fop::Out, Some(4))), rd(3, File(Fop::Out, Some(6))), rd(0, File(Fop::In, Some(5)))]),
                cmd(Kind::Regular, vec![]),
                cmd(Kind::Group, vec![rd(1, File(Fop::Out, Some(4))), rd(4, File(Fop::In, Some(5)))]),
                cmd(Kind::Regular, vec![]),
            ],
        ),
        // a pipeline whose second pipe cannot be made (the read end of the first
        // pipe used to stay open)
        (std_init(), vec![Item::Limit(Some(5)), Item::Pipe(3), Item::Pipe(3)]),
        // all user descriptors taken, then a limit that leaves one internal slot
        (
            std_init(),
            vec![
                Item::Limit(Some(11)),
                cmd(Kind::Exec, (3..10).map(|n| rd(n, File(Fop::In, Some(3)))).collect()),
                cmd(Kind::Regular, vec![rd(0, File(Fop::In, Some(3)))]),
                cmd(Kind::Regular, vec![rd(0, Here("h\n".into()))]),
                cmd(Kind::Regular, vec![rd(1, File(Fop::Out, Some(4)))]),
                cmd(Kind::Regular, vec![rd(3, Dup(true, Darg::Close)), rd(0, File(Fop::In, Some(4)))]),
                cmd(Kind::Subshell, vec![rd(3, Dup(true, Darg::Close)), rd(0, File(Fop::In, Some(4)))]),
                cmd(Kind::Exec, vec![rd(0, File(Fop::In, Some(3)))]),
            ],
        ),
    ]
}

/// `--opt explore=SCRIPT`: runs a raw script with the probe built-ins and prints
/// what they recorded (for replaying a finding by hand).
fn explore(script: &str, interactive: bool) {
    SEEN.with(|s| s.borrow_mut().clear());
    OBS.with(|o| o.borrow_mut().clear());
    let (o, state) = vsh::run_shell(
        vsh::RunOpts {
            argv: if interactive {
                vec!["-i".into(), "-c".into(), script.to_string()]
            } else {
                vec!["-c".into(), script.to_string()]
            },
            files: vec![("/a".into(), b"AAA".to_vec()), ("/b".into(), b"BB".to_vec()), ("/d/x".into(), b"X".to_vec())],
            ..Default::default()
        },
        |env, state| {
            STATE.with(|s| *s.borrow_mut() = Some(Rc::clone(state)));
            env.builtins.insert("fds", Builtin::new(Type::Mandatory, fds_main));
            env.builtins.insert("sfds", Builtin::new(Type::Special, fds_main));
            env.builtins.insert("lim", Builtin::new(Type::Mandatory, lim_main));
            // symbolic links for experiments: /la -> a (regular), /ld -> d, /lx -> nothing
            for (l, t) in [("/la", "a"), ("/ld", "d"), ("/lx", "nosuch"), ("/lla", "la")] {
                let inode = yash_env::system::r#virtual::Inode {
                    body: FileBody::Symlink { target: yash_env::path::PathBuf::from(t) },
                    permissions: Default::default(),
                };
                state.borrow_mut().file_system.save(l, Rc::new(RefCell::new(inode))).unwrap();
            }
        },
    );
    STATE.with(|s| *s.borrow_mut() = None);
    for ob in OBS.with(|o| std::mem::take(&mut *o.borrow_mut())) {
        println!("{} (main={}): {}", ob.tag, ob.main, obs_show(&ob));
    }
    if let Some(st) = state {
        let st = st.borrow();
        let proc = st.processes.iter().next().unwrap().1;
        println!("final: {}", obs_show(&snapshot(proc.fds().iter(), &st.file_system, "F", true, 0)));
    }
    println!("status={} panicked={:?} deadlock={} timeout={}", o.status, o.panicked, o.deadlock, o.timeout);
    println!("stdout:\n{}", o.stdout);
    println!("stderr:\n{}", o.stderr);
}

// ---------------------------------------------------------------------------
// noclobber and symbolic links: the real binary on the real OS (the simulated
// OS does not follow symbolic links)

/// Builds the real shell binary from $YV_REPO (default /repo); returns its path.
/// A build failure is a harness error, not a verdict.
fn build_yash3() -> String {
    let repo = std::env::var("YV_REPO").unwrap_or_else(|_| "/repo".to_string());
    let target = std::env::var("CARGO_TARGET_DIR").unwrap_or_else(|_| "/verif/.cache/target".to_string());
    let target = format!("{target}/yash3");
    let out = std::process::Command::new("cargo")
        .args(["build", "--offline", "--locked", "-p", "yash-cli", "--manifest-path"])
        .arg(format!("{repo}/Cargo.toml"))
        .env("CARGO_TARGET_DIR", &target)
        .env("CARGO_NET_OFFLINE", "true")
        .output()
        .expect("cargo");
    if !out.status.success() {
        eprintln!("building yash3 failed:\n{}", String::from_utf8_lossy(&out.stderr));
        std::process::exit(3);
    }
    format!("{target}/debug/yash3")
}

#[derive(Clone, Copy, Debug, PartialEq)]
enum LNode {
    Reg,
    Fifo,
    Dev, // name 9 = /dev/null
    Dir,
    Link(u64),
}

impl LNode {
    fn coq(&self) -> String {
        match self {
            LNode::Reg => "LReg".into(),
            LNode::Fifo => "LFifo".into(),
            LNode::Dev => "LDev".into(),
            LNode::Dir => "LDir".into(),
            LNode::Link(t) => format!("(LLink {t})"),
        }
    }
}

fn lname(n: u64) -> String {
    if n == 9 { "/dev/null".to_string() } else { format!("n{n}") }
}

/// Runs `set -C; { :; } > NAME` with the real binary in a scratch directory
/// holding the given names; returns the Coq term of what was observed.
fn run_link_case(yash3: &str, dir: &std::path::Path, nodes: &[(u64, LNode)], name: u64) -> String {
    use std::process::Stdio;
    use std::time::{Duration, Instant};
    let _ = std::fs::remove_dir_all(dir);
    std::fs::create_dir_all(dir).expect("scratch directory");
    let mut keep_open = vec![];
    for (n, node) in nodes {
        let p = dir.join(lname(*n));
        match node {
            LNode::Reg => std::fs::write(&p, b"old").expect("write"),
            LNode::Dir => std::fs::create_dir(&p).expect("mkdir"),
            LNode::Dev => (),
            LNode::Fifo => {
                let st = std::process::Command::new("mkfifo").arg(&p).status().expect("mkfifo");
                assert!(st.success(), "mkfifo failed");
                // a reader, so that opening the FIFO for writing does not block
                keep_open.push(std::fs::OpenOptions::new().read(true).write(true).open(&p).expect("open fifo"));
            }
            LNode::Link(t) => std::os::unix::fs::symlink(lname(*t), &p).expect("symlink"),
        }
    }
    let existed = std::fs::symlink_metadata(dir.join(lname(name))).is_ok();
    let script = format!("set -C; {{ :; }} > {}", lname(name));
    let mut child = std::process::Command::new(yash3)
        .arg("-c")
        .arg(&script)
        .current_dir(dir)
        .env_clear()
        .env("PATH", "")
        .stdin(Stdio::null())
        .stdout(Stdio::null())
        .stderr(Stdio::null())
        .spawn()
        .expect("spawn yash3");
    let t0 = Instant::now();
    let status = loop {
        match child.try_wait() {
            Ok(Some(st)) => break st,
            Ok(None) => {
                if t0.elapsed() > Duration::from_secs(30) {
                    let _ = child.kill();
                    let _ = child.wait();
                    eprintln!("yash3 timed out (harness error, not a verdict) on: {script}");
                    std::process::exit(3);
                }
                std::thread::sleep(Duration::from_millis(1));
            }
            Err(e) => {
                eprintln!("waiting for yash3 failed: {e}");
                std::process::exit(3);
            }
        }
    };
    drop(keep_open);
    let ok = status.code() == Some(0);
    // a regular file must still have its content (nothing is written by `:`,
    // but O_TRUNC would show)
    let mut truncated = false;
    for (n, node) in nodes {
        if *node == LNode::Reg && std::fs::read(dir.join(lname(*n))).map(|c| c != b"old").unwrap_or(true) {
            truncated = true;
        }
    }
    if !ok && !truncated {
        return "Refused".to_string();
    }
    if !existed {
        return "Created".to_string();
    }
    // what the name resolves to, by the OS
    let kind = match std::fs::metadata(dir.join(lname(name))) {
        Ok(m) => {
            use std::os::unix::fs::FileTypeExt as _;
            let t = m.file_type();
            if t.is_file() {
                "LReg"
            } else if t.is_dir() {
                "LDir"
            } else if t.is_fifo() {
                "LFifo"
            } else {
                "LDev"
            }
        }
        Err(_) => "LReg", // a dangling link that was "opened": it now names a new regular file
    };
    format!("(Opened {kind})")
}

fn link_stream(e: &mut Emitter, seed: u64) {
    let yash3 = build_yash3();
    let scratch = std::path::PathBuf::from(format!("/verif/.cache/c09_scratch/{seed}"));
    let mut cases: Vec<(Vec<(u64, LNode)>, u64)> = vec![];
    // name 1 is what the redirection names; it is the target itself or a chain
    // of 1..3 links to it
    for target in [Some(LNode::Reg), Some(LNode::Fifo), Some(LNode::Dev), Some(LNode::Dir), None] {
        for chain in 0..=3u64 {
            let mut nodes = vec![];
            for i in 0..chain {
                let next = if i + 1 == chain && target == Some(LNode::Dev) { 9 } else { i + 2 };
                nodes.push((i + 1, LNode::Link(next)));
            }
            match target {
                Some(LNode::Dev) if chain == 0 => continue, // /dev/null itself is not in the directory
                Some(LNode::Dev) => nodes.push((9, LNode::Dev)),
                Some(t) => nodes.push((chain + 1, t)),
                None => (),
            }
            cases.push((nodes, 1));
        }
    }
    // cycles
    cases.push((vec![(1, LNode::Link(1))], 1));
    cases.push((vec![(1, LNode::Link(2)), (2, LNode::Link(1))], 1));
    // a link to a regular file next to other names
    cases.push((vec![(1, LNode::Link(3)), (2, LNode::Reg), (3, LNode::Reg), (4, LNode::Link(2))], 4));
    for (i, (nodes, name)) in cases.iter().enumerate() {
        let observed = run_link_case(&yash3, &scratch.join(format!("{i}")), nodes, *name);
        let l: Vec<String> = nodes.iter().map(|(n, k)| format!("({n}, {})", k.coq())).collect();
        let term = format!("(inr ({}, {name}, {observed}))%N", coq::list(&l));
        let shown: Vec<String> = nodes
            .iter()
            .map(|(n, k)| match k {
                LNode::Link(t) => format!("{} -> {}", lname(*n), lname(*t)),
                k => format!("{}: {:?}", lname(*n), k),
            })
            .collect();
        let json = format!(
            "{{\"stream\":\"noclobber-symlinks(real OS)\",\"script\":{},\"directory\":{},\"observed\":{}}}",
            json_str(&format!("set -C; {{ :; }} > {}", lname(*name))),
            yv_harness::json_str_list(&shown),
            json_str(&observed)
        );
        e.w.count("stream:noclobber-symlinks(real OS)");
        e.w.push(&term, &json, &[], Some(format!("link:{i}")));
    }
    let _ = std::fs::remove_dir_all(&scratch);
}

/// Which allocation step of `perform` the limit cuts off first for this list,
/// given the descriptors open before the command (the lists of this stream fail
/// for no other reason).  Used for the histogram only.
fn predict_failure_point(open: &[u64], lim: u64, redirs: &[Redir]) -> Option<&'static str> {
    let mut set: Vec<u64> = open.to_vec();
    let min_unused = |set: &Vec<u64>, from: u64| (from..).find(|x| !set.contains(x)).unwrap();
    for (i, r) in redirs.iter().enumerate() {
        let mut save = None;
        if set.contains(&r.fd) {
            let s = min_unused(&set, 10);
            if s >= lim {
                return Some(match i {
                    0 => "save-dup(1st redirection)",
                    1 => "save-dup(2nd redirection)",
                    _ => "save-dup(3rd redirection)",
                });
            }
            set.push(s);
            save = Some(s);
        }
        let _ = save;
        match &r.body {
            Body::File(..) | Body::Here(_) => {
                let o = min_unused(&set, 0);
                if o >= lim {
                    return Some(if matches!(r.body, Body::Here(_)) { "here-document-file" } else { "open" });
                }
                if o != r.fd && r.fd >= lim {
                    return Some("dup2-to-target");
                }
                if !set.contains(&r.fd) {
                    set.push(r.fd);
                }
            }
            Body::Dup(_, Darg::Fd(n)) => {
                if *n != r.fd && r.fd >= lim {
                    return Some("dup2-to-target");
                }
                if !set.contains(&r.fd) {
                    set.push(r.fd);
                }
            }
            Body::Dup(_, Darg::Close) => set.retain(|x| *x != r.fd),
            _ => return None,
        }
    }
    None
}

fn failure_point_stream(e: &mut Emitter, args: &Args) {
    use Body::*;
    let std_init = || InitFiles {
        files: vec![(3, Some(b"AAA".to_vec())), (4, Some(b"BB".to_vec())), (5, None), (6, None), (8, None)],
    };
    let here = || Here("h\n".to_string());
    let lists: Vec<Vec<Redir>> = vec![
        // one redirection, open target
        vec![Redir { fd: 1, body: File(Fop::Out, Some(4)), explicit: false }],
        vec![rd(1, File(Fop::Clobber, Some(4)))],
        vec![rd(1, File(Fop::Append, Some(6)))],
        vec![rd(1, File(Fop::InOut, Some(4)))],
        vec![rd(1, Dup(false, Darg::Fd(2)))],
        vec![rd(1, Dup(false, Darg::Close))],
        vec![Redir { fd: 0, body: File(Fop::In, Some(3)), explicit: false }],
        vec![rd(0, here())],
        vec![rd(0, Dup(true, Darg::Close))],
        vec![rd(2, File(Fop::Out, Some(6)))],
        vec![rd(2, Dup(false, Darg::Fd(1)))],
        // one redirection, closed target
        vec![rd(5, File(Fop::Out, Some(4)))],
        vec![rd(5, File(Fop::In, Some(3)))],
        vec![rd(5, here())],
        vec![rd(5, Dup(false, Darg::Fd(1)))],
        // two
        vec![rd(1, File(Fop::Out, Some(4))), rd(2, Dup(false, Darg::Fd(1)))],
        vec![rd(0, File(Fop::In, Some(3))), rd(1, File(Fop::Out, Some(4)))],
        vec![rd(1, File(Fop::Out, Some(4))), rd(1, File(Fop::Out, Some(6)))],
        vec![rd(5, File(Fop::In, Some(3))), rd(0, Dup(true, Darg::Fd(5)))],
        vec![rd(0, here()), rd(1, File(Fop::Append, Some(6)))],
        vec![rd(2, File(Fop::Out, Some(6))), rd(1, Dup(false, Darg::Fd(2)))],
        // three
        vec![rd(0, File(Fop::In, Some(3))), rd(1, File(Fop::Out, Some(4))), rd(2, File(Fop::Out, Some(6)))],
        vec![rd(1, File(Fop::Out, Some(4))), rd(2, Dup(false, Darg::Fd(1))), rd(0, here())],
        vec![rd(5, File(Fop::Out, Some(4))), rd(6, File(Fop::In, Some(3))), rd(1, Dup(false, Darg::Fd(5)))],
        vec![rd(1, File(Fop::Out, Some(4))), rd(1, File(Fop::Out, Some(6))), rd(1, Dup(false, Darg::Fd(2)))],
    ];
    let kinds = [Kind::Regular, Kind::Function, Kind::Group, Kind::Subshell, Kind::NotFound];
    let marker_cmd = Ctx { marker: true, ..CMD };
    let marker_file = Ctx { marker: true, ..FILE };
    // (descriptors 3-9 taken?, started from a file?, limits)
    let plans: Vec<(bool, bool, Vec<u64>)> = if args.thorough() {
        vec![
            (false, false, (3..=14).collect()),
            (false, true, (11..=15).collect()),
            (true, false, (10..=14).collect()),
            (true, true, (11..=15).collect()),
        ]
    } else {
        vec![(false, false, vec![3, 4, 10, 11, 12]), (false, true, vec![11, 12]), (true, false, vec![10, 11, 12])]
    };
    for (li, rs) in lists.iter().enumerate() {
        for (fill, file, limits) in &plans {
            for l in limits {
                let mut items = vec![];
                let mut open: Vec<u64> = vec![0, 1, 2];
                if *fill {
                    items.push(Item::Cmd(Kind::Exec, 0, (3..10).map(|n| rd(n, File(Fop::In, Some(3)))).collect()));
                    open.extend(3..10);
                }
                if *file {
                    open.push(10);
                }
                items.push(Item::Limit(Some(*l)));
                for (ki, k) in kinds.iter().enumerate() {
                    items.push(Item::Cmd(*k, li + ki, rs.clone()));
                }
                let ctx = if *file { &marker_file } else { &marker_cmd };
                if e.emit("failure-points", &std_init(), &items, ctx, &[]) {
                    let p = predict_failure_point(&open, *l, rs);
                    // the prediction is checked against what the regular built-in did
                    let ran = e.last_cmds.iter().find(|(k, _)| *k == Kind::Regular).map(|(_, ran)| *ran);
                    if ran == Some(p.is_none()) {
                        e.w.count(&format!("failure-point:{}", p.unwrap_or("none(all steps succeed)")));
                    } else {
                        e.w.count("failure-point:not-classified");
                    }
                    e.w.count(&format!("failure-point-list-length:{}", rs.len()));
                }
            }
        }
    }
}

fn main() {
    let args = Args::parse();
    if let Some(script) = args.opt("explore") {
        explore(script, false);
        return;
    }
    if let Some(script) = args.opt("explore_i") {
        explore(script, true);
        return;
    }
    let mut rng = Rng::new(args.seed);
    let w = CasesWriter::new(&args, "Yv.C09.Run", if args.thorough() { 120 } else { 40 });
    let mut e = Emitter { w, discarded: 0, last_cmds: vec![] };

    // 1. corpus
    for (init, items) in corpus() {
        e.emit("corpus", &init, &items, &CMD, &[]);
        e.emit("corpus", &init, &items, &FILE, &[]);
    }
    // 2. the corpus and a set of random scripts under every descriptor limit
    //    from 3 up to beyond the high-water mark
    let nsweep = args.scale(12, 120);
    let mut sweep: Vec<(InitFiles, Vec<Item>)> = corpus();
    for k in 0..nsweep {
        let mut r = rng.fork(1000 + k as u64);
        let init = random_init(&mut r);
        let len = 4 + r.below(4);
        let mut items: Vec<Item> = random_items(&mut r, len, false)
            .into_iter()
            .filter(|i| !matches!(i, Item::Limit(_)))
            .collect();
        // commands that make the shell exit when a redirection fails come last,
        // so that a low limit does not end the script at once
        let n = items.len();
        for (j, i) in items.iter_mut().enumerate() {
            if let Item::Cmd(k, _, _) = i {
                if j + 1 < n && matches!(k, Kind::Special | Kind::Exec | Kind::ExecFail) {
                    *k = Kind::Regular;
                }
            }
        }
        sweep.push((init, items));
    }
    for (init, items) in &sweep {
        for l in 3..=15u64 {
            let mut it = vec![Item::Limit(Some(l))];
            it.extend(items.iter().filter(|i| !matches!(i, Item::Limit(_))).cloned());
            e.emit("limit-sweep", init, &it, &CMD, &[]);
        }
        // the shell reads the script from descriptor 10: limits above that
        for l in 11..=16u64 {
            let mut it = vec![Item::Limit(Some(l))];
            it.extend(items.iter().filter(|i| !matches!(i, Item::Limit(_))).cloned());
            e.emit("limit-sweep", init, &it, &FILE, &[]);
        }
    }
    // 2b. bounded-exhaustive: every single redirection (operator x operand
    //     class x target open/closed/internal) on every kind of command, with
    //     noclobber off and on, with and without a limit that leaves no room
    //     for the saved copy
    {
        use Body::*;
        let mut bodies: Vec<Body> = vec![];
        for op in [Fop::In, Fop::Out, Fop::Clobber, Fop::Append, Fop::InOut] {
            for p in [Some(3), Some(5), Some(7), None] {
                bodies.push(File(op, p));
            }
        }
        for input in [true, false] {
            for a in [Darg::Fd(0), Darg::Fd(1), Darg::Fd(3), Darg::Fd(10), Darg::Close, Darg::Malformed] {
                bodies.push(Dup(input, a));
            }
        }
        bodies.push(Here("h\n".into()));
        bodies.push(Pipe);
        bodies.push(HereString);
        let std_init = || InitFiles {
            files: vec![(3, Some(b"AAA".to_vec())), (4, Some(b"BB".to_vec())), (5, None), (6, None), (8, None)],
        };
        let mut idx = 0usize;
        for b in &bodies {
            for target in [0u64, 1, 3, 10] {
                for nc in [false, true] {
                    for lim in [None, Some(10u64)] {
                        idx += 1;
                        // the quick tier takes a slice of the space
                        if !args.thorough() && idx % 9 != (args.seed % 9) as usize {
                            continue;
                        }
                        let r = Redir { fd: target, body: b.clone(), explicit: true };
                        let mut pre = vec![];
                        if nc {
                            pre.push(Item::Noclobber(true));
                        }
                        if let Some(l) = lim {
                            pre.push(Item::Limit(Some(l)));
                        }
                        let mut a = pre.clone();
                        for (k, v) in [
                            (Kind::Regular, 0),
                            (Kind::Function, 0),
                            (Kind::Group, idx),
                            (Kind::Subshell, 0),
                            (Kind::NotFound, 0),
                            (Kind::Empty, 0),
                            (Kind::Special, idx),
                        ] {
                            a.push(Item::Cmd(k, v, vec![r.clone()]));
                        }
                        e.emit("exhaustive-single", &std_init(), &a, &CMD, &[]);
                        let mut x = pre.clone();
                        x.push(Item::Cmd(Kind::Exec, 0, vec![r.clone()]));
                        x.push(Item::Cmd(Kind::Regular, 0, vec![]));
                        e.emit("exhaustive-single", &std_init(), &x, if lim.is_none() && idx % 2 == 0 { &FILE } else { &CMD }, &[]);
                    }
                }
            }
        }
        // pairs of redirections on a regular built-in, with room for one saved
        // copy only / for all
        if args.thorough() {
            let small: Vec<Body> = vec![
                File(Fop::In, Some(3)),
                File(Fop::In, Some(5)),
                File(Fop::Out, Some(4)),
                File(Fop::Append, Some(4)),
                File(Fop::InOut, Some(4)),
                File(Fop::Clobber, Some(4)),
                Dup(false, Darg::Fd(1)),
                Dup(true, Darg::Fd(0)),
                Dup(false, Darg::Fd(3)),
                Dup(true, Darg::Close),
                Dup(false, Darg::Malformed),
                Here("h\n".into()),
            ];
            let mut redirs = vec![];
            for b in &small {
                for t in [0u64, 1, 3] {
                    redirs.push(Redir { fd: t, body: b.clone(), explicit: true });
                }
            }
            for lim in [None, Some(11u64)] {
                let mut batch: Vec<Item> = vec![];
                for r1 in &redirs {
                    for r2 in &redirs {
                        batch.push(Item::Cmd(Kind::Regular, 0, vec![r1.clone(), r2.clone()]));
                        if batch.len() == 6 {
                            let mut it = vec![];
                            if let Some(l) = lim {
                                it.push(Item::Limit(Some(l)));
                            }
                            it.append(&mut batch);
                            e.emit("exhaustive-pairs", &std_init(), &it, &CMD, &[]);
                        }
                    }
                }
            }
        }
    }
    // 2c. descriptors the shell opens for its own use (the script read by `.`
    //     or at start-up, pipes of command substitutions and pipelines,
    //     here-documents) and exec with an operand, under every descriptor
    //     limit; every command is repeated so that a leak would accumulate
    {
        use Body::*;
        let std_init = || InitFiles {
            files: vec![(3, Some(b"AAA".to_vec())), (4, Some(b"BB".to_vec())), (5, None), (6, None), (8, None)],
        };
        let reg = |rs: Vec<Redir>| Item::Cmd(Kind::Regular, 0, rs);
        let dot = |via: bool, rs: Vec<Redir>, t: DotTarget, body: Vec<Item>| Item::Dot(via, rs, t, body);
        let mut templates: Vec<(&str, Vec<Item>)> = vec![
            (
                "dot",
                vec![
                    dot(true, vec![], DotTarget::Script(0), vec![reg(vec![])]),
                    dot(true, vec![], DotTarget::Script(0), vec![reg(vec![])]),
                    dot(true, vec![], DotTarget::Script(0), vec![reg(vec![])]),
                    dot(true, vec![], DotTarget::Missing, vec![]),
                    dot(false, vec![], DotTarget::Script(0), vec![reg(vec![])]),
                    dot(false, vec![], DotTarget::Script(0), vec![reg(vec![])]),
                ],
            ),
            (
                "dot-with-redirections",
                vec![
                    dot(true, vec![rd(0, File(Fop::In, Some(3)))], DotTarget::Script(0), vec![reg(vec![rd(1, File(Fop::Out, Some(4)))])]),
                    dot(true, vec![rd(0, File(Fop::In, Some(3)))], DotTarget::Script(0), vec![reg(vec![rd(1, File(Fop::Out, Some(4)))])]),
                    dot(true, vec![rd(0, File(Fop::In, Some(3))), rd(1, File(Fop::Append, Some(4)))], DotTarget::Script(1),
                        vec![dot(true, vec![], DotTarget::Script(2), vec![reg(vec![rd(3, Here("h\n".into()))])])]),
                    dot(true, vec![rd(0, File(Fop::In, Some(3))), rd(1, File(Fop::Append, Some(4)))], DotTarget::Script(1),
                        vec![dot(true, vec![], DotTarget::Script(2), vec![reg(vec![rd(3, Here("h\n".into()))])])]),
                    dot(false, vec![rd(3, File(Fop::In, Some(3)))], DotTarget::Script(0), vec![reg(vec![rd(1, File(Fop::Out, Some(4)))])]),
                ],
            ),
            (
                "command-substitution",
                vec![
                    Item::Subst(Kind::Regular, vec![]),
                    Item::Subst(Kind::Regular, vec![rd(3, File(Fop::In, Some(3)))]),
                    Item::Subst(Kind::Function, vec![rd(0, Here("h\n".into()))]),
                    Item::Subst(Kind::Regular, vec![]),
                ],
            ),
            ("pipeline-2", vec![Item::Pipe(2), Item::Pipe(2), Item::Pipe(2)]),
            ("pipeline-3", vec![Item::Pipe(2), Item::Pipe(3), Item::Pipe(3)]),
            ("pipeline-4", vec![Item::Pipe(4), Item::Pipe(4)]),
            (
                "here-documents-and-eval",
                vec![
                    reg(vec![rd(0, Here("h\n".into()))]),
                    reg(vec![rd(0, Here("h\n".into())), rd(3, Here("".into()))]),
                    Item::Cmd(Kind::Regular, 3, vec![rd(3, File(Fop::In, Some(3))), rd(1, Dup(false, Darg::Fd(2)))]),
                    Item::Cmd(Kind::Special, 1, vec![rd(3, File(Fop::In, Some(3)))]),
                    Item::Group(Kind::Function, 0, vec![rd(0, Here("h\n".into()))], vec![Item::Subst(Kind::Regular, vec![]), Item::Pipe(2)]),
                ],
            ),
            (
                "asynchronous",
                vec![
                    Item::Cmd(Kind::Async, 0, vec![rd(1, File(Fop::Out, Some(4))), rd(3, File(Fop::In, Some(3)))]),
                    Item::Cmd(Kind::Async, 1, vec![rd(0, File(Fop::In, Some(5)))]),
                    Item::Cmd(Kind::Async, 2, vec![rd(0, Here("h\n".into())), rd(1, Dup(false, Darg::Fd(2)))]),
                    Item::Group(Kind::Group, 0, vec![rd(3, File(Fop::In, Some(3)))], vec![Item::Cmd(Kind::Async, 0, vec![rd(3, Dup(true, Darg::Close))])]),
                    Item::Cmd(Kind::Async, 0, vec![]),
                ],
            ),
            (
                "errexit-redirection-fails",
                vec![
                    Item::Errexit(true),
                    reg(vec![rd(3, File(Fop::In, Some(3)))]),
                    Item::Group(Kind::Group, 1, vec![rd(4, File(Fop::Out, Some(4)))], vec![reg(vec![]), reg(vec![rd(0, File(Fop::In, Some(5)))]), reg(vec![])]),
                    reg(vec![]),
                ],
            ),
            (
                "errexit-kinds",
                vec![
                    Item::Errexit(true),
                    Item::Cmd(Kind::Async, 0, vec![rd(0, File(Fop::In, Some(5)))]),
                    Item::Cmd(Kind::Subshell, 0, vec![rd(3, File(Fop::In, Some(3)))]),
                    Item::Errexit(false),
                    Item::Cmd(Kind::Function, 0, vec![rd(0, File(Fop::In, Some(5)))]),
                    Item::Errexit(true),
                    dot(true, vec![rd(3, File(Fop::In, Some(3)))], DotTarget::Script(0), vec![Item::Cmd(Kind::Empty, 0, vec![rd(0, File(Fop::In, Some(5)))]), reg(vec![])]),
                    reg(vec![]),
                ],
            ),
            (
                "errexit-not-found",
                vec![Item::Errexit(true), reg(vec![]), Item::Cmd(Kind::NotFound, 0, vec![rd(3, File(Fop::In, Some(3)))]), reg(vec![])],
            ),
            (
                "exec-with-operand",
                vec![
                    reg(vec![]),
                    Item::Cmd(Kind::ExecFail, 0, vec![rd(3, File(Fop::Out, Some(4)))]),
                    reg(vec![]),
                    Item::Cmd(Kind::ExecFail, 1, vec![rd(0, File(Fop::In, Some(3))), rd(3, Dup(true, Darg::Close))]),
                    reg(vec![rd(4, Dup(true, Darg::Fd(0)))]),
                    Item::Cmd(Kind::ExecFail, 0, vec![rd(5, File(Fop::In, Some(5)))]),
                    reg(vec![]),
                ],
            ),
        ];
        // random scripts rich in these constructs
        let nrand = args.scale(6, 60);
        let mut rand_templates = vec![];
        for k in 0..nrand {
            let mut r = rng.fork(700_000 + k as u64);
            let mut items = vec![];
            let mut dots = 0usize;
            let n = 3 + r.below(4);
            for _ in 0..n {
                let it = match r.below(10) {
                    0..=3 => {
                        let via = r.chance(3, 4);
                        let redirs = if r.chance(1, 2) { random_redirs(&mut r, 2, false) } else { vec![] };
                        if dots < 4 && r.chance(5, 6) {
                            dots += 1;
                            let nb = r.below(3);
                            let body = random_items_at(&mut r, nb, false, 1, &mut dots);
                            Item::Dot(via, redirs, DotTarget::Script(dots - 1 - count_dots(&body)), body)
                        } else {
                            Item::Dot(via, redirs, DotTarget::Missing, vec![])
                        }
                    }
                    4..=5 => Item::Subst(Kind::Regular, random_redirs(&mut r, 2, false)),
                    6..=7 => Item::Pipe(2 + r.below(3)),
                    8 => Item::Cmd(Kind::ExecFail, r.below(4), random_redirs(&mut r, 2, false)),
                    _ => Item::Cmd(Kind::Regular, r.below(60), random_redirs(&mut r, 3, false)),
                };
                items.push(it);
            }
            rand_templates.push(items);
        }
        for items in rand_templates {
            templates.push(("random", items));
        }
        for (ti, (name, items)) in templates.iter().enumerate() {
            for l in 3..=16u64 {
                let stream = format!("own-descriptors:{name}");
                // limit set by the script
                let mut it = vec![Item::Limit(Some(l))];
                it.extend(items.iter().cloned());
                let quick_slice = args.thorough() || (l as usize + ti) % 2 == 0 || *name == "dot";
                if quick_slice {
                    e.emit(&stream, &std_init(), &it, &CMD, &[]);
                }
                if *name == "exec-with-operand" || (args.thorough() && l % 3 == 0) {
                    e.emit(&stream, &std_init(), &it, &INTERACTIVE, &[]);
                }
                // limit in force from the start: the shell opens its own script
                if args.thorough() || (l as usize + ti) % 2 == 1 {
                    let ctx = Ctx { script_file: true, startup_limit: Some(l), interactive: false, marker: false };
                    e.emit(&stream, &std_init(), items, &ctx, &[]);
                }
            }
            // no limit at all
            e.emit(&format!("own-descriptors:{name}"), &std_init(), items, &CMD, &[]);
            e.emit(&format!("own-descriptors:{name}"), &std_init(), items, &INTERACTIVE, &[]);
        }
    }
    // 2d. every allocation step of `perform` made to fail by the limit: lists
    //     of 1-3 redirections that succeed when nothing constrains allocation
    //     (every operator; open and closed targets), on the kinds of command
    //     that do not end the shell, under limits that cut off the saving dup
    //     (no slot at 10 or above), the open / the here-document file (no slot
    //     at all), the dup2 onto the target (target at or above the limit), the
    //     second and the third saving dup - started from a command string, from
    //     a script file (descriptor 10 in use) and with descriptors 3-9 taken
    failure_point_stream(&mut e, &args);
    // 3. random scripts
    let n = args.scale(260, 8000);
    for k in 0..n {
        let mut r = rng.fork(k as u64);
        let init = random_init(&mut r);
        let len = 2 + r.below(if args.thorough() { 9 } else { 6 });
        let items = random_items(&mut r, len, true);
        let ctx = match r.below(8) {
            0..=3 => CMD,
            4..=5 => FILE,
            6 => Ctx { script_file: true, startup_limit: Some(r.range(11, 16) as u64), interactive: false, marker: false },
            _ => INTERACTIVE,
        };
        e.emit("random", &init, &items, &ctx, &[]);
    }
    // 4. long redirection lists on one command (the stack of saved descriptors)
    let n = args.scale(60, 1500);
    for k in 0..n {
        let mut r = rng.fork(500_000 + k as u64);
        let init = random_init(&mut r);
        let mut items = vec![];
        if r.chance(1, 2) {
            items.push(Item::Limit(Some(r.range(11, 15) as u64)));
        }
        if r.chance(1, 3) {
            items.push(Item::Noclobber(true));
        }
        for _ in 0..2 {
            let nr = 4 + r.below(7);
            let srcs: Vec<u64> = (0..8).map(|_| random_fd(&mut r, true)).collect();
            let redirs = (0..nr)
                .map(|_| Redir { fd: random_fd(&mut r, true), body: random_body(&mut r, &srcs), explicit: true })
                .collect();
            items.push(Item::Cmd(random_kind(&mut r), r.below(60), redirs));
        }
        let ctx = if r.chance(1, 2) { FILE } else { CMD };
        e.emit("long-lists", &init, &items, &ctx, &[]);
    }
    // 5. noclobber through symbolic links, on the real OS
    link_stream(&mut e, args.seed);
    let discarded = e.discarded;
    e.w.finish(&format!(
        "scripts of commands (8 kinds) with redirection lists, limit changes and noclobber switches on the \
         simulated OS; the descriptor table is observed before, inside and after every command. \
         non-trivial = at least one command body ran under redirections and (a redirection list was refused \
         or two or more descriptors were saved at once); distinct = by script text. \
         {discarded} generated scripts were dropped because they lowered the limit below an open descriptor"
    ));
}
