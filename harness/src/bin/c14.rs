//! C14 — data through pipes, command substitutions and here-documents.
//!
//! Four streams of cases (see coq/C14/Run.v for the Coq side):
//!
//! * A `CPipe`: system calls (`write`, `read`, `dup`, `close`, `select`) on one
//!   pipe of the real `VirtualSystem`, non-blocking, with a snapshot of the
//!   pipe's `FileBody::Fifo` after every call.
//! * B `CXfer`: `write_all` per chunk + `close` in one task and a reader
//!   (`read_all`, or `read` with generated buffer sizes) in another, on the real
//!   `Concurrent<VirtualSystem>`; the harness decides which woken task is
//!   polled next and when `peek` runs.
//! * C `CScript`: whole scripts (`emit | relay | sink`, `x=$(...)` nested,
//!   here-documents) on the simulated OS under a schedule-controlling executor.
//! * D `CStrip`: `x=$(put 'text')` for explicit texts (code points).
#[path = "c13_sched.rs"]
mod sched;

use futures_util::FutureExt as _;
use sched::{Policy, Sched, run_shell_sched};
use std::cell::{Cell, RefCell};
use std::panic::{AssertUnwindSafe, catch_unwind};
use std::rc::Rc;
use std::time::Duration;
use yash_env::builtin::{Builtin, Type};
use yash_env::io::Fd;
use yash_env::semantics::{ExitStatus, Field};
use yash_env::system::concurrency::{ReadAll as _, Select as _, WriteAll as _};
use yash_env::system::r#virtual::fd_set::FdSet as VFdSet;
use yash_env::system::r#virtual::{FileBody, Inode, PIPE_BUF, PIPE_SIZE, VirtualSystem};
use yash_env::system::{
    Close as _, Concurrent, Dup as _, Errno, Fcntl as _, FdSet as _, Pipe as _, Read as _,
    Select as _, Write as _,
};
use yv_harness::cli::Args;
use yv_harness::out::CasesWriter;
use yv_harness::rng::Rng;
use yv_harness::vsh::{self, BuiltinFuture, RunOpts, TraceItem, VEnv};
use yv_harness::{coq, json_str};

// ---------------------------------------------------------------------------
// payloads and checksums (the same definitions as in coq/C14/Spec.v)

#[derive(Clone, Debug, PartialEq, Eq)]
struct Digest(usize, u128, u128);

fn digest_of(l: &[u32]) -> Digest {
    let (mut s1, mut s2, mut s3) = (0u128, 0u128, 0u128);
    for b in l {
        s1 += *b as u128 + 1;
        s2 += s1;
        s3 += s2;
    }
    Digest(l.len(), s2, s3)
}
fn digest_bytes(l: &[u8]) -> Digest {
    let v: Vec<u32> = l.iter().map(|b| *b as u32).collect();
    digest_of(&v)
}
impl Digest {
    fn coq(&self) -> String {
        format!("({}, {}%N, {}%N)", coq::nat(self.0), self.1, self.2)
    }
}

fn gen_byte(k: u64, i: u64) -> u8 {
    let x = (i * i + 7 * i * k + 13 * k + 5) % 251;
    if x % 9 == 0 { 10 } else { (33 + x % 90) as u8 }
}
fn gen_payload(n: usize, k: u64, t: usize) -> Vec<u8> {
    let mut v: Vec<u8> = (0..n as u64).map(|i| gen_byte(k, i)).collect();
    v.extend(std::iter::repeat_n(10u8, t));
    v
}

/// Consecutive test bytes `(start + i) mod 251`.
fn sq(start: usize, len: usize) -> Vec<u8> {
    (0..len).map(|i| ((start + i) % 251) as u8).collect()
}
/// Coq term for bytes: `sq start len` when they are consecutive test bytes.
fn coq_bytes(b: &[u8]) -> String {
    if b.is_empty() {
        return "(@nil N)".into();
    }
    let start = b[0] as usize;
    if b.len() >= 4 && start < 251 && sq(start, b.len()) == b {
        format!("(sq {} {})", coq::n(start as u64), coq::nat(b.len()))
    } else {
        coq::bytes(b)
    }
}

fn cfg_term() -> String {
    format!("(mkCfg {} {})", coq::nat(PIPE_BUF), coq::nat(PIPE_SIZE))
}

/// Interesting sizes around every boundary of the pipe.
fn boundary_sizes() -> Vec<usize> {
    let mut v = vec![0, 1, 2, 3];
    for m in [PIPE_BUF, PIPE_SIZE, PIPE_SIZE + PIPE_BUF, 2 * PIPE_SIZE, 3 * PIPE_SIZE, 4 * PIPE_SIZE] {
        for d in [-2i64, -1, 0, 1, 2] {
            let x = m as i64 + d;
            if x >= 0 {
                v.push(x as usize);
            }
        }
    }
    v.sort();
    v.dedup();
    v
}

fn pick_size(r: &mut Rng, max: usize) -> usize {
    let b = boundary_sizes();
    loop {
        let x = match r.below(10) {
            0..=4 => *r.pick(&b),
            5..=6 => r.below(16),
            7 => r.below(PIPE_BUF + 2),
            _ => r.below(max + 1),
        };
        if x <= max {
            return x;
        }
    }
}

// ---------------------------------------------------------------------------
// Stream A: system calls on one pipe

#[derive(Clone, Debug)]
enum POp {
    Write(Vec<u8>),
    Read(usize),
    DupW,
    DupR,
    CloseW,
    CloseR,
    Poll,
}

fn fifo_snapshot(inode: &Rc<RefCell<Inode>>) -> (Vec<u8>, usize, usize) {
    match &inode.borrow().body {
        FileBody::Fifo { content, readers, writers, .. } => {
            (content.iter().copied().collect(), *readers, *writers)
        }
        _ => panic!("not a fifo"),
    }
}

thread_local! {
    static WATCHDOG: sched::Watchdog = sched::Watchdog::start(Duration::from_secs(60));
}

fn stream_a_case(w: &mut CasesWriter, r: &mut Rng, nops: usize, forced: Option<Vec<POp>>) {
    WATCHDOG.with(|wd| wd.tick("stream A"));
    let system = VirtualSystem::new();
    let (rfd, wfd) = system.pipe().unwrap();
    system.get_and_set_nonblocking(rfd, true).unwrap();
    system.get_and_set_nonblocking(wfd, true).unwrap();
    let inode = system.with_open_file_description(rfd, |ofd| Ok(Rc::clone(ofd.inode()))).unwrap();
    let mut rfds = vec![rfd];
    let mut wfds = vec![wfd];
    let mut counter = r.below(251);
    let mut hist = vec![];
    let mut human = vec![];
    let mut total_written = 0usize;
    let mut saw_partial = false;
    let mut saw_again = false;
    let mut saw_eof = false;
    let forced_len = forced.as_ref().map(|f| f.len());
    let mut forced_it = forced.map(|f| f.into_iter());
    let n = forced_len.unwrap_or(nops);
    for _ in 0..n {
        if rfds.is_empty() && wfds.is_empty() {
            break;
        }
        // choose an operation that is possible
        let op = if let Some(it) = forced_it.as_mut() {
            it.next().unwrap()
        } else {
            loop {
                let c = r.below(100);
                let op = match c {
                    0..=37 => {
                        let len = pick_size(r, 2 * PIPE_SIZE + 5);
                        POp::Write(sq(counter, len))
                    }
                    38..=72 => POp::Read(match r.below(8) {
                        0 => 0,
                        1 => 1,
                        2 => 1 + r.below(16),
                        3 => PIPE_BUF,
                        4 => PIPE_SIZE,
                        5 => PIPE_SIZE + 1 + r.below(64),
                        _ => pick_size(r, 2 * PIPE_SIZE).max(1),
                    }),
                    73..=76 => POp::DupW,
                    77..=79 => POp::DupR,
                    80..=84 => POp::CloseW,
                    85..=87 => POp::CloseR,
                    _ => POp::Poll,
                };
                let ok = match op {
                    POp::Write(_) | POp::DupW | POp::CloseW => !wfds.is_empty(),
                    POp::Read(_) | POp::DupR | POp::CloseR => !rfds.is_empty(),
                    POp::Poll => !wfds.is_empty() && !rfds.is_empty(),
                };
                let dup_ok = match op {
                    POp::DupW => wfds.len() < 4,
                    POp::DupR => rfds.len() < 4,
                    _ => true,
                };
                if ok && dup_ok {
                    break op;
                }
            }
        };
        let (op_t, obs_t, desc) = match &op {
            POp::Write(data) => {
                let fd = wfds[r.below(wfds.len())];
                let res = system.write(fd, data).now_or_never();
                let (t, d) = match res {
                    Some(Ok(n)) => {
                        counter = (counter + n) % 251;
                        total_written += n;
                        if n < data.len() {
                            saw_partial = true;
                        }
                        (format!("(WOk {})", coq::nat(n)), format!("ok {n}"))
                    }
                    Some(Err(Errno::EAGAIN)) => {
                        saw_again = true;
                        ("WAgain".to_string(), "EAGAIN".to_string())
                    }
                    Some(Err(Errno::EPIPE)) => ("WEpipe".to_string(), "EPIPE".to_string()),
                    Some(Err(e)) => ("WPanic".to_string(), format!("error {e:?}")),
                    None => ("WPanic".to_string(), "pending".to_string()),
                };
                (
                    format!("(OWrite {})", coq_bytes(data)),
                    format!("(BW {t})"),
                    format!("write({}) -> {d}", data.len()),
                )
            }
            POp::Read(cap) => {
                let fd = rfds[r.below(rfds.len())];
                let mut buf = vec![0u8; *cap];
                let res = system.read(fd, &mut buf).now_or_never();
                let (t, d) = match res {
                    Some(Ok(n)) => {
                        if n == 0 && *cap > 0 {
                            saw_eof = true;
                        }
                        (format!("(ROk {})", coq_bytes(&buf[..n])), format!("ok {n}"))
                    }
                    Some(Err(Errno::EAGAIN)) => {
                        saw_again = true;
                        ("RAgain".to_string(), "EAGAIN".to_string())
                    }
                    // anything else is outside the observation type: make the oracle reject it
                    Some(Err(e)) => ("(ROk [999%N])".to_string(), format!("error {e:?}")),
                    None => ("(ROk [998%N])".to_string(), "pending".to_string()),
                };
                (format!("(ORead {})", coq::nat(*cap)), format!("(BR {t})"), format!("read({cap}) -> {d}"))
            }
            POp::DupW => {
                let fd = system.dup(wfds[0], Fd(0), Default::default()).unwrap();
                wfds.push(fd);
                ("ODupW".into(), "BUnit".into(), "dup(w)".into())
            }
            POp::DupR => {
                let fd = system.dup(rfds[0], Fd(0), Default::default()).unwrap();
                rfds.push(fd);
                ("ODupR".into(), "BUnit".into(), "dup(r)".into())
            }
            POp::CloseW => {
                let fd = wfds.remove(r.below(wfds.len()));
                system.close(fd).unwrap();
                ("OCloseW".into(), "BUnit".into(), "close(w)".into())
            }
            POp::CloseR => {
                let fd = rfds.remove(r.below(rfds.len()));
                system.close(fd).unwrap();
                ("OCloseR".into(), "BUnit".into(), "close(r)".into())
            }
            POp::Poll => {
                let mut readers = VFdSet::from_fds([rfds[0]]);
                let mut writers = VFdSet::from_fds([wfds[0]]);
                let res = system
                    .select(&mut readers, &mut writers, Some(Duration::ZERO), None)
                    .now_or_never();
                let (rr, ww) = match res {
                    Some(Ok(_)) => (readers.contains(rfds[0]), writers.contains(wfds[0])),
                    _ => (false, false),
                };
                (
                    "OPoll".into(),
                    format!("(BPoll {} {})", coq::b(rr), coq::b(ww)),
                    format!("select -> r={rr} w={ww}"),
                )
            }
        };
        let (content, readers, writers) = fifo_snapshot(&inode);
        let snap = format!(
            "({}, {}, {})",
            digest_bytes(&content).coq(),
            coq::b(readers > 0),
            coq::b(writers > 0)
        );
        hist.push(format!("({op_t}, {obs_t}, {snap})"));
        human.push(format!("{desc} [len={} r={readers} w={writers}]", content.len()));
        w.count(match op {
            POp::Write(_) => "A.op:write",
            POp::Read(_) => "A.op:read",
            POp::DupW | POp::DupR => "A.op:dup",
            POp::CloseW | POp::CloseR => "A.op:close",
            POp::Poll => "A.op:select",
        });
    }
    if saw_partial {
        w.count("A.case:partial-write");
    }
    if saw_again {
        w.count("A.case:would-block");
    }
    if saw_eof {
        w.count("A.case:eof");
    }
    w.count(if total_written > PIPE_SIZE { "A.bytes:>PIPE_SIZE" } else { "A.bytes:<=PIPE_SIZE" });
    let term = format!("(CPipe {} {})", cfg_term(), coq::list(&hist));
    let json = format!(
        "{{\"stream\":\"A\",\"ops\":[{}]}}",
        human.iter().map(|h| json_str(h)).collect::<Vec<_>>().join(",")
    );
    let key = if total_written > PIPE_BUF && (saw_partial || saw_again) {
        Some(format!("A:{}", human.join(";")))
    } else {
        None
    };
    w.push(&term, &json, &[], key);
}

// ---------------------------------------------------------------------------
// Stream F: the blocking-mode write (poll_write_full) through the system API

fn stream_f_case(w: &mut CasesWriter, r: &mut Rng, nops: usize) {
    use std::future::Future;
    use std::pin::Pin;
    use std::task::{Context, Poll, Waker};
    WATCHDOG.with(|wd| wd.tick("stream F"));
    let system = VirtualSystem::new();
    let (rfd, wfd) = system.pipe().unwrap();
    system.get_and_set_nonblocking(rfd, true).unwrap(); // only the read end; the write end blocks
    let inode = system.with_open_file_description(rfd, |ofd| Ok(Rc::clone(ofd.inode()))).unwrap();
    let mut counter = r.below(251);
    let mut pending: Option<Pin<Box<dyn Future<Output = Result<usize, Errno>>>>> = None;
    let mut reader_open = true;
    let mut hist = vec![];
    let mut human = vec![];
    let mut saw_pending = false;
    let mut cx = Context::from_waker(Waker::noop());
    for _ in 0..nops {
        let choice = r.below(100);
        let (op_t, obs_t, desc) = if pending.is_none() && choice < 45 {
            let len = pick_size(r, 3 * PIPE_SIZE + 5);
            let data = sq(counter, len);
            counter = (counter + len) % 251;
            let sys = system.clone();
            let d2 = data.clone();
            let mut fut: Pin<Box<dyn Future<Output = Result<usize, Errno>>>> =
                Box::pin(async move { sys.write(wfd, &d2).await });
            let res = fut.as_mut().poll(&mut cx);
            let t = match res {
                Poll::Ready(Ok(n)) => format!("(BReady {})", coq::nat(n)),
                Poll::Ready(Err(_)) => "BErr".to_string(),
                Poll::Pending => {
                    pending = Some(fut);
                    saw_pending = true;
                    "BPending".to_string()
                }
            };
            (format!("(FStart {})", coq_bytes(&data)), format!("(FoW {t})"), format!("write({len}) -> {t}"))
        } else if pending.is_some() && choice < 40 {
            let mut fut = pending.take().unwrap();
            let res = fut.as_mut().poll(&mut cx);
            let t = match res {
                Poll::Ready(Ok(n)) => format!("(BReady {})", coq::nat(n)),
                Poll::Ready(Err(_)) => "BErr".to_string(),
                Poll::Pending => {
                    pending = Some(fut);
                    "BPending".to_string()
                }
            };
            ("FPoll".to_string(), format!("(FoW {t})"), format!("poll -> {t}"))
        } else if reader_open && choice < 95 {
            let cap = match r.below(5) {
                0 => 1,
                1 => PIPE_BUF,
                2 => PIPE_SIZE,
                _ => 1 + pick_size(r, 2 * PIPE_SIZE),
            };
            let mut buf = vec![0u8; cap];
            let res = system.read(rfd, &mut buf).now_or_never();
            let t = match res {
                Some(Ok(n)) => format!("(ROk {})", coq_bytes(&buf[..n])),
                Some(Err(Errno::EAGAIN)) => "RAgain".to_string(),
                _ => "(ROk [999%N])".to_string(),
            };
            (format!("(FReadN {})", coq::nat(cap)), format!("(FoR {t})"), format!("read({cap})"))
        } else if reader_open && choice >= 98 {
            system.close(rfd).unwrap();
            reader_open = false;
            ("FCloseRd".to_string(), "FoUnit".to_string(), "close(r)".to_string())
        } else {
            continue;
        };
        let (content, readers, writers) = fifo_snapshot(&inode);
        let snap = format!("({}, {}, {})", digest_bytes(&content).coq(), coq::b(readers > 0), coq::b(writers > 0));
        hist.push(format!("({op_t}, {obs_t}, {snap})"));
        human.push(format!("{desc} [len={}]", content.len()));
    }
    drop(pending);
    let term = format!("(CBlock {} {})", cfg_term(), coq::list(&hist));
    let json = format!(
        "{{\"stream\":\"F\",\"ops\":[{}]}}",
        human.iter().map(|h| json_str(h)).collect::<Vec<_>>().join(",")
    );
    w.count(if saw_pending { "F.case:write-blocked" } else { "F.case:never-blocked" });
    let key = if saw_pending { Some(format!("F:{}", human.join(";"))) } else { None };
    w.push(&term, &json, &[], key);
}

// ---------------------------------------------------------------------------
// Stream B: write_all / read_all (or read) tasks under a chosen schedule

#[derive(Clone, Debug)]
enum ReaderKind {
    ReadAll,
    Caps(Vec<usize>, usize),
}

fn stream_b_case(w: &mut CasesWriter, r: &mut Rng, chunks: Vec<Vec<u8>>, reader: ReaderKind, style: usize) {
    stream_b_case_with(w, r, chunks, reader, style, &[]);
}

/// `style` 4: the choices are replayed from `prefix` (then the first option); the
/// path of (choice, number of options) is returned for depth-first enumeration.
fn stream_b_case_with(
    w: &mut CasesWriter,
    r: &mut Rng,
    chunks: Vec<Vec<u8>>,
    reader: ReaderKind,
    style: usize,
    prefix: &[usize],
) -> Vec<(usize, usize)> {
    WATCHDOG.with(|wd| wd.tick(&format!("stream B: chunks {:?} reader {reader:?} style {style}", chunks.iter().map(|c| c.len()).collect::<Vec<_>>())));
    let chunks_t: Vec<String> = chunks.iter().map(|c| coq_bytes(c)).collect();
    let total: usize = chunks.iter().map(|c| c.len()).sum();
    let (caps, dflt) = match &reader {
        ReaderKind::ReadAll => (vec![], 1024 + PIPE_SIZE),
        ReaderKind::Caps(c, d) => (c.clone(), *d),
    };
    let mut acts: Vec<String> = vec![];
    let mut human: Vec<String> = vec![];
    let mut received: Vec<u8> = vec![];
    let mut stuck = false;
    let mut yields = 0usize;
    let mut rng = r.clone();
    let reader2 = reader.clone();
    let path_cell: RefCell<Vec<(usize, usize)>> = RefCell::new(vec![]);
    let result = catch_unwind(AssertUnwindSafe(|| {
        let vs = VirtualSystem::new();
        let system = Rc::new(Concurrent::new(vs.clone()));
        let (rfd, wfd) = system.pipe().unwrap();
        let inode = vs.with_open_file_description(rfd, |ofd| Ok(Rc::clone(ofd.inode()))).unwrap();
        let sched = Sched::new();
        let out: Rc<RefCell<Vec<u8>>> = Rc::new(RefCell::new(vec![]));
        let wdone = Rc::new(Cell::new(false));
        let sys_w = Rc::clone(&system);
        let wd = Rc::clone(&wdone);
        let chunks_w = chunks.clone();
        let wt = sched.add(Box::pin(async move {
            for ch in &chunks_w {
                if sys_w.write_all(wfd, ch).await.is_err() {
                    break;
                }
            }
            sys_w.close(wfd).ok();
            wd.set(true);
        }));
        let sys_r = Rc::clone(&system);
        let out_r = Rc::clone(&out);
        let rt = sched.add(Box::pin(async move {
            match reader2 {
                ReaderKind::ReadAll => {
                    let mut buf = vec![];
                    let _ = sys_r.read_all_to(rfd, &mut buf).await;
                    *out_r.borrow_mut() = buf;
                }
                ReaderKind::Caps(caps, dflt) => {
                    let mut it = caps.into_iter();
                    loop {
                        let cap = it.next().unwrap_or(dflt);
                        let mut buf = vec![0u8; cap];
                        match sys_r.read(rfd, &mut buf).await {
                            Ok(0) => break,
                            Ok(n) => out_r.borrow_mut().extend_from_slice(&buf[..n]),
                            Err(_) => break,
                        }
                    }
                }
            }
        }));
        let mut steps = 0;
        let mut acts = vec![];
        let mut human = vec![];
        let mut stuck = false;
        let mut yields = 0;
        loop {
            if sched.is_done(wt) && sched.is_done(rt) {
                break;
            }
            steps += 1;
            if steps > 100_000 {
                stuck = true;
                break;
            }
            let mut options = vec![];
            if sched.is_woken(wt) {
                options.push(0);
            }
            if sched.is_woken(rt) {
                options.push(1);
            }
            let choice = if style == 4 {
                // all options, the peek last
                let mut all = options.clone();
                all.push(2);
                let step = path_cell.borrow().len();
                let k = prefix.get(step).copied().unwrap_or(0).min(all.len() - 1);
                path_cell.borrow_mut().push((k, all.len()));
                all[k]
            } else if options.is_empty() {
                2
            } else {
                match style {
                    // writer first / reader first / random / random with frequent peeks
                    0 => options[0],
                    1 => *options.last().unwrap(),
                    2 => *rng.pick(&options),
                    _ => {
                        if rng.chance(1, 3) { 2 } else { *rng.pick(&options) }
                    }
                }
            };
            let name = match choice {
                0 => {
                    sched.poll(wt);
                    "APollW"
                }
                1 => {
                    sched.poll(rt);
                    "APollR"
                }
                _ => {
                    let before = sched.is_woken(wt) || sched.is_woken(rt);
                    system.peek();
                    let after = sched.is_woken(wt) || sched.is_woken(rt);
                    if !before && !after {
                        stuck = true;
                    }
                    "APeek"
                }
            };
            if choice < 2 && !sched.is_done(if choice == 0 { wt } else { rt }) {
                yields += 1;
            }
            let (content, _, _) = fifo_snapshot(&inode);
            acts.push(format!(
                "({name}, ({}, {}, {}, {}, {}))",
                coq::nat(content.len()),
                coq::b(sched.is_woken(wt)),
                coq::b(sched.is_woken(rt)),
                coq::b(sched.is_done(wt)),
                coq::b(sched.is_done(rt))
            ));
            human.push(format!("{}:{}", &name[1..], content.len()));
            if stuck {
                break;
            }
        }
        let received = out.borrow().clone();
        sched.clear();
        (acts, human, received, stuck, yields)
    }));
    let panicked = result.is_err();
    if let Ok((a, h, rcv, s, y)) = result {
        acts = a;
        human = h;
        received = rcv;
        stuck = s;
        yields = y;
    }
    let caps_t: Vec<String> = caps.iter().map(|c| coq::nat(*c)).collect();
    let term = format!(
        "(CXfer (mkXCase {} {} {} {} {} {} {} {}))",
        cfg_term(),
        coq::list(&chunks_t),
        coq::list(&caps_t),
        coq::nat(dflt),
        coq::list(&acts),
        coq_bytes(&received),
        coq::b(stuck),
        coq::b(panicked)
    );
    let sizes: Vec<usize> = chunks.iter().map(|c| c.len()).collect();
    let json = format!(
        "{{\"stream\":\"B\",\"chunks\":{:?},\"reader\":{},\"style\":{},\"actions\":{},\"received\":{},\"stuck\":{},\"panic\":{}}}",
        sizes,
        json_str(&format!("{reader:?}")),
        style,
        json_str(&human.join(" ")),
        received.len(),
        stuck,
        panicked
    );
    w.count(&format!("B.style:{style}"));
    w.count(match reader {
        ReaderKind::ReadAll => "B.reader:read_all",
        ReaderKind::Caps(..) => "B.reader:read(cap)",
    });
    w.count(if total > PIPE_SIZE {
        "B.payload:>PIPE_SIZE"
    } else if total > PIPE_BUF {
        "B.payload:>PIPE_BUF"
    } else {
        "B.payload:<=PIPE_BUF"
    });
    let key = if total > PIPE_SIZE && yields >= 2 { Some(format!("B:{sizes:?}:{}", human.join(" "))) } else { None };
    w.push(&term, &json, &[], key);
    path_cell.into_inner()
}

fn gen_chunks(r: &mut Rng, start: usize) -> Vec<Vec<u8>> {
    let mut pos = start;
    let mut mk = |len: usize| {
        let v = sq(pos, len);
        pos = (pos + len) % 251;
        v
    };
    match r.below(6) {
        0 => vec![mk(pick_size(r, 4 * PIPE_SIZE + 2))],
        1 => {
            // equal pieces
            let total = pick_size(r, 4 * PIPE_SIZE + 2);
            let piece = *r.pick(&[1usize, 7, 100, PIPE_BUF - 1, PIPE_BUF, PIPE_BUF + 1, PIPE_SIZE, PIPE_SIZE + 1]);
            let piece = if total / piece > 64 { (total / 64).max(1) } else { piece };
            let mut v = vec![];
            let mut left = total;
            while left > 0 {
                let k = piece.min(left);
                v.push(mk(k));
                left -= k;
            }
            v
        }
        2 => vec![],
        3 => (0..1 + r.below(5)).map(|_| mk(pick_size(r, PIPE_SIZE + PIPE_BUF))).collect(),
        4 => vec![mk(0), mk(pick_size(r, 3 * PIPE_SIZE)), mk(0), mk(r.below(10))],
        _ => (0..2 + r.below(4)).map(|_| mk(r.below(PIPE_BUF + 2))).collect(),
    }
}

// ---------------------------------------------------------------------------
// Stream C: scripts

/// `emit N K T [CHUNK]`
fn emit_main(env: &mut VEnv, args: Vec<Field>) -> BuiltinFuture<'_> {
    Box::pin(async move {
        let num = |i: usize| args.get(i).and_then(|f| f.value.parse::<u64>().ok()).unwrap_or(0);
        let data = gen_payload(num(0) as usize, num(1), num(2) as usize);
        let chunk = num(3) as usize;
        let pieces: Vec<&[u8]> = if chunk == 0 { vec![&data[..]] } else { data.chunks(chunk).collect() };
        for p in pieces {
            if env.system.write_all(Fd::STDOUT, p).await.is_err() {
                return ExitStatus::FAILURE.into();
            }
        }
        ExitStatus::SUCCESS.into()
    })
}

/// `put ARG...`: writes its arguments, nothing else.
fn put_main(env: &mut VEnv, args: Vec<Field>) -> BuiltinFuture<'_> {
    Box::pin(async move {
        for a in &args {
            if env.system.write_all(Fd::STDOUT, a.value.as_bytes()).await.is_err() {
                return ExitStatus::FAILURE.into();
            }
        }
        ExitStatus::SUCCESS.into()
    })
}

/// `emitraw HEX...`: writes the bytes given in hexadecimal (not necessarily valid UTF-8).
fn emitraw_main(env: &mut VEnv, args: Vec<Field>) -> BuiltinFuture<'_> {
    Box::pin(async move {
        let mut data = vec![];
        for a in &args {
            let h = a.value.as_bytes();
            for pair in h.chunks(2) {
                if let Ok(b) = u8::from_str_radix(std::str::from_utf8(pair).unwrap_or("0"), 16) {
                    data.push(b);
                }
            }
        }
        match env.system.write_all(Fd::STDOUT, &data).await {
            Ok(()) => ExitStatus::SUCCESS.into(),
            Err(_) => ExitStatus::FAILURE.into(),
        }
    })
}

fn cap_arg(args: &[Field]) -> usize {
    args.first().and_then(|f| f.value.parse::<usize>().ok()).filter(|c| *c > 0).unwrap_or(1024)
}

/// `relay [CAP]`: copies standard input to standard output with a CAP-byte buffer.
fn relay_main(env: &mut VEnv, args: Vec<Field>) -> BuiltinFuture<'_> {
    Box::pin(async move {
        let cap = cap_arg(&args);
        let mut buffer = vec![0u8; cap];
        loop {
            match env.system.read(Fd::STDIN, &mut buffer).await {
                Ok(0) => return ExitStatus::SUCCESS.into(),
                Ok(n) => {
                    if env.system.write_all(Fd::STDOUT, &buffer[..n]).await.is_err() {
                        return ExitStatus::FAILURE.into();
                    }
                }
                Err(_) => return ExitStatus::FAILURE.into(),
            }
        }
    })
}

thread_local! {
    static SUNK: RefCell<Vec<Vec<u8>>> = const { RefCell::new(Vec::new()) };
}

/// `sink [CAP]`: reads standard input to the end and records what it got.
fn sink_main(env: &mut VEnv, args: Vec<Field>) -> BuiltinFuture<'_> {
    Box::pin(async move {
        let cap = cap_arg(&args);
        let mut buffer = vec![0u8; cap];
        let mut all = vec![];
        let st = loop {
            match env.system.read(Fd::STDIN, &mut buffer).await {
                Ok(0) => break ExitStatus::SUCCESS,
                Ok(n) => all.extend_from_slice(&buffer[..n]),
                Err(_) => break ExitStatus::FAILURE,
            }
        };
        SUNK.with(|s| s.borrow_mut().push(all));
        st.into()
    })
}

/// `sinkk K [CAP]`: reads until it has K bytes, records the first K and returns
/// without draining the rest of its input.
fn sinkk_main(env: &mut VEnv, args: Vec<Field>) -> BuiltinFuture<'_> {
    Box::pin(async move {
        let k = args.first().and_then(|f| f.value.parse::<usize>().ok()).unwrap_or(0);
        let cap = cap_arg(&args[args.len().min(1)..]);
        let mut buffer = vec![0u8; cap];
        let mut all = vec![];
        while all.len() < k {
            match env.system.read(Fd::STDIN, &mut buffer).await {
                Ok(0) => break,
                Ok(n) => all.extend_from_slice(&buffer[..n]),
                Err(_) => break,
            }
        }
        all.truncate(k);
        SUNK.with(|s| s.borrow_mut().push(all));
        ExitStatus::SUCCESS.into()
    })
}

/// `emitchunks HEX...`: writes every argument (bytes in hexadecimal) with its own
/// `write_all` and sleeps one virtual millisecond in between, so that a reader
/// can run while only a part of the data is there.
fn emitchunks_main(env: &mut VEnv, args: Vec<Field>) -> BuiltinFuture<'_> {
    Box::pin(async move {
        use yash_env::system::concurrency::Sleep as _;
        for a in &args {
            let mut data = vec![];
            for pair in a.value.as_bytes().chunks(2) {
                if let Ok(b) = u8::from_str_radix(std::str::from_utf8(pair).unwrap_or("0"), 16) {
                    data.push(b);
                }
            }
            if env.system.write_all(Fd::STDOUT, &data).await.is_err() {
                return ExitStatus::FAILURE.into();
            }
            env.system.sleep(Duration::from_millis(1)).await;
        }
        ExitStatus::SUCCESS.into()
    })
}

fn install(env: &mut VEnv) {
    env.builtins.insert("sinkk", Builtin::new(Type::Mandatory, sinkk_main));
    env.builtins.insert("emitchunks", Builtin::new(Type::Mandatory, emitchunks_main));
    env.builtins.insert("emit", Builtin::new(Type::Mandatory, emit_main));
    env.builtins.insert("put", Builtin::new(Type::Mandatory, put_main));
    env.builtins.insert("emitraw", Builtin::new(Type::Mandatory, emitraw_main));
    env.builtins.insert("relay", Builtin::new(Type::Mandatory, relay_main));
    env.builtins.insert("sink", Builtin::new(Type::Mandatory, sink_main));
}

#[derive(Clone, Debug)]
enum DExp {
    Gen(usize, u64, usize, usize), // n k t chunk
    Lit(String),
    Cat(Vec<DExp>),
    Subst(Box<DExp>),
    Pipe(Box<DExp>, usize, usize),
    Here(Box<DExp>, usize),
}

const DELIM: &str = "EOF_YV";

fn strip(mut v: Vec<u8>) -> Vec<u8> {
    while v.last() == Some(&b'\n') {
        v.pop();
    }
    v
}

impl DExp {
    fn eval(&self) -> Vec<u8> {
        match self {
            DExp::Gen(n, k, t, _) => gen_payload(*n, *k, *t),
            DExp::Lit(s) => s.as_bytes().to_vec(),
            DExp::Cat(l) => l.iter().flat_map(|e| e.eval()).collect(),
            DExp::Subst(e) => strip(e.eval()),
            DExp::Pipe(e, _, _) | DExp::Here(e, _) => e.eval(),
        }
    }
    fn coq(&self) -> String {
        match self {
            DExp::Gen(n, k, t, _) => format!("(DGen {} {} {})", coq::nat(*n), coq::n(*k), coq::nat(*t)),
            DExp::Lit(s) => format!("(DLit {})", coq::bytes(s.as_bytes())),
            DExp::Cat(l) => {
                let v: Vec<String> = l.iter().map(|e| e.coq()).collect();
                format!("(DCat {})", coq::list(&v))
            }
            DExp::Subst(e) => format!("(DSubst {})", e.coq()),
            DExp::Pipe(e, n, c) => format!("(DPipe {} {} {})", e.coq(), coq::nat(*n), coq::nat(*c)),
            DExp::Here(e, c) => format!("(DHere {} {})", e.coq(), coq::nat(*c)),
        }
    }
    /// The command that writes the value to its standard output.
    fn cmd(&self) -> String {
        match self {
            DExp::Gen(n, k, t, ch) => format!("emit {n} {k} {t} {ch}"),
            DExp::Lit(s) => format!("put {}", squote(s)),
            DExp::Cat(l) => {
                let v: Vec<String> = l.iter().map(|e| e.cmd()).collect();
                format!("{{ {}\n}}", v.join("\n"))
            }
            DExp::Subst(e) => format!("put \"$({}\n)\"", e.cmd()),
            DExp::Pipe(e, n, c) => {
                let mut s = e.cmd();
                for _ in 0..*n {
                    s.push_str(&format!(" | relay {c}"));
                }
                s
            }
            DExp::Here(e, c) => format!("{{ {}}}", heredoc_cmd(&format!("relay {c}"), &e.eval())),
        }
    }
    fn valid_here_body(&self) -> bool {
        let v = self.eval();
        (v.is_empty() || v.last() == Some(&b'\n'))
            && !String::from_utf8_lossy(&v).lines().any(|l| l == DELIM)
    }
    fn depth(&self) -> usize {
        match self {
            DExp::Gen(..) | DExp::Lit(_) => 0,
            DExp::Cat(l) => l.iter().map(|e| e.depth()).max().unwrap_or(0),
            DExp::Subst(e) => 1 + e.depth(),
            DExp::Pipe(e, _, _) | DExp::Here(e, _) => e.depth(),
        }
    }
}

fn squote(s: &str) -> String {
    format!("'{}'", s.replace('\'', "'\\''"))
}

fn heredoc_cmd(cmd: &str, body: &[u8]) -> String {
    format!("{cmd} <<'{DELIM}'\n{}{DELIM}\n", String::from_utf8_lossy(body))
}

#[derive(Clone, Debug)]
enum Route {
    Pipe(usize, usize), // stages, cap  (the chunk size is the producer's)
    Head(usize, usize, usize), // stages, k, cap: the last command quits after k bytes
    Var,
    Here(usize),
}

fn gen_leaf(r: &mut Rng, max: usize) -> DExp {
    let n = pick_size(r, max);
    let t = *r.pick(&[0usize, 0, 1, 1, 2, 5]);
    let chunk = *r.pick(&[0usize, 0, 0, 1, 7, PIPE_BUF - 1, PIPE_BUF, PIPE_BUF + 1, PIPE_SIZE, PIPE_SIZE + 1, 3000]);
    let chunk = if chunk != 0 && n / chunk > 200 { 0 } else { chunk };
    DExp::Gen(n, r.below(1000) as u64, t, chunk)
}

fn gen_dexp(r: &mut Rng, depth: usize, max: usize) -> DExp {
    if depth == 0 {
        return match r.below(8) {
            0 => DExp::Lit(
                (*r.pick(&["", "\n", "a", "a\n", "\n\na\n\n", "x y\n\nz", "end\\", "$HOME `x` \"q\"\n"])).to_string(),
            ),
            _ => gen_leaf(r, max),
        };
    }
    match r.below(10) {
        0..=3 => DExp::Subst(Box::new(gen_dexp(r, depth - 1, max))),
        4..=5 => {
            let k = 2 + r.below(2);
            DExp::Cat((0..k).map(|_| gen_dexp(r, depth - 1, max / 2)).collect())
        }
        6..=7 => DExp::Pipe(
            Box::new(gen_dexp(r, depth - 1, max)),
            1 + r.below(3),
            *r.pick(&[1024usize, 1, 100, PIPE_BUF, PIPE_SIZE + 1]),
        ),
        8 => {
            let e = DExp::Gen(pick_size(r, max), r.below(1000) as u64, 1 + r.below(2), 0);
            if e.valid_here_body() {
                DExp::Here(Box::new(e), *r.pick(&[1024usize, 1, 100, 4096]))
            } else {
                gen_leaf(r, max)
            }
        }
        _ => gen_dexp(r, depth - 1, max),
    }
}

fn render(e: &DExp, route: &Route) -> String {
    match route {
        Route::Pipe(stages, cap) => {
            if *stages == 0 {
                e.cmd()
            } else {
                let mut s = e.cmd();
                for _ in 1..*stages {
                    s.push_str(&format!(" | relay {cap}"));
                }
                s.push_str(&format!(" | sink {cap}"));
                s
            }
        }
        Route::Head(stages, k, cap) => {
            let mut s = e.cmd();
            for _ in 1..*stages {
                s.push_str(&format!(" | relay {cap}"));
            }
            s.push_str(&format!(" | sinkk {k} {cap}"));
            s
        }
        Route::Var => format!("x=$({}\n)\nargs \"$x\"", e.cmd()),
        Route::Here(cap) => heredoc_cmd(&format!("sink {cap}"), &e.eval()),
    }
}

fn r_cap(i: u64) -> &'static usize {
    const CAPS: [usize; 4] = [1024, 100, 513, 4096];
    &CAPS[(i % 4) as usize]
}

fn policy_of(kind: usize, seed: u64) -> (Policy, String) {
    match kind {
        0 => (Policy::First, "first".into()),
        1 => (Policy::Last, "last".into()),
        2 => (Policy::MainLast(Rng::new(seed)), format!("mainlast:{seed}")),
        3 => (Policy::MainFirst(Rng::new(seed)), format!("mainfirst:{seed}")),
        _ => (Policy::Random(Rng::new(seed)), format!("random:{seed}")),
    }
}

fn stream_c_case(w: &mut CasesWriter, e: &DExp, route: &Route, pol_kind: usize, pol_seed: u64) {
    let (policy, pol_name) = policy_of(pol_kind, pol_seed);
    stream_c_case_with(w, e, route, policy, pol_name);
}

/// Initial descriptor layouts of the shell (which low descriptors are free
/// decides where `pipe` puts its ends and what PipeSet::move_to_stdin_stdout
/// has to move out of the way).
const PRELUDES: [&str; 9] = [
    "",
    "exec <&-",
    "exec >&-",
    "exec <&- >&-",
    "exec 2>&-",
    "exec <&- >&- 2>&-",
    "exec 3<&0 4>&1 <&- >&-",
    "exec 3>&2 2>&- <&-",
    "exec 0>&2 1<&2",
];

thread_local! {
    static PRELUDE: Cell<usize> = const { Cell::new(0) };
}

/// Returns the path of scheduling choices (for depth-first enumeration).
fn stream_c_case_with(
    w: &mut CasesWriter,
    e: &DExp,
    route: &Route,
    policy: Policy,
    pol_name: String,
) -> sched::Path {
    stream_c_full(w, e, route, policy, pol_name, None, &[])
}

/// Tag of the open finding F48 (known_findings.json): two or more asynchronous
/// writers, each writing more than the pipe holds, on one pipe.
/// Switch for the stream of several asynchronous writers on one pipe.
const WITH_SHARED_WRITERS: bool = true;
/// Several writers whose total exceeds the pipe but not each of them: deadlocks under some
/// schedules on the unchanged tree (same cause as F48, outside its registered class).
const WITH_SHARED_WRITERS_BETWEEN: bool = false;

const TAG_F48: &str = "concurrent-pipe-writers-deadlock";

/// Stream C': `x=<n times one byte>; { put $x & put $x & wait; } | sink CAP` —
/// `writers` asynchronous commands share the write end of one pipe (one open
/// file description).  Every interleaving of the writers gives the same stream
/// because all of them write the same byte.  With n > PIPE_SIZE this is the
/// class of F48 and carries its tag (and only then).
fn stream_c_writers_case(w: &mut CasesWriter, writers: usize, n: usize, cap: usize, pol_kind: usize, pol_seed: u64) {
    let (policy, pol_name) = policy_of(pol_kind, pol_seed);
    // n = 16 * 2^k is built by doubling; other sizes literally
    let assign = format!("x={}", "a".repeat(n));
    let body: Vec<String> = (0..writers).map(|_| "put $x &".to_string()).collect();
    let script = format!("{assign}\n{{ {} wait; }} | sink {cap}", body.join(" "));
    let e = DExp::Cat((0..writers).map(|_| DExp::Lit("a".repeat(n))).collect());
    let tags: &[&str] = if writers >= 2 && n > PIPE_SIZE { &[TAG_F48] } else { &[] };
    w.count(&format!("C.shared-writers:{writers}x{}", if n > PIPE_SIZE { ">PIPE_SIZE" } else { "<=PIPE_SIZE" }));
    stream_c_full(w, &e, &Route::Pipe(1, cap), policy, pol_name, Some(script), tags);
}

fn stream_c_full(
    w: &mut CasesWriter,
    e: &DExp,
    route: &Route,
    policy: Policy,
    pol_name: String,
    script_override: Option<String>,
    tags: &[&str],
) -> sched::Path {
    let prelude = match route {
        Route::Pipe(0, _) => "",
        _ if script_override.is_some() => "",
        _ => PRELUDES[PRELUDE.with(|p| p.get())],
    };
    let script = match script_override {
        Some(s) => s,
        None if prelude.is_empty() => render(e, route),
        None => format!("{prelude}\n{}", render(e, route)),
    };
    if !prelude.is_empty() {
        w.count(&format!("C.descriptors:{prelude}"));
    }
    WATCHDOG.with(|wd| wd.tick(&script));
    SUNK.with(|s| s.borrow_mut().clear());
    let (o, info) = run_shell_sched(
        RunOpts { argv: vec!["-c".into(), script.clone()], ..Default::default() },
        |env, _| install(env),
        policy,
        400_000,
    );
    let sunk: Vec<Vec<u8>> = SUNK.with(|s| std::mem::take(&mut *s.borrow_mut()));
    // what the observer received
    let got: Option<Vec<u32>> = match route {
        Route::Pipe(0, _) => Some(o.stdout.bytes().map(|b| b as u32).collect()),
        Route::Pipe(..) | Route::Here(_) | Route::Head(..) => {
            if sunk.len() == 1 { Some(sunk[0].iter().map(|b| *b as u32).collect()) } else { None }
        }
        Route::Var => {
            let a: Vec<&TraceItem> = o.trace.iter().filter(|t| t.kind == "args" && t.in_main).collect();
            if a.len() == 1 && a[0].args.len() == 1 {
                Some(a[0].args[0].chars().map(|c| c as u32).collect())
            } else {
                None
            }
        }
    };
    let leftover = info.children.iter().filter(|(_, alive, unreaped)| *alive || *unreaped).count();
    let route_t = match route {
        Route::Pipe(s, c) => {
            let chunk = 0; // the producer's chunking is part of the expression
            format!("(RPipe {} {} {})", coq::nat(*s), coq::nat(chunk), coq::nat(*c))
        }
        Route::Head(s, k, c) => format!("(RHead {} {} {})", coq::nat(*s), coq::nat(*k), coq::nat(*c)),
        Route::Var => "RVar".to_string(),
        Route::Here(c) => format!("(RHere {})", coq::nat(*c)),
    };
    let exact = match &got {
        Some(g) if g.len() <= 96 => {
            let v: Vec<String> = g.iter().map(|c| c.to_string()).collect();
            if v.is_empty() { "(Some (@nil N))".to_string() } else { format!("(Some [{}]%N)", v.join("; ")) }
        }
        _ => "None".to_string(),
    };
    let term = format!(
        "(CScript {} {} {} (mkSObs {} {} {} {} {} {}))",
        cfg_term(),
        e.coq(),
        route_t,
        coq::opt(got.as_ref().map(|g| digest_of(g).coq())),
        exact,
        coq::z(o.status as i128),
        coq::b(o.deadlock || o.timeout),
        coq::b(o.panicked.is_some()),
        coq::nat(leftover)
    );
    let json = format!(
        "{{\"stream\":\"C\",\"script\":{},\"policy\":{},\"received_len\":{},\"expected_len\":{},\"status\":{},\"deadlock\":{},\"timeout\":{},\"panic\":{},\"children\":{},\"polls\":{},\"stderr\":{}}}",
        json_str(&if script.len() > 600 { format!("{}...", &script[..600]) } else { script.clone() }),
        json_str(&pol_name),
        got.as_ref().map_or(-1, |g| g.len() as i64),
        e.eval().len(),
        o.status,
        o.deadlock,
        o.timeout,
        json_str(&o.panicked.clone().unwrap_or_default()),
        json_str(&format!("{:?}", info.children)),
        info.polled.len(),
        json_str(&o.stderr.chars().take(200).collect::<String>())
    );
    w.count(match route {
        Route::Pipe(0, _) => "C.route:file",
        Route::Pipe(1, _) => "C.route:pipe-1",
        Route::Pipe(2, _) => "C.route:pipe-2",
        Route::Pipe(..) => "C.route:pipe-3+",
        Route::Head(..) => "C.route:early-exiting consumer",
        Route::Var => "C.route:command-substitution",
        Route::Here(_) => "C.route:here-document",
    });
    w.count(&format!("C.nesting:{}", e.depth()));
    w.count(&format!("C.policy:{}", pol_name.split(':').next().unwrap()));
    let total = e.eval().len();
    w.count(if total > 2 * PIPE_SIZE {
        "C.payload:>2xPIPE_SIZE"
    } else if total > PIPE_SIZE {
        "C.payload:>PIPE_SIZE"
    } else if total > PIPE_BUF {
        "C.payload:>PIPE_BUF"
    } else {
        "C.payload:<=PIPE_BUF"
    });
    let key = if total > PIPE_SIZE && info.branch_free() > 0 {
        Some(format!("C:{}:{}:{:?}", script.len(), digest_bytes(script.as_bytes()).1, info.path))
    } else {
        None
    };
    w.push(&term, &json, tags, key);
    info.path
}

trait BranchInfo {
    fn branch_free(&self) -> usize;
}
impl BranchInfo for sched::SchedInfo {
    /// scheduling points with more than one runnable task
    fn branch_free(&self) -> usize {
        self.path.iter().filter(|(_, n)| *n > 1).count()
    }
}

// ---------------------------------------------------------------------------
// Stream D: trailing newlines of explicit texts through `$(...)`

fn stream_d_case(w: &mut CasesWriter, text: &str) {
    let script = format!("x=$(put {}\n)\nargs \"$x\"", squote(text));
    WATCHDOG.with(|wd| wd.tick(&script));
    let (o, _) = vsh::run_shell(
        RunOpts { argv: vec!["-c".into(), script.clone()], ..Default::default() },
        |env, _| install(env),
    );
    let a: Vec<&TraceItem> = o.trace.iter().filter(|t| t.kind == "args").collect();
    let out = if a.len() == 1 && a[0].args.len() == 1 { a[0].args[0].clone() } else { "\u{1}unobserved".to_string() };
    let term = format!("(CStrip {} {})", coq::s(text), coq::s(&out));
    let json = format!(
        "{{\"stream\":\"D\",\"text\":{},\"value\":{},\"status\":{}}}",
        json_str(text),
        json_str(&out),
        o.status
    );
    let tr = text.len() - text.trim_end_matches('\n').len();
    w.count(&format!("D.trailing-newlines:{}", tr.min(3)));
    let key = if tr > 0 && text.trim_end_matches('\n').contains('\n') { Some(format!("D:{text}")) } else { None };
    w.push(&term, &json, &[], key);
}

// ---------------------------------------------------------------------------
// Stream E: command substitution of raw bytes (not necessarily valid UTF-8)

fn stream_e_case(w: &mut CasesWriter, bytes: &[u8]) {
    let hex: String = bytes.iter().map(|b| format!("{b:02x}")).collect();
    let script = format!("x=$(emitraw {hex}\n)\nargs \"$x\"");
    WATCHDOG.with(|wd| wd.tick(&script));
    let (o, _) = vsh::run_shell(
        RunOpts { argv: vec!["-c".into(), script.clone()], ..Default::default() },
        |env, _| install(env),
    );
    let a: Vec<&TraceItem> = o.trace.iter().filter(|t| t.kind == "args").collect();
    let out = if a.len() == 1 && a[0].args.len() == 1 { a[0].args[0].clone() } else { "\u{1}unobserved".to_string() };
    // what the standard library's lossy decoder makes of the bytes
    let std_decoded = String::from_utf8_lossy(bytes).into_owned();
    let term = format!("(CRaw {} {} {})", coq::bytes(bytes), coq::s(&std_decoded), coq::s(&out));
    let json = format!(
        "{{\"stream\":\"E\",\"bytes\":{},\"value\":{},\"status\":{}}}",
        json_str(&hex),
        json_str(&out),
        o.status
    );
    let valid = std::str::from_utf8(bytes).is_ok();
    w.count(if valid { "E.bytes:valid-utf8" } else { "E.bytes:invalid-utf8" });
    let tr = bytes.iter().rev().take_while(|b| **b == b'\n').count();
    w.count(&format!("E.trailing-newlines:{}", tr.min(3)));
    let key = if !valid && tr > 0 { Some(format!("E:{hex}")) } else { None };
    w.push(&term, &json, &[], key);
}

// ---------------------------------------------------------------------------
// Stream G: the `read` built-in on a pipe whose writer splits multi-byte characters

/// `chunks`: the pieces the writer writes (one write_all each, a sleep in between).
fn stream_g_case(w: &mut CasesWriter, chunks: &[Vec<u8>], pol_kind: usize, pol_seed: u64, early_tick: bool) {
    let hex: Vec<String> =
        chunks.iter().filter(|c| !c.is_empty()).map(|c| c.iter().map(|b| format!("{b:02x}")).collect()).collect();
    let script = format!("emitchunks {} | {{ read -r a; read -r b; args \"$a\" \"$b\"; }}", hex.join(" "));
    let all: Vec<u8> = chunks.concat();
    let (policy, pol_name) = policy_of(pol_kind, pol_seed);
    WATCHDOG.with(|wd| wd.tick(&script));
    sched::EARLY_TICK.store(early_tick, std::sync::atomic::Ordering::SeqCst);
    let (o, info) = run_shell_sched(
        RunOpts { argv: vec!["-c".into(), script.clone()], ..Default::default() },
        |env, _| install(env),
        policy,
        400_000,
    );
    sched::EARLY_TICK.store(true, std::sync::atomic::Ordering::SeqCst);
    let a: Vec<&TraceItem> = o.trace.iter().filter(|t| t.kind == "args").collect();
    let leftover = info.children.iter().filter(|(_, alive, unreaped)| *alive || *unreaped).count();
    let (va, vb) = if a.len() == 1 && a[0].args.len() == 2 && !o.deadlock && !o.timeout && leftover == 0 {
        (a[0].args[0].clone(), a[0].args[1].clone())
    } else {
        ("\u{1}unobserved".to_string(), String::new())
    };
    let term = format!("(CRead {} {} {})", coq::bytes(&all), coq::s(&va), coq::s(&vb));
    let short = |x: &str| -> String {
        let n = x.chars().count();
        if n > 40 {
            format!("{}...[{} chars]...{}", x.chars().take(12).collect::<String>(), n, x.chars().skip(n - 12).collect::<String>())
        } else {
            x.to_string()
        }
    };
    let json = format!(
        "{{\"stream\":\"G\",\"script\":{},\"policy\":{},\"early_tick\":{},\"a\":{},\"b\":{},\"status\":{},\"deadlock\":{},\"timeout\":{},\"children\":{},\"stderr\":{}}}",
        json_str(&if script.len() > 400 { format!("{}...{}", &script[..200], &script[script.len() - 150..]) } else { script.clone() }),
        json_str(&pol_name),
        early_tick,
        json_str(&short(&va)),
        json_str(&short(&vb)),
        o.status,
        o.deadlock,
        o.timeout,
        json_str(&format!("{:?}", info.children)),
        json_str(&o.stderr.chars().take(200).collect::<String>())
    );
    // does a chunk boundary fall inside a character?
    let mut split = false;
    let mut at = 0;
    for c in &chunks[..chunks.len().saturating_sub(1)] {
        at += c.len();
        if at < all.len() && (all[at] & 0xC0) == 0x80 {
            split = true;
        }
    }
    let edge = all.len() > PIPE_SIZE && (all[PIPE_SIZE] & 0xC0) == 0x80;
    w.count(if split { "G.chunking:splits a character" } else { "G.chunking:at character boundaries" });
    if edge {
        w.count("G.ring:a character straddles byte 1024");
    }
    w.count(&format!("G.policy:{}{}", pol_name.split(':').next().unwrap(), if early_tick { "" } else { "+late-tick" }));
    let key = if split { Some(format!("G:{}:{:?}", hex.join(" ").len(), digest_bytes(hex.join(" ").as_bytes()).1)) } else { None };
    w.push(&term, &json, &[], key);
}

/// Two or three lines of text with multi-byte characters and a chunking of its bytes.
fn gen_read_chunks(r: &mut Rng) -> Vec<Vec<u8>> {
    let alphabet = ["a", "b", "z", "0", "\u{e9}", "\u{20ac}", "\u{20ac}", "\u{8a9e}", "\u{1f600}", "\u{1f600}", "\u{10348}"];
    let mut text = String::new();
    let lines = 2 + r.below(2);
    for li in 0..lines {
        // sometimes a line that fills the pipe up to its edge
        let n = if r.chance(1, 6) { 1000 + r.below(40) } else { 1 + r.below(8) };
        if n > 100 {
            let pad = n - r.below(6);
            for _ in 0..pad {
                text.push('x');
            }
        }
        for _ in 0..(if n > 100 { 3 } else { n }) {
            text.push_str(r.pick(&alphabet));
        }
        if li + 1 < lines || r.chance(3, 4) {
            text.push('\n');
        }
    }
    let bytes = text.into_bytes();
    // cut points: prefer the inside of characters
    let inside: Vec<usize> = (1..bytes.len()).filter(|i| (bytes[*i] & 0xC0) == 0x80).collect();
    let mut cuts: Vec<usize> = vec![];
    let ncuts = 1 + r.below(5);
    for _ in 0..ncuts {
        if !inside.is_empty() && r.chance(4, 5) {
            cuts.push(*r.pick(&inside));
        } else if bytes.len() > 1 {
            cuts.push(1 + r.below(bytes.len() - 1));
        }
    }
    cuts.sort();
    cuts.dedup();
    let mut out = vec![];
    let mut from = 0;
    for c in cuts {
        out.push(bytes[from..c].to_vec());
        from = c;
    }
    out.push(bytes[from..].to_vec());
    out
}

fn gen_raw(r: &mut Rng) -> Vec<u8> {
    let alphabet: [u8; 22] = [
        b'a', b'b', b'\n', b'\n', b' ', 0xFF, 0xFE, 0xC0, 0xC1, 0xC3, 0xA9, 0x80, 0xBF, 0xE0, 0xA0, 0xE8, 0xAA, 0x9E,
        0xED, 0xF0, 0x9F, 0xF4,
    ];
    let n = r.below(14);
    let mut v: Vec<u8> = (0..n).map(|_| *r.pick(&alphabet)).collect();
    // something invalid near the end, then trailing newlines
    if r.chance(1, 2) {
        v.push(*r.pick(&[0xFFu8, 0xFE, 0xC0, 0xC3, 0xE8, 0xF0, 0x80]));
        if r.chance(1, 2) {
            v.push(*r.pick(&[0xAAu8, 0x9F, b'z', 0xFF]));
        }
    }
    for _ in 0..r.below(4) {
        v.push(b'\n');
    }
    v
}

fn gen_text(r: &mut Rng) -> String {
    let alphabet = ['a', 'b', '\n', '\n', ' ', '\t', 'é', '語', '\'', '\\', '$', '\u{85}', '\r'];
    let n = r.below(12);
    let mut s: String = (0..n).map(|_| *r.pick(&alphabet)).collect();
    for _ in 0..r.below(4) {
        s.push('\n');
    }
    s
}

// ---------------------------------------------------------------------------

// ---------------------------------------------------------------------------
// Stream H: two or three holders of ONE open file description overlap inside
// Concurrent::read / Concurrent::write (TemporaryNonBlockingGuard)

#[derive(Clone, Copy, Debug, PartialEq)]
enum GOp {
    Enter(usize),
    Leave(usize),
}

/// All orders in which `n` holders can each enter once and leave once.
fn guard_orders(n: usize) -> Vec<Vec<GOp>> {
    fn go(n: usize, st: &mut Vec<u8>, cur: &mut Vec<GOp>, out: &mut Vec<Vec<GOp>>) {
        if cur.len() == 2 * n {
            out.push(cur.clone());
            return;
        }
        for i in 0..n {
            if st[i] < 2 {
                cur.push(if st[i] == 0 { GOp::Enter(i) } else { GOp::Leave(i) });
                st[i] += 1;
                go(n, st, cur, out);
                st[i] -= 1;
                cur.pop();
            }
        }
    }
    let mut out = vec![];
    go(n, &mut vec![0; n], &mut vec![], &mut out);
    out
}

/// `writer`: the holders are Concurrent::write calls on the write end of a full
/// pipe (else Concurrent::read calls on the read end of an empty pipe).
/// `f0`: the description is O_NONBLOCK before the first holder enters.
/// `forked[i]`: holder i is another simulated process that inherited the
/// descriptor (else a task of the first process).  `sizes[i]`: bytes it moves.
fn stream_h_case(w: &mut CasesWriter, writer: bool, f0: bool, forked: &[bool], sizes: &[usize], ops: &[GOp]) {
    use std::future::Future;
    use std::pin::Pin;
    use std::task::{Context, Poll, Waker};
    use yash_env::job::Pid;
    use yash_env::system::r#virtual::Process;
    type Fut = Pin<Box<dyn Future<Output = Result<Vec<u8>, Errno>>>>;
    WATCHDOG.with(|wd| wd.tick("stream H"));
    let n = forked.len();
    let base = VirtualSystem::new();
    let (rfd, wfd) = base.pipe().unwrap();
    let fd = if writer { wfd } else { rfd };
    if f0 {
        base.get_and_set_nonblocking(fd, true).unwrap();
    }
    // processes: 0 = the first one; forked holders get their own
    let conc0 = Rc::new(Concurrent::new(base.clone()));
    let concs: Vec<Rc<Concurrent<VirtualSystem>>> = (0..n)
        .map(|i| {
            if forked[i] {
                let pid = Pid(1000 + i as i32);
                let child = {
                    let st = base.state.borrow();
                    Process::fork_from(base.process_id, &st.processes[&base.process_id])
                };
                base.state.borrow_mut().processes.insert(pid, child);
                let mut sys = base.clone();
                sys.process_id = pid;
                Rc::new(Concurrent::new(sys))
            } else {
                Rc::clone(&conc0)
            }
        })
        .collect();
    let flag = |sys: &VirtualSystem| sys.with_open_file_description(fd, |ofd| Ok(ofd.is_nonblocking())).unwrap();
    let mut cx = Context::from_waker(Waker::noop());
    let mut counter = 0usize;
    let mut next = |len: usize| {
        let d = sq(counter, len);
        counter = (counter + len) % 251;
        d
    };
    let mut want: Vec<Vec<u8>> = vec![];
    let mut got: Vec<Vec<u8>> = vec![];
    let mut bad = false; // something outside the protocol happened
    let drain = |got: &mut Vec<Vec<u8>>| {
        let mut buf = vec![0u8; 2 * PIPE_SIZE];
        // the read end is in blocking mode when the writers are under test; data is there
        if let Some(Ok(k)) = base.read(rfd, &mut buf).now_or_never() {
            if k > 0 {
                got.push(buf[..k].to_vec());
            }
        }
    };
    let feed = |want: &mut Vec<Vec<u8>>, data: Vec<u8>| -> bool {
        let ok = matches!(base.write(wfd, &data).now_or_never(), Some(Ok(k)) if k == data.len());
        if ok {
            want.push(data);
        }
        ok
    };
    if writer {
        let d = next(PIPE_SIZE);
        bad |= !feed(&mut want, d);
    }
    let mut futs: Vec<Option<Fut>> = (0..n).map(|_| None).collect();
    let mut datas: Vec<Vec<u8>> = vec![vec![]; n];
    let mut hist = vec![];
    let mut human = vec![];
    let mut inside = 0usize;
    let mut overlap = false;
    for op in ops {
        match *op {
            GOp::Enter(i) => {
                let conc = Rc::clone(&concs[i]);
                let len = sizes[i];
                let mut fut: Fut = if writer {
                    let d = next(len);
                    datas[i] = d.clone();
                    Box::pin(async move {
                        let k = conc.write(wfd, &d).await?;
                        Ok(d[..k].to_vec())
                    })
                } else {
                    Box::pin(async move {
                        let mut buf = vec![0u8; len];
                        let k = conc.read(rfd, &mut buf).await?;
                        Ok(buf[..k].to_vec())
                    })
                };
                match fut.as_mut().poll(&mut cx) {
                    Poll::Pending => futs[i] = Some(fut),
                    Poll::Ready(_) => bad = true,
                }
                inside += 1;
                overlap |= inside > 1;
            }
            GOp::Leave(i) => {
                let Some(mut fut) = futs[i].take() else {
                    bad = true;
                    continue;
                };
                if writer {
                    drain(&mut got); // make room for the whole request
                } else {
                    let d = next(sizes[i]);
                    bad |= !feed(&mut want, d);
                }
                let mut res = Poll::Pending;
                for _ in 0..4 {
                    res = fut.as_mut().poll(&mut cx);
                    if res.is_ready() {
                        break;
                    }
                }
                drop(fut); // the guard is dropped here at the latest
                match res {
                    Poll::Ready(Ok(bytes)) => {
                        if writer {
                            bad |= bytes != datas[i];
                            want.push(bytes);
                            // fill the pipe again so that the next holder blocks
                            let d = next(PIPE_SIZE - sizes[i]);
                            bad |= !feed(&mut want, d);
                        } else {
                            got.push(bytes);
                        }
                    }
                    _ => bad = true,
                }
                inside -= 1;
            }
        }
        let f = flag(&base);
        let (t, hm) = match *op {
            GOp::Enter(i) => (format!("(GEnter {}, {})", coq::nat(i), coq::b(f)), format!("enter{i}:{}", f as u8)),
            GOp::Leave(i) => (format!("(GLeave {}, {})", coq::nat(i), coq::b(f)), format!("leave{i}:{}", f as u8)),
        };
        hist.push(t);
        human.push(hm);
    }
    // the next plain (blocking) user of the description, on the inner system
    let fin = if bad {
        "FinOther"
    } else if writer {
        let d = next(7);
        want.push(d.clone());
        let sys = base.clone();
        let d2 = d.clone();
        let mut fut: Pin<Box<dyn Future<Output = Result<usize, Errno>>>> = Box::pin(async move { sys.write(wfd, &d2).await });
        let mut first = fut.as_mut().poll(&mut cx);
        let again = matches!(first, Poll::Ready(Err(Errno::EAGAIN)));
        if again && f0 {
            // O_NONBLOCK from the start: would-block is the right answer; try again with room
            drain(&mut got);
            let sys = base.clone();
            let d2 = d.clone();
            fut = Box::pin(async move { sys.write(wfd, &d2).await });
            first = fut.as_mut().poll(&mut cx);
        } else if first.is_pending() {
            drain(&mut got);
            first = fut.as_mut().poll(&mut cx);
        }
        drain(&mut got);
        match first {
            Poll::Ready(Ok(k)) if k == d.len() => if again { "FinAgain" } else { "FinOk" },
            Poll::Ready(Err(Errno::EAGAIN)) => "FinAgain",
            _ => "FinOther",
        }
    } else {
        let sys = base.clone();
        let mk = move || -> Fut {
            let sys = sys.clone();
            Box::pin(async move {
                let mut buf = vec![0u8; 64];
                let k = sys.read(rfd, &mut buf).await?;
                Ok(buf[..k].to_vec())
            })
        };
        let mut fut = mk();
        let mut first = fut.as_mut().poll(&mut cx); // the pipe is empty: a blocking read waits
        let again = matches!(first, Poll::Ready(Err(Errno::EAGAIN)));
        let d = next(7);
        if again && f0 {
            bad |= !feed(&mut want, d);
            fut = mk();
            first = fut.as_mut().poll(&mut cx);
        } else if first.is_pending() {
            bad |= !feed(&mut want, d);
            first = fut.as_mut().poll(&mut cx);
        } else {
            want.push(d); // the reader gave up: these bytes never arrive
        }
        match first {
            Poll::Ready(Ok(bytes)) => {
                got.push(bytes);
                if again { "FinAgain" } else { "FinOk" }
            }
            Poll::Ready(Err(Errno::EAGAIN)) => "FinAgain",
            _ => "FinOther",
        }
    };
    let fin = if bad { "FinOther" } else { fin };
    let pieces = |v: &Vec<Vec<u8>>| coq::list(&v.iter().map(|p| coq_bytes(p)).collect::<Vec<_>>());
    let term = format!("(CGuard {} {} {} {} {})", coq::b(f0), coq::list(&hist), fin, pieces(&want), pieces(&got));
    let kind = if writer { "write" } else { "read" };
    let json = format!(
        "{{\"stream\":\"H\",\"holders\":\"Concurrent::{kind}\",\"nonblocking_before\":{f0},\"forked\":{:?},\"sizes\":{:?},\"steps\":[{}],\"final\":\"{fin}\"}}",
        forked,
        sizes,
        human.iter().map(|h| json_str(h)).collect::<Vec<_>>().join(",")
    );
    w.count(&format!("H.kind:{kind}"));
    w.count(&format!("H.holders:{n}"));
    w.count(if overlap { "H.case:overlap" } else { "H.case:no-overlap" });
    w.count(if forked.iter().any(|f| *f) { "H.proc:forked" } else { "H.proc:same-process" });
    w.count(if f0 { "H.flag-before:nonblocking" } else { "H.flag-before:blocking" });
    // the first to enter leaves while another is inside: the description blocks under that one
    let first_leaves_early = hist.iter().zip(ops.iter()).any(|(h, op)| matches!(op, GOp::Leave(_)) && h.ends_with("false)")) && overlap;
    if first_leaves_early && !f0 {
        w.count("H.case:flag-cleared-under-a-holder");
    }
    let key = if overlap { Some(format!("H:{kind}:{f0}:{forked:?}:{}", human.join(";"))) } else { None };
    w.push(&term, &json, &[], key);
}

/// Stream H: every order of entering and leaving for two holders (three: a
/// sample in the quick tier), readers and writers, both initial flags, every
/// assignment of holders to processes.
fn stream_h(w: &mut CasesWriter, r: &mut Rng, thorough: bool) {
    let size_sets: [&[usize]; 3] = [&[1, 7, 3], &[PIPE_BUF, 1, 100], &[7, PIPE_BUF, PIPE_BUF]];
    for ops in guard_orders(2) {
        for writer in [false, true] {
            for f0 in [false, true] {
                for fk in 0..4usize {
                    let forked = [fk & 1 != 0, fk & 2 != 0];
                    let sizes = size_sets[r.below(3)];
                    stream_h_case(w, writer, f0, &forked, &sizes[..2], &ops);
                }
            }
        }
    }
    for (k, ops) in guard_orders(3).into_iter().enumerate() {
        if thorough {
            for writer in [false, true] {
                for f0 in [false, true] {
                    for fk in 0..8usize {
                        let forked = [fk & 1 != 0, fk & 2 != 0, fk & 4 != 0];
                        let sizes = size_sets[r.below(3)];
                        stream_h_case(w, writer, f0, &forked, sizes, &ops);
                    }
                }
            }
        } else {
            let fk = r.below(8);
            let forked = [fk & 1 != 0, fk & 2 != 0, fk & 4 != 0];
            let sizes = size_sets[r.below(3)];
            stream_h_case(w, k % 2 == 0, r.below(4) == 0, &forked, sizes, &ops);
        }
    }
}

fn main() {
    let args = Args::parse();
    std::panic::set_hook(Box::new(|_| {}));
    let mut rng = Rng::new(args.seed);
    let mut w = CasesWriter::new(&args, "Yv.C14.Run", args.scale(20, 80));

    // ---- corpus -----------------------------------------------------------------
    {
        let mut r = rng.fork(1);
        // fill the pipe exactly, overfill, atomic refusal, drain, end of file
        stream_a_case(
            &mut w,
            &mut r,
            0,
            Some(vec![
                POp::Write(sq(0, PIPE_SIZE)),
                POp::Write(sq(20, 1)),
                POp::Read(1),
                POp::Write(sq(20, PIPE_BUF)),
                POp::Write(sq(20, PIPE_BUF + 1)),
                POp::Poll,
                POp::Read(PIPE_BUF),
                POp::Poll,
                POp::Write(sq(21, PIPE_BUF)),
                POp::CloseW,
                POp::Read(4 * PIPE_SIZE),
                POp::Read(1),
            ]),
        );
        stream_a_case(
            &mut w,
            &mut r,
            0,
            Some(vec![
                POp::Write(sq(0, 3 * PIPE_SIZE)),
                POp::DupW,
                POp::CloseW,
                POp::Read(0),
                POp::Read(PIPE_SIZE),
                POp::Read(1),
                POp::CloseW,
                POp::Read(1),
                POp::CloseR,
            ]),
        );
        stream_a_case(&mut w, &mut r, 0, Some(vec![POp::CloseR, POp::Write(sq(0, 1)), POp::Write(vec![])]));
        for (sizes, reader) in [
            (vec![4 * PIPE_SIZE], ReaderKind::ReadAll),
            (vec![PIPE_SIZE + 1], ReaderKind::Caps(vec![1], 1)),
            (vec![PIPE_BUF, PIPE_BUF, 1], ReaderKind::Caps(vec![], PIPE_BUF)),
            (vec![], ReaderKind::ReadAll),
            (vec![0, 0], ReaderKind::Caps(vec![3], 7)),
        ] {
            for style in 0..4 {
                let mut pos = 0;
                let chunks: Vec<Vec<u8>> = sizes
                    .iter()
                    .map(|n| {
                        let v = sq(pos, *n);
                        pos = (pos + n) % 251;
                        v
                    })
                    .collect();
                stream_b_case(&mut w, &mut r, chunks, reader.clone(), style);
            }
        }
        let big = DExp::Gen(4 * PIPE_SIZE + 1, 3, 2, 0);
        for pk in 0..5 {
            stream_c_case(&mut w, &big, &Route::Pipe(3, 1024), pk, 11);
            stream_c_case(&mut w, &big, &Route::Var, pk, 12);
        }
        stream_c_case(&mut w, &DExp::Gen(PIPE_SIZE, 5, 1, 0), &Route::Here(1024), 0, 0);
        stream_c_case(
            &mut w,
            &DExp::Subst(Box::new(DExp::Cat(vec![
                DExp::Subst(Box::new(DExp::Gen(2 * PIPE_SIZE + 3, 9, 2, 0))),
                DExp::Lit("\n\n".into()),
                DExp::Gen(10, 1, 3, 1),
            ]))),
            &Route::Var,
            4,
            5,
        );
        for t in ["", "\n", "\n\n\n", "a", "a\n", "a\n\n\n", "\na\n", "a\nb\n\n", "a \n", "é\n", "語\n\n", "a\r\n"] {
            stream_d_case(&mut w, t);
        }
    }

    // ---- stream H: overlapping holders of one open file description ------------------
    {
        let mut r = rng.fork(77);
        stream_h(&mut w, &mut r, args.thorough());
    }

    // ---- several asynchronous writers on one pipe (class of F48 when n > PIPE_SIZE) ----
    if WITH_SHARED_WRITERS {
        // tagged: every writer writes more than the pipe holds; untagged: all of it fits into
        // the pipe at once (no writer ever waits).  In between (the total exceeds PIPE_SIZE but
        // not every writer does, e.g. 3 x 700 bytes with `sink 512`) the same defect strikes
        // under some schedules (11 of 122 tried): kept out until the finding's class is widened.
        let mut classes = vec![(2usize, 2 * PIPE_SIZE, 1024usize), (2, PIPE_SIZE + 1, 100), (3, 2 * PIPE_SIZE, 1024), (2, PIPE_BUF, 1024), (3, 300, 7)];
        if WITH_SHARED_WRITERS_BETWEEN {
            classes.push((3, 700, 512));
        }
        for (writers, n, cap) in classes {
            let seeds = if args.thorough() { 6 } else { 2 };
            for pk in 0..5usize {
                for sd in 0..seeds {
                    if pk < 2 && sd > 0 {
                        continue; // First / Last do not depend on the seed
                    }
                    stream_c_writers_case(&mut w, writers, n, cap, pk, 4000 + sd);
                }
            }
        }
    }

    // ---- generated -----------------------------------------------------------------
    let na = args.scale(180, 4000);
    for k in 0..na {
        let mut r = rng.fork(1000 + k as u64);
        let nops = if args.thorough() { 4 + r.below(36) } else { 4 + r.below(24) };
        stream_a_case(&mut w, &mut r, nops, None);
    }

    let nf = args.scale(60, 1500);
    for k in 0..nf {
        let mut r = rng.fork(11_000_000 + k as u64);
        let nops = 4 + r.below(20);
        stream_f_case(&mut w, &mut r, nops);
    }

    let nb = args.scale(240, 5000);
    for k in 0..nb {
        let mut r = rng.fork(2_000_000 + k as u64);
        let start = r.below(251);
        let chunks = gen_chunks(&mut r, start);
        let reader = match r.below(5) {
            0..=1 => ReaderKind::ReadAll,
            2 => ReaderKind::Caps(vec![], *r.pick(&[1usize, 2, 100, PIPE_BUF, PIPE_SIZE, PIPE_SIZE + 1, 5000])),
            _ => {
                let total: usize = chunks.iter().map(|c| c.len()).sum();
                // a one-byte buffer on a large payload makes thousands of calls: keep those rare
                let small = total <= 600 || r.chance(1, 6);
                let caps: Vec<usize> = (0..r.below(8))
                    .map(|_| if small { 1 + r.below(8) } else { 1 + pick_size(&mut r, 2 * PIPE_SIZE) })
                    .collect();
                let d = if small { 1 + r.below(64) } else { 64 + pick_size(&mut r, 2 * PIPE_SIZE) };
                ReaderKind::Caps(caps, d)
            }
        };
        let style = r.below(4);
        stream_b_case(&mut w, &mut r, chunks, reader, style);
    }

    // depth-first enumeration of the schedules (poll writer / poll reader / peek) of a few
    // small configurations
    if args.thorough() {
        let configs: Vec<(Vec<usize>, ReaderKind)> = vec![
            (vec![PIPE_SIZE + 1], ReaderKind::Caps(vec![], PIPE_SIZE)),
            (vec![2 * PIPE_SIZE + 3], ReaderKind::ReadAll),
            (vec![PIPE_BUF, PIPE_BUF + 1, 1], ReaderKind::Caps(vec![600], 600)),
            (vec![PIPE_SIZE + PIPE_BUF], ReaderKind::Caps(vec![1, PIPE_BUF - 1], PIPE_SIZE)),
            (vec![3], ReaderKind::Caps(vec![], 1)),
        ];
        for (ci, (sizes, reader)) in configs.into_iter().enumerate() {
            let mut prefix: Vec<usize> = vec![];
            let mut count = 0;
            loop {
                let mut r = rng.fork(7_000_000 + ci as u64);
                let mut pos = 0;
                let chunks: Vec<Vec<u8>> = sizes
                    .iter()
                    .map(|n| {
                        let v = sq(pos, *n);
                        pos = (pos + n) % 251;
                        v
                    })
                    .collect();
                let path = stream_b_case_with(&mut w, &mut r, chunks, reader.clone(), 4, &prefix);
                count += 1;
                match sched::next_prefix(&path, 11) {
                    Some(n) if count < 600 => prefix = n,
                    _ => break,
                }
            }
            w.count(&format!("B.dfs-schedules:{}", count));
        }
    }

    // depth-first enumeration of the process schedules of a few small scripts
    if args.thorough() {
        let configs: Vec<(DExp, Route)> = vec![
            (DExp::Gen(PIPE_SIZE + 1, 2, 0, 0), Route::Pipe(1, 1024)),
            (DExp::Gen(2 * PIPE_SIZE + 1, 3, 1, 0), Route::Pipe(1, PIPE_BUF)),
            (DExp::Gen(PIPE_SIZE + PIPE_BUF + 1, 4, 0, 0), Route::Pipe(2, 1024)),
            (DExp::Gen(PIPE_SIZE + 1, 5, 2, 0), Route::Var),
            (DExp::Subst(Box::new(DExp::Gen(PIPE_SIZE + 1, 6, 1, 0))), Route::Var),
            (DExp::Gen(3, 7, 0, 1), Route::Pipe(3, 1)),
            (DExp::Gen(5000, 8, 0, 0), Route::Head(1, 0, 1024)),
            (DExp::Gen(3000, 9, 1, 0), Route::Head(2, 1, 1024)),
            (DExp::Gen(2 * PIPE_SIZE + 1, 10, 0, 0), Route::Head(1, PIPE_SIZE + 1, 1024)),
        ];
        for (e, route) in &configs {
            let mut prefix: Vec<usize> = vec![];
            let mut count = 0;
            loop {
                let path = stream_c_case_with(&mut w, e, route, Policy::Prefix(prefix.clone()), format!("dfs:{count}"));
                count += 1;
                match sched::next_prefix(&path, 12) {
                    Some(n) if count < 400 => prefix = n,
                    _ => break,
                }
            }
            w.count(&format!("C.dfs-schedules:{}", count));
        }
    }

    // exhaustive over the boundary sizes: one producer, 0-3 pipes, command substitution
    if args.thorough() {
        let sizes = boundary_sizes();
        let mut i = 0u64;
        for n in &sizes {
            for t in [0usize, 1, 3] {
                let e = DExp::Gen(*n, 17 + i % 5, t, 0);
                for (ri, route) in [Route::Pipe(1, 1024), Route::Pipe(2, PIPE_BUF), Route::Pipe(3, 1024), Route::Var]
                    .iter()
                    .enumerate()
                {
                    for pk in [0usize, 1, 4] {
                        stream_c_case(&mut w, &e, route, pk, i * 7 + ri as u64);
                    }
                    i += 1;
                }
            }
        }
    }

    // payloads beyond every buffer size of the readers (read_all_to grows its
    // buffer in steps; the data of a command substitution must arrive complete
    // whatever its length): sizes around 64 KiB and 128 KiB
    {
        let sizes: Vec<usize> =
            if args.thorough() { vec![65536, 65537, 70000] } else { vec![65537] };
        for (i, n) in sizes.iter().enumerate() {
            let e = DExp::Gen(*n, 23 + i as u64, i % 2, 0);
            stream_c_case(&mut w, &e, &Route::Var, 0, 1000 + i as u64);
            if i == 1 && args.thorough() {
                stream_c_case(&mut w, &e, &Route::Pipe(1, 1024), 0, 2000);
            }
        }
    }

    // pipelines of 2-6 commands under every initial descriptor layout
    {
        let sizes: Vec<usize> = if args.thorough() { vec![3, PIPE_BUF + 1, PIPE_SIZE + 1, 2 * PIPE_SIZE + 3] } else { vec![PIPE_SIZE + 1] };
        let mut i = 0u64;
        for pre in 0..PRELUDES.len() {
            PRELUDE.with(|p| p.set(pre));
            for stages in 1..=5usize {
                for n in &sizes {
                    let e = DExp::Gen(*n, 31 + i % 7, 1, 0);
                    let pols: &[usize] = if args.thorough() { &[0, 1, 4] } else { &[4] };
                    for pk in pols {
                        stream_c_case(&mut w, &e, &Route::Pipe(stages, *r_cap(i)), *pk, i * 13 + 1);
                    }
                    i += 1;
                }
            }
            let e = DExp::Gen(PIPE_SIZE + 1, 3, 2, 0);
            stream_c_case(&mut w, &e, &Route::Var, 4, i);
            stream_c_case(&mut w, &DExp::Gen(PIPE_BUF, 5, 1, 0), &Route::Here(1024), 4, i + 1);
        }
        PRELUDE.with(|p| p.set(0));
    }

    // consumers that quit after k bytes (and producers larger than the pipes): the
    // delivered prefix is exact and the writers end (EPIPE) -- nothing left, no deadlock
    {
        let mut i = 0u64;
        let sizes: Vec<usize> =
            if args.thorough() { vec![PIPE_SIZE + 1, 3000, 5000, 2 * PIPE_SIZE + PIPE_BUF + 1] } else { vec![5000] };
        for pre in [0usize, 1, 3, 5] {
            PRELUDE.with(|p| p.set(pre));
            for stages in 1..=4usize {
                for n in &sizes {
                    for k in [0usize, 1, PIPE_BUF, PIPE_SIZE + 7] {
                        if !args.thorough() && (i % 3 != 0) {
                            i += 1;
                            continue;
                        }
                        let e = DExp::Gen(*n, 41 + i % 5, 1, if i % 4 == 3 { 700 } else { 0 });
                        let pols: &[usize] = if args.thorough() { &[0, 1, 4] } else { &[4] };
                        for pk in pols {
                            stream_c_case(&mut w, &e, &Route::Head(stages, k, *r_cap(i)), *pk, i * 17 + 3);
                        }
                        i += 1;
                    }
                }
            }
        }
        PRELUDE.with(|p| p.set(0));
    }

    let nc = args.scale(120, 1500);
    for k in 0..nc {
        let mut r = rng.fork(3_000_000 + k as u64);
        let depth = *r.pick(&[0usize, 0, 1, 1, 2, 3]);
        let max = if depth >= 2 { 2 * PIPE_SIZE + 2 } else { 4 * PIPE_SIZE + 2 };
        let e = gen_dexp(&mut r, depth, max);
        let route = match r.below(10) {
            0 => Route::Pipe(0, 1024),
            1..=2 => Route::Pipe(1, *r.pick(&[1024usize, 1, 64, PIPE_BUF, PIPE_SIZE + 1, 5000])),
            3 => Route::Pipe(2, *r.pick(&[1024usize, 100, PIPE_BUF + 1])),
            4 => Route::Pipe(3 + r.below(2), 1024),
            5 => Route::Head(1 + r.below(3), *r.pick(&[0usize, 1, 10, PIPE_BUF, PIPE_SIZE, 1500]), *r.pick(&[1024usize, 64, PIPE_BUF])),
            6..=7 => Route::Var,
            _ => {
                if e.valid_here_body() && !matches!(e, DExp::Lit(_)) {
                    Route::Here(*r.pick(&[1024usize, 1, 511, 4096]))
                } else {
                    Route::Var
                }
            }
        };
        // a one-byte buffer on a big payload: thousands of scheduling points; keep but bound it
        let route = match route {
            Route::Pipe(s, 1) if e.eval().len() > 1500 => Route::Pipe(s, 64),
            Route::Here(1) if e.eval().len() > 1500 => Route::Here(64),
            other => other,
        };
        PRELUDE.with(|p| p.set(if r.chance(1, 3) { r.below(PRELUDES.len()) } else { 0 }));
        let nsched = args.scale(3, 5);
        for j in 0..nsched {
            let pk = match j {
                0 => 0,
                1 => 4,
                2 => 1 + r.below(3),
                _ => 4,
            };
            stream_c_case(&mut w, &e, &route, pk, r.next_u64() % 1_000_000);
        }
    }

    for raw in [
        &b"a\xff\n"[..],
        &b"\xff\n\n"[..],
        &b"a\xc0\xaf\n"[..],
        &b"ab\xfe\xffcd\xc0\n\n\n"[..],
        &b"\xe8\xaa\n"[..],
        &b"\xf0\x9f\x98\n\n"[..],
        &b"\xed\xa0\x80\n"[..],
        &b"\n\xff"[..],
        &b"\xc3\xa9\xe8\xaa\x9e\xf0\x9f\x98\x80\n"[..],
    ] {
        stream_e_case(&mut w, raw);
    }
    let ne = args.scale(120, 3000);
    for k in 0..ne {
        let mut r = rng.fork(8_000_000 + k as u64);
        let raw = gen_raw(&mut r);
        stream_e_case(&mut w, &raw);
    }

    // ---- the read built-in behind a writer that splits characters ----------------
    PRELUDE.with(|p| p.set(0));
    {
        let euro = "\u{20ac}".as_bytes().to_vec(); // E2 82 AC
        let grin = "\u{1f600}".as_bytes().to_vec(); // F0 9F 98 80
        let mut corpus: Vec<Vec<Vec<u8>>> = vec![];
        // every split of "a€\nb😀\n" into two pieces, and the byte-by-byte one
        let t: Vec<u8> = [b"a".to_vec(), euro.clone(), b"\nb".to_vec(), grin.clone(), b"\n".to_vec()].concat();
        for c in 1..t.len() {
            corpus.push(vec![t[..c].to_vec(), t[c..].to_vec()]);
        }
        corpus.push(t.iter().map(|b| vec![*b]).collect());
        // three pieces inside one four-byte character
        corpus.push(vec![b"\xf0".to_vec(), b"\x9f\x98".to_vec(), b"\x80\nq\n".to_vec()]);
        corpus.push(vec![b"\xf0\x9f".to_vec(), b"\x98".to_vec(), b"\x80z\n\xe2".to_vec(), b"\x82\xac\n".to_vec()]);
        // a character that straddles the edge of the 1024-byte ring
        for (pad, ch) in [(1023usize, &euro), (1022, &euro), (1021, &grin), (1022, &grin), (1023, &grin)] {
            let mut line: Vec<u8> = vec![b'x'; pad];
            line.extend_from_slice(ch);
            line.extend_from_slice(b"\nsecond");
            line.extend_from_slice(ch);
            line.push(b'\n');
            corpus.push(vec![line.clone()]);
            corpus.push(vec![line[..PIPE_SIZE].to_vec(), line[PIPE_SIZE..].to_vec()]);
            corpus.push(vec![line[..pad + 1].to_vec(), line[pad + 1..].to_vec()]);
        }
        for (i, chunks) in corpus.iter().enumerate() {
            let pols: &[usize] = if args.thorough() { &[0, 1, 2, 3, 4] } else { &[0, 4] };
            for pk in pols {
                stream_g_case(&mut w, chunks, *pk, i as u64, false);
            }
            stream_g_case(&mut w, chunks, 4, 1000 + i as u64, true);
        }
    }
    let ng = args.scale(60, 1500);
    for k in 0..ng {
        let mut r = rng.fork(9_000_000 + k as u64);
        let chunks = gen_read_chunks(&mut r);
        let pk = *r.pick(&[0usize, 1, 2, 3, 4, 4]);
        let early = r.chance(1, 4);
        stream_g_case(&mut w, &chunks, pk, r.next_u64() % 1_000_000, early);
    }

    PRELUDE.with(|p| p.set(0));
    let nd = args.scale(100, 2000);
    for k in 0..nd {
        let mut r = rng.fork(4_000_000 + k as u64);
        let t = gen_text(&mut r);
        stream_d_case(&mut w, &t);
    }

    w.finish(
        "A: system calls on one pipe (non-trivial = more than PIPE_BUF bytes written and a partial write or EAGAIN seen); \
         B: write_all/read tasks under a chosen schedule (non-trivial = payload > PIPE_SIZE and at least two yields); \
         C: scripts under a schedule-controlling executor (non-trivial = payload > PIPE_SIZE and at least one scheduling point with a choice); \
         D: command substitution of explicit texts (non-trivial = trailing and embedded newlines); \
         G: the read built-in behind a chunked writer (non-trivial = a chunk boundary inside a multi-byte character); \
         H: two or three Concurrent reads/writes inside one open file description at a time, every order of entering and leaving (non-trivial = at least two holders inside at once); distinct = by input",
    );
}
