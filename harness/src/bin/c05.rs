//! C05 — pathname expansion on the real yash-rs code over the virtual file system.
//!
//! Every case = (tree, noglob, field as attributed characters, what the
//! implementation returned) as a Coq term of type `Yv.C05.Run.case`.
//!
//! Streams
//!   api    `yash_semantics::expansion::glob::glob(env, AttrField)` called directly
//!          on arbitrary attributed characters (origin, quoted, quoting flags)
//!   shell  `args WORD` run as a script in the virtual shell; WORD is rendered
//!          from units with mixed quoting (plain, \c, '..', "..", ${v}, "${v}", ~),
//!          the attributed characters sent to Coq are the ones the quoting
//!          *means* (a quoted character is quoted), so the path
//!          parser -> expansion -> glob -> quote removal is covered end to end
//!
//! The tree sent to Coq is a snapshot read back from `SystemState::file_system`
//! after it was built, not the generator's plan.
//!
//! Dangling links named by a literal last component (repaired in /repo by
//! 7d0a5f7; reverting that commit must make this check fail) are ordinary
//! cases; the histogram counts them as `last-names-broken-link`.

use std::cell::RefCell;
use std::collections::HashMap;
use std::panic::{AssertUnwindSafe, catch_unwind};
use std::rc::Rc;
use yash_env::Env;
use yash_env::option::{Option as ShOption, State as OptState};
use yash_env::path::PathBuf;
use yash_env::semantics::expansion::attr::{AttrChar, AttrField, Origin};
use yash_env::source::Location;
use yash_env::system::r#virtual::{FileBody, FileSystem, Inode, SystemState, VirtualSystem};
use yash_env::system::{Concurrent, Mode};
use yash_semantics::expansion::glob::glob;
use yv_harness::cli::Args;
use yv_harness::out::CasesWriter;
use yv_harness::rng::Rng;
use yv_harness::{coq, json_str, json_str_list, vsh};

// ---------------------------------------------------------------------------
// trees

#[derive(Clone, Debug, PartialEq, Eq)]
enum Kind {
    File,
    Dir(bool), // searchable (USER_EXEC)
    Link(String),
}

#[derive(Clone, Debug)]
struct Node {
    path: Vec<String>, // absolute name path, parents first in the list of nodes
    kind: Kind,
}

type Tree = Vec<Node>;

const NAMES: &[&str] = &["a", "b", "ab", ".a", ".b", "-", "[", "*", "a]", "sub"];
const RARE_NAMES: &[&str] =
    &["?", "\\", "]", "!", "^", "é", ".ab", "aa", "ba", "...", "..a", "a.", "\\a", "\\*", "[a]", "a-b", "b*",
      "[b-a]", "a[b-a]", "[!a]", "\\?", "a\\", "-a", "]a",
      // a backslash followed by something a wildcard can match
      "\\x", "\\ab", "\\\\x", "a\\b",
      // names that sort before `name/...` when they extend a sibling's name
      "a.d", "a+x", "a!", "a b", "a,b", "sub-1", "sub.d",
      // digits and capitals for the character classes
      "1", "a1", "A", "7b",
      // characters of 2, 3 and 4 bytes, a combining mark: `?` matches a character, not a byte
      "é.txt", "café1", "café2", "日本", "日本語", "😀", "😀a", "a😀", "e\u{301}", "e\u{301}x", "ñ", "ß.d", "éé"];

fn pick_name(rng: &mut Rng) -> String {
    if rng.chance(1, 5) { rng.pick(RARE_NAMES).to_string() } else { rng.pick(NAMES).to_string() }
}

fn gen_children(rng: &mut Rng, tree: &mut Tree, dir: &[String], depth: usize, max_kids: usize) {
    let n = rng.below(max_kids + 1);
    let mut used: Vec<String> = vec![];
    for _ in 0..n {
        let name = pick_name(rng);
        if used.contains(&name) {
            continue;
        }
        used.push(name.clone());
        let mut path = dir.to_vec();
        path.push(name);
        let r = rng.below(100);
        if r < 45 || (depth >= 3 && r < 85) {
            tree.push(Node { path, kind: Kind::File });
        } else if r < 85 {
            let searchable = !rng.chance(1, 7);
            tree.push(Node { path: path.clone(), kind: Kind::Dir(searchable) });
            let first_child = tree.len();
            gen_children(rng, tree, &path, depth + 1, max_kids);
            if rng.chance(1, 3) {
                // a sibling directory `name<c>..` (c sorts before `/`) with the same entries:
                // the order of the results is the order of whole pathnames
                let ext = format!("{}{}{}", path.last().unwrap(), rng.pick(&[' ', '!', '+', ',', '-', '.']), rng.pick(&["", "d", "x"]));
                if !used.contains(&ext) {
                    used.push(ext.clone());
                    let mut sib = dir.to_vec();
                    sib.push(ext);
                    let kids: Vec<String> = tree[first_child..]
                        .iter()
                        .filter(|n| n.path.len() == path.len() + 1)
                        .map(|n| n.path.last().unwrap().clone())
                        .collect();
                    tree.push(Node { path: sib.clone(), kind: Kind::Dir(true) });
                    for k in kids {
                        let mut q = sib.clone();
                        q.push(k);
                        tree.push(Node { path: q, kind: Kind::File });
                    }
                    if rng.chance(1, 2) {
                        let mut q = sib.clone();
                        q.push("f".to_string());
                        if !tree.iter().any(|n| n.path == q) {
                            tree.push(Node { path: q, kind: Kind::File });
                        }
                    }
                }
            }
        } else {
            // a symbolic link; the target is fixed up afterwards
            tree.push(Node { path, kind: Kind::Link(String::new()) });
        }
    }
}

fn gen_tree(rng: &mut Rng) -> Tree {
    let mut tree = vec![];
    let kids = 2 + rng.below(4);
    gen_children(rng, &mut tree, &[], 1, kids);
    // link targets
    let all: Vec<Vec<String>> = tree.iter().map(|n| n.path.clone()).collect();
    for i in 0..tree.len() {
        if let Kind::Link(_) = tree[i].kind {
            let me = tree[i].path.clone();
            let siblings: Vec<&Vec<String>> = all
                .iter()
                .filter(|p| p.len() == me.len() && p[..p.len() - 1] == me[..me.len() - 1])
                .collect();
            let target = match rng.below(10) {
                0 => "zz".to_string(),                       // dangling
                1 => me.last().unwrap().clone(),             // loop on itself
                2 => ".".to_string(),
                3 => "..".to_string(),
                4 | 5 => format!("/{}", rng.pick(&all).join("/")), // absolute
                6 => format!("{}/", rng.pick(&siblings).last().unwrap()), // trailing slash
                7 => format!("../{}", rng.pick(&all).last().unwrap()),
                _ => rng.pick(&siblings).last().unwrap().clone(), // sibling (maybe itself, maybe a link)
            };
            tree[i].kind = Kind::Link(target);
        }
    }
    tree
}

fn t(spec: &[(&str, Kind)]) -> Tree {
    spec.iter()
        .map(|(p, k)| Node { path: p.split('/').map(|s| s.to_string()).collect(), kind: k.clone() })
        .collect()
}

fn link(s: &str) -> Kind {
    Kind::Link(s.to_string())
}

/// Hand-written trees (used by the corpus and the exhaustive streams).
fn fixed_trees() -> Vec<Tree> {
    use Kind::*;
    vec![
        // 0: the names of the property text
        t(&[
            ("a", File),
            ("b", File),
            ("ab", File),
            (".a", File),
            (".b", Dir(true)),
            (".b/a", File),
            ("-", File),
            ("[", File),
            ("*", File),
            ("a]", File),
            ("sub", Dir(true)),
            ("sub/a", File),
            ("sub/.a", File),
            ("sub/b", Dir(true)),
            ("sub/b/a", File),
            ("sub/b/*", File),
        ]),
        // 1: links and an unsearchable directory
        t(&[
            ("a", Dir(true)),
            ("a/a", File),
            ("a/l", link("a")),
            ("a/d", link("zz")),
            ("a/self", link("self")),
            ("b", Dir(false)),
            ("b/a", File),
            ("b/b", Dir(true)),
            ("b/b/a", File),
            ("l", link("a")),
            ("l2", link("l")),
            ("d", link("nowhere")),
            ("abs", link("/a/a")),
            ("up", link("..")),
        ]),
        // 2: names made of pattern characters
        t(&[
            ("?", File),
            ("*", Dir(true)),
            ("*/*", File),
            ("*/a", File),
            ("[a]", File),
            ("\\", File),
            ("\\a", File),
            ("\\*", File),
            ("a", File),
            ("]", File),
            ("!", File),
            ("^", File),
            ("-", File),
            ("a-b", File),
        ]),
        // 3: empty
        vec![],
        // 4: small, for the exhaustive stream
        t(&[("a", Dir(true)), ("a/a", File), ("a/.a", File), (".a", File), ("[", File), ("*", File), ("\\", File)]),
        // 5: names that look like invalid patterns
        t(&[
            ("a[b-a]", Dir(true)),
            ("a[b-a]/x", File),
            ("[b-a]", Dir(true)),
            ("[b-a]/y", File),
            ("sub", Dir(true)),
            ("sub/a[b-a]", File),
            ("[b-a]]", File),
            ("a", File),
            ("b", File),
        ]),
        // 6: chains of links: k2 needs 7 hops (found), k1 needs 8 (ELOOP)
        t(&[
            ("a", File),
            ("d", Dir(true)),
            ("d/x", File),
            ("k1", link("k2")),
            ("k2", link("k3")),
            ("k3", link("k4")),
            ("k4", link("k5")),
            ("k5", link("k6")),
            ("k6", link("k7")),
            ("k7", link("k8")),
            ("k8", link("a")),
            ("t", link("d/")),
            ("u", link("d/x")),
            ("v", link("d/../a")),
            ("w", link("./d/./x")),
        ]),
        // 7: a dangling link (glob.rs missed */dl before 7d0a5f7)
        t(&[("sub", Dir(true)), ("sub/dl", link("zz")), ("sub/f", File)]),
        // 8: directories one of whose names is a prefix of the other, the next
        // character sorting before `/`: results are ordered as whole pathnames
        t(&[
            ("a", Dir(true)),
            ("a/f", File),
            ("a.d", Dir(true)),
            ("a.d/f", File),
            ("a-b", Dir(true)),
            ("a-b/f", File),
            ("a+x", Dir(true)),
            ("a+x/f", File),
            ("a!", Dir(true)),
            ("a!/f", File),
            ("a b", Dir(true)),
            ("a b/f", File),
            ("a,b", Dir(true)),
            ("a,b/f", File),
            ("ab", Dir(true)),
            ("ab/f", File),
            ("a0", Dir(true)),
            ("a0/f", File),
            ("x", Dir(true)),
            ("x/f", File),
            ("x/g", File),
            ("x-y", Dir(true)),
            ("x-y/f", File),
            ("lib", Dir(true)),
            ("lib/f", File),
            ("lib/sub", Dir(true)),
            ("lib/sub/f", File),
            ("lib+x", Dir(true)),
            ("lib+x/f", File),
            ("lib+x/sub", Dir(true)),
            ("lib+x/sub/f", File),
        ]),
        // 9: names with backslashes
        t(&[
            ("\\x", File),
            ("\\", File),
            ("\\ab", File),
            ("\\\\x", File),
            ("x", File),
            ("ab", File),
            ("d", Dir(true)),
            ("d/\\a", File),
            ("d/\\b", File),
            ("d/a", File),
            ("d/\\\\a", File),
            ("a\\b", File),
        ]),
        t(&[
            ("a*", Dir(true)),
            ("a*/x", File),
            ("ab", Dir(true)),
            ("ab/x", File),
            ("*", Dir(true)),
            ("*/x", File),
            ("*/y", File),
            ("[ab]", Dir(true)),
            ("[ab]/x", File),
            ("a", Dir(true)),
            ("a/x", File),
            ("b", Dir(true)),
            ("b/x", File),
            ("?", Dir(true)),
            ("?/x", File),
            ("h\\*", Dir(true)),
            ("h\\*/x", File),
            ("h\\b", Dir(true)),
            ("h\\b/x", File),
        ]),
        t(&[
            ("é.txt", File),
            ("e.txt", File),
            ("ee.txt", File),
            ("café1", File),
            ("café2", File),
            ("cafe1", File),
            ("cafée1", File),
            ("日本", File),
            ("日本語", File),
            ("ab", File),
            ("abc", File),
            ("abcdef", File),
            ("😀", File),
            ("😀a", File),
            ("a😀", File),
            ("abcd", File),
            ("e\u{301}", File),
            ("e\u{301}x", File),
            ("é", File),
            ("ñ", Dir(true)),
            ("ñ/日本", File),
            ("ñ/ab", File),
            ("ñ/éa", File),
            ("d", Dir(true)),
            ("d/é.txt", File),
            ("d/xy.txt", File),
        ]),
    ]
}

/// A chain of nested directories with the given name lengths (names made of one
/// repeated character), a file `f` and a file `.h` in every directory.
fn long_tree(lens: &[usize]) -> Tree {
    let mut tree = vec![];
    let mut path: Vec<String> = vec![];
    for (i, &n) in lens.iter().enumerate() {
        let c = (b'p' + (i % 8) as u8) as char;
        path.push(std::iter::repeat(c).take(n).collect());
        tree.push(Node { path: path.clone(), kind: Kind::Dir(true) });
        for leaf in ["f", ".h"] {
            let mut q = path.clone();
            q.push(leaf.to_string());
            tree.push(Node { path: q, kind: Kind::File });
        }
    }
    tree
}

fn make_inode(kind: &Kind) -> Inode {
    match kind {
        Kind::File => Inode::new([]),
        Kind::Dir(x) => Inode {
            body: FileBody::Directory { files: HashMap::new() },
            permissions: Mode::from_bits_retain(if *x { 0o755 } else { 0o644 }),
        },
        Kind::Link(target) => Inode {
            body: FileBody::Symlink { target: PathBuf::from(target.as_str()) },
            permissions: Mode::default(),
        },
    }
}

fn build_tree(state: &mut SystemState, tree: &Tree, reset: bool) {
    if reset {
        state.file_system = FileSystem::default();
    }
    for n in tree {
        let path = format!("/{}", n.path.join("/"));
        state.file_system.save(path.as_str(), Rc::new(RefCell::new(make_inode(&n.kind)))).unwrap();
    }
}

/// Reads the tree back from the file system (children sorted by name).
fn snapshot(state: &SystemState) -> Tree {
    fn walk(inode: &Rc<RefCell<Inode>>, path: &mut Vec<String>, out: &mut Tree) {
        let inode = inode.borrow();
        if let FileBody::Directory { files } = &inode.body {
            let mut names: Vec<_> = files.keys().cloned().collect();
            names.sort_by(|a, b| a.as_bytes().cmp(b.as_bytes()));
            for name in names {
                let child = Rc::clone(&files[&name]);
                let s = String::from_utf8(name.as_bytes().to_vec()).expect("utf-8 name");
                path.push(s);
                let kind = {
                    let c = child.borrow();
                    match &c.body {
                        FileBody::Directory { .. } => Kind::Dir(c.permissions.contains(Mode::USER_EXEC)),
                        FileBody::Symlink { target } => Kind::Link(
                            String::from_utf8(target.as_unix_str().as_bytes().to_vec()).expect("utf-8 target"),
                        ),
                        _ => Kind::File,
                    }
                };
                out.push(Node { path: path.clone(), kind });
                walk(&child, path, out);
                path.pop();
            }
        }
    }
    let mut out = vec![];
    walk(&state.file_system.root, &mut vec![], &mut out);
    out
}

/// Names of the symbolic links of the tree that cannot be followed to an
/// existing file.  Decided by the harness's own reading of the tree (not by
/// asking the implementation), and only used for the input-distribution
/// histogram (cases whose literal last component names such a link).
fn broken_links(tree: &Tree) -> Vec<String> {
    fn comps(path: &str) -> Vec<Option<String>> {
        // None = `..`
        path.split('/')
            .filter(|p| !p.is_empty() && *p != ".")
            .map(|p| if p == ".." { None } else { Some(p.to_string()) })
            .collect()
    }
    fn kind_of<'a>(tree: &'a Tree, key: &[String]) -> Option<&'a Kind> {
        tree.iter().find(|n| n.path == key).map(|n| &n.kind)
    }
    fn get(tree: &Tree, cs: &[Option<String>], trailing: bool) -> Option<Vec<String>> {
        let mut cur: Vec<String> = vec![];
        for c in cs {
            match c {
                None => {
                    // `..` is resolved only in a directory
                    if !(cur.is_empty() || matches!(kind_of(tree, &cur), Some(Kind::Dir(_)))) {
                        return None;
                    }
                    cur.pop();
                }
                Some(n) => {
                    let searchable = cur.is_empty() || kind_of(tree, &cur) == Some(&Kind::Dir(true));
                    if !searchable {
                        return None;
                    }
                    cur.push(n.clone());
                    kind_of(tree, &cur)?;
                }
            }
        }
        let is_dir = cur.is_empty() || matches!(kind_of(tree, &cur), Some(Kind::Dir(_)));
        if trailing && !is_dir { None } else { Some(cur) }
    }
    let mut v = vec![];
    for n in tree {
        if let Kind::Link(_) = n.kind {
            let mut cs: Vec<Option<String>> = n.path.iter().map(|s| Some(s.clone())).collect();
            let mut trailing = false;
            let mut ok = false;
            for _ in 0..8 {
                let Some(key) = get(tree, &cs, trailing) else { break };
                match kind_of(tree, &key) {
                    Some(Kind::Link(target)) if !key.is_empty() => {
                        if target.starts_with('/') {
                            cs = comps(target);
                        } else {
                            cs.pop();
                            cs.extend(comps(target));
                        }
                        trailing = target.ends_with('/') || target.ends_with("/.") || target == ".";
                    }
                    _ => {
                        ok = true;
                        break;
                    }
                }
            }
            if !ok {
                v.push(n.path.last().unwrap().clone());
            }
        }
    }
    v
}

// ---------------------------------------------------------------------------
// fields

fn ac(value: char, origin: Origin, is_quoted: bool, is_quoting: bool) -> AttrChar {
    AttrChar { value, origin, is_quoted, is_quoting }
}

fn soft(s: &str) -> Vec<AttrChar> {
    s.chars().map(|c| ac(c, Origin::SoftExpansion, false, false)).collect()
}

const ALPHABET: &[char] = &['a', 'b', '.', '-', '*', '?', '[', ']', '!', '^', '\\', '/'];
const HOT: &[char] = &['a', '*', '?', '[', ']', '/', '.', '\\'];

fn pick_char(rng: &mut Rng) -> char {
    match rng.below(20) {
        0 => 'é',
        1 => *rng.pick(&[':', '=', 's', 'u']),
        2..=9 => *rng.pick(HOT),
        _ => *rng.pick(ALPHABET),
    }
}

/// A field of attributed characters with arbitrary flags (api stream).
fn gen_attr_field(rng: &mut Rng) -> Vec<AttrChar> {
    let n = 1 + rng.below(6);
    let mut v = vec![];
    for _ in 0..n {
        match rng.below(12) {
            0 => v.push(ac(*rng.pick(&['\'', '"', '\\']), Origin::Literal, false, true)),
            1 => v.push(ac(pick_char(rng), Origin::Literal, true, false)),
            2 => v.push(ac(pick_char(rng), Origin::SoftExpansion, true, false)),
            3 => v.push(ac(pick_char(rng), Origin::HardExpansion, false, false)),
            4 => v.push(ac(pick_char(rng), Origin::HardExpansion, true, false)),
            5 | 6 => v.push(ac(pick_char(rng), Origin::Literal, false, false)),
            _ => v.push(ac(pick_char(rng), Origin::SoftExpansion, false, false)),
        }
    }
    v
}

/// A field made from the names of the tree: a path of the tree with some
/// components replaced by patterns derived from the name.
/// The nodes below the working directory, with paths relative to it (the whole
/// tree if there are none or the working directory is not a plain path).
fn relative_view(tree: &Tree, cwd: &str) -> Tree {
    let pre: Vec<String> = cwd.split('/').filter(|p| !p.is_empty()).map(|p| p.to_string()).collect();
    if pre.is_empty() || pre.iter().any(|p| p == "." || p == "..") {
        return tree.clone();
    }
    let v: Tree = tree
        .iter()
        .filter(|n| n.path.len() > pre.len() && n.path[..pre.len()] == pre[..])
        .map(|n| Node { path: n.path[pre.len()..].to_vec(), kind: n.kind.clone() })
        .collect();
    if v.is_empty() { tree.clone() } else { v }
}

fn gen_targeted_field(rng: &mut Rng, tree: &Tree) -> Vec<AttrChar> {
    if tree.is_empty() {
        return gen_attr_field(rng);
    }
    let node = rng.pick(tree);
    let mut v: Vec<AttrChar> = vec![];
    if rng.chance(1, 4) {
        v.extend(soft("/"));
    }
    for (i, name) in node.path.iter().enumerate() {
        if i > 0 {
            v.extend(soft("/"));
            if rng.chance(1, 10) {
                v.extend(soft("/"));
            }
        }
        let chars: Vec<char> = name.chars().collect();
        match rng.below(10) {
            0 | 1 => v.extend(soft("*")),
            2 => {
                for _ in &chars {
                    v.extend(soft("?"));
                }
            }
            3 => {
                // first character kept, rest `*`
                v.push(ac(chars[0], Origin::SoftExpansion, rng.chance(1, 3), false));
                v.extend(soft("*"));
            }
            4 => {
                // bracket expression around the first character
                let c = chars[0];
                match rng.below(4) {
                    0 => v.extend(soft(&format!("[{}]", c))),
                    1 => v.extend(soft(&format!("[!{}]", c))),
                    2 => v.extend(soft("[a-b]")),
                    _ => v.extend(soft(&format!("[{}x]", c))),
                }
                for &c in &chars[1..] {
                    v.push(ac(c, Origin::SoftExpansion, true, false));
                }
            }
            5 => {
                v.extend(soft("*"));
                v.push(ac(*chars.last().unwrap(), Origin::SoftExpansion, rng.chance(1, 2), false));
            }
            6 if rng.chance(1, 2) => v.extend(soft(*rng.pick(&[".", "..", ".*", "*.", "[.]*", "?*", "*/", "**"]))),
            6 | 7 => {
                // the name with `?` at some positions and nothing else special:
                // a component whose length in characters is fixed
                let qs = rng.below(3);
                for (j, &c) in chars.iter().enumerate() {
                    let q = match qs {
                        0 => rng.chance(1, 2),
                        1 => j + 1 == chars.len() || !c.is_ascii(),
                        _ => j == 0 || !c.is_ascii(),
                    };
                    if q && !(j == 0 && c == '.') {
                        v.extend(soft("?"));
                    } else {
                        v.push(ac(c, Origin::SoftExpansion, rng.chance(1, 3) || "*[]?\\".contains(c), false));
                    }
                }
                // sometimes one `?` too many or too few
                match rng.below(8) {
                    0 => v.extend(soft("?")),
                    1 => {
                        v.pop();
                    }
                    _ => {}
                }
            }
            _ => {
                // the name itself: quoted, unquoted, or quoted character by character
                let mode = rng.below(4);
                for &c in &chars {
                    let q = match mode {
                        0 => true,
                        1 => false,
                        _ => rng.chance(1, 3),
                    };
                    if mode == 3 && rng.chance(1, 6) {
                        v.push(ac('"', Origin::Literal, false, true));
                        v.push(ac('"', Origin::Literal, false, true));
                    }
                    v.push(ac(c, Origin::SoftExpansion, q, false));
                }
            }
        }
    }
    match rng.below(8) {
        0 => v.extend(soft("/")),
        1 => v.extend(soft("/*")),
        2 => v.extend(soft("/.")),
        3 => v.extend(soft("/..")),
        _ => {}
    }
    v
}

/// A path of the tree whose last name has one character replaced by a bracket
/// expression (matching, complemented, a range, a reversed range), with quoting
/// inside and around the brackets.
fn gen_bracket_field(rng: &mut Rng, tree: &Tree) -> Vec<AttrChar> {
    if tree.is_empty() {
        return gen_attr_field(rng);
    }
    let node = rng.pick(tree);
    let mut v: Vec<AttrChar> = vec![];
    let last = node.path.len() - 1;
    for (i, name) in node.path.iter().enumerate() {
        if i > 0 {
            v.extend(soft("/"));
        }
        let chars: Vec<char> = name.chars().collect();
        if i < last && rng.chance(1, 2) {
            v.extend(soft("*"));
            continue;
        }
        if i < last && !rng.chance(1, 3) {
            v.extend(soft(name));
            continue;
        }
        let k = rng.below(chars.len());
        for (j, &c) in chars.iter().enumerate() {
            if j != k {
                v.push(ac(c, Origin::SoftExpansion, rng.chance(1, 4), false));
                continue;
            }
            let s = |x: char, rng: &mut Rng| ac(x, Origin::SoftExpansion, rng.chance(1, 5), false);
            v.push(s('[', rng));
            if rng.chance(1, 3) {
                v.push(s(*rng.pick(&['!', '^']), rng));
            }
            let other = *rng.pick(&['a', 'b', '-', ']', '!', '.', 'z', '*', '\\']);
            match rng.below(7) {
                0 => {
                    v.push(s(c, rng));
                }
                1 => {
                    v.push(s(other, rng));
                    v.push(s(c, rng));
                }
                2 => {
                    // a range that contains c
                    v.push(s(std::char::from_u32((c as u32).saturating_sub(1).max(33)).unwrap_or('!'), rng));
                    v.push(s('-', rng));
                    v.push(s(std::char::from_u32(c as u32 + 1).unwrap_or(c), rng));
                }
                3 => {
                    // a reversed range: not a valid pattern
                    v.push(s(std::char::from_u32(c as u32 + 1).unwrap_or(c), rng));
                    v.push(s('-', rng));
                    v.push(s(std::char::from_u32((c as u32).saturating_sub(1).max(33)).unwrap_or('!'), rng));
                }
                4 => {
                    v.push(s(c, rng));
                    v.push(s('-', rng));
                    v.push(s(other, rng));
                }
                5 => {
                    v.push(s(']', rng));
                    v.push(s(c, rng));
                }
                _ => {
                    v.push(s(other, rng));
                    v.push(s('-', rng));
                    v.push(s(c, rng));
                    v.push(s('-', rng));
                }
            }
            if rng.chance(1, 8) {
                v.push(ac('\'', Origin::Literal, false, true));
                v.push(ac('\'', Origin::Literal, false, true));
            }
            if !rng.chance(1, 10) {
                v.push(s(']', rng));
            }
        }
    }
    if rng.chance(1, 6) {
        v.extend(soft("/*"));
    }
    v
}

/// A path of the tree with an unquoted backslash (as an unquoted expansion
/// leaves it) put in front of some character, possibly followed by quotes.
fn gen_backslash_field(rng: &mut Rng, tree: &Tree) -> Vec<AttrChar> {
    let mut v = if rng.chance(1, 3) { gen_attr_field(rng) } else { gen_targeted_field(rng, tree) };
    let n = 1 + rng.below(2);
    for _ in 0..n {
        let k = rng.below(v.len() + 1);
        let mut ins = vec![ac('\\', Origin::SoftExpansion, false, false)];
        if rng.chance(1, 2) {
            let q = *rng.pick(&['\'', '"']);
            ins.push(ac(q, Origin::Literal, false, true));
            ins.push(ac(q, Origin::Literal, false, true));
        }
        if rng.chance(1, 3) {
            ins.push(ac(*rng.pick(&['*', '?', '[', '\\']), Origin::SoftExpansion, false, false));
        }
        for (o, a) in ins.into_iter().enumerate() {
            v.insert(k + o, a);
        }
    }
    v
}

/// A path of the tree whose last name has one character (or two) replaced by a
/// bracket expression with a character class, a collating symbol or an
/// equivalence class: valid ones, multi-character ones, invalid ones.
fn gen_element_field(rng: &mut Rng, tree: &Tree) -> Vec<AttrChar> {
    if tree.is_empty() {
        return gen_attr_field(rng);
    }
    let node = rng.pick(tree);
    let mut v: Vec<AttrChar> = vec![];
    let last = node.path.len() - 1;
    for (i, name) in node.path.iter().enumerate() {
        if i > 0 {
            v.extend(soft("/"));
        }
        if i < last {
            if rng.chance(1, 2) { v.extend(soft("*")) } else { v.extend(soft(name)) }
            continue;
        }
        let chars: Vec<char> = name.chars().collect();
        let k = rng.below(chars.len());
        let c = chars[k];
        let two: Option<String> = if k + 1 < chars.len() { Some(format!("{}{}", c, chars[k + 1])) } else { None };
        for &x in &chars[..k] {
            v.push(ac(x, Origin::SoftExpansion, rng.chance(1, 4), false));
        }
        let class = *rng.pick(&["alpha", "digit", "lower", "upper", "punct", "alnum", "space", "xdigit", "graph", "word", "foo", ""]);
        let mut skip_next = false;
        let text = match rng.below(14) {
            0 | 1 => format!("[[:{}:]]", class),
            2 => format!("[![:{}:]]", class),
            3 => format!("[[:{}:]{}]", class, c),
            4 => format!("[[.{}.]]", c),
            5 => format!("[[={}=]]", c),
            6 | 7 if two.is_some() => {
                skip_next = true;
                format!("[[.{}.]]", two.as_ref().unwrap())
            }
            8 if two.is_some() => {
                skip_next = rng.chance(1, 2);
                format!("[[.{}.]{}]", two.as_ref().unwrap(), c)
            }
            9 if two.is_some() => format!("[![.{}.]z]", two.as_ref().unwrap()),
            10 if two.is_some() => format!("[^[={}=]]", two.as_ref().unwrap()),
            11 => format!("[[.{}.]-z]", c),
            12 => format!("[!-[:{}:]]", class),
            _ => (*rng.pick(&["[[..]]", "[[==]]", "[[:alpha:]", "[[.a.]", "[[:alpha:]-z]", "[[.].]]", "[[.-.]-z]", "[a[.-.]z]", "[[=]=]]"])).to_string(),
        };
        for x in text.chars() {
            v.push(ac(x, Origin::SoftExpansion, rng.chance(1, 12), false));
        }
        let from = if skip_next { k + 2 } else { k + 1 };
        for &x in &chars[from.min(chars.len())..] {
            v.push(ac(x, Origin::SoftExpansion, rng.chance(1, 4), false));
        }
    }
    v
}

/// A path of the tree that contains a backslash in some name: the backslash is
/// written as a literal one (escaped, quoted, or doubled in an unquoted
/// expansion) and what follows it as a wildcard, which must still match.
fn gen_bsname_field(rng: &mut Rng, tree: &Tree) -> Vec<AttrChar> {
    let with_bs: Vec<&Node> = tree.iter().filter(|n| n.path.iter().any(|s| s.contains('\\'))).collect();
    if with_bs.is_empty() {
        return gen_targeted_field(rng, tree);
    }
    let node = *rng.pick(&with_bs);
    let mut v: Vec<AttrChar> = vec![];
    for (i, name) in node.path.iter().enumerate() {
        if i > 0 {
            v.extend(soft("/"));
        }
        let chars: Vec<char> = name.chars().collect();
        let Some(k) = chars.iter().position(|&c| c == '\\') else {
            if rng.chance(1, 3) { v.extend(soft("*")) } else { v.extend(soft(name)) }
            continue;
        };
        for &c in &chars[..k] {
            v.push(ac(c, Origin::SoftExpansion, rng.chance(1, 2), false));
        }
        // the backslash itself, literal
        match rng.below(4) {
            0 | 1 => {
                v.push(ac('\\', Origin::Literal, false, true));
                v.push(ac('\\', Origin::Literal, true, false));
            }
            2 => v.push(ac('\\', Origin::SoftExpansion, true, false)),
            _ => {
                // two unquoted backslashes: the pattern then has two backslash characters
                v.push(ac('\\', Origin::SoftExpansion, false, false));
                v.push(ac('\\', Origin::SoftExpansion, false, false));
            }
        }
        // what follows, as a wildcard
        let rest = &chars[k + 1..];
        match rng.below(5) {
            0 | 1 => v.extend(soft("*")),
            2 => {
                for _ in rest {
                    v.extend(soft("?"));
                }
            }
            3 if !rest.is_empty() => {
                v.extend(soft(&format!("[{}z]", rest[0])));
                for &c in &rest[1..] {
                    v.push(ac(c, Origin::SoftExpansion, true, false));
                }
            }
            _ => {
                v.extend(soft("?"));
                v.extend(soft("*"));
            }
        }
    }
    v
}

fn last_component_text(field: &[AttrChar]) -> String {
    let comp = field.rsplit(|c| c.value == '/').next().unwrap_or(&[]);
    comp.iter().filter(|c| !c.is_quoting).map(|c| c.value).collect()
}

// ---------------------------------------------------------------------------
// words for the shell stream

#[derive(Clone, Debug)]
enum Unit {
    Plain(char),    // unquoted literal character
    Bs(char),       // \c
    Sq(String),     // '...'
    Dq(String),     // "..."
    Var(String),    // ${vN}, unquoted
    DqVar(String),  // "${vN}"
    Tilde(String),  // ~ with HOME = value (first unit only)
}

const PLAIN: &[char] = &['a', 'b', '.', '-', '*', '?', '[', ']', '!', '^', '/'];

fn gen_text(rng: &mut Rng, max: usize, allow_bs: bool) -> String {
    let n = 1 + rng.below(max);
    let mut s = String::new();
    for _ in 0..n {
        loop {
            let c = pick_char(rng);
            if c == '\\' && !allow_bs {
                continue;
            }
            s.push(c);
            break;
        }
    }
    s
}

fn gen_units(rng: &mut Rng) -> Vec<Unit> {
    let n = 1 + rng.below(5);
    let mut v = vec![];
    if rng.chance(1, 8) {
        // an unquoted backslash, empty quotes, a special character
        if rng.chance(1, 2) {
            v.push(Unit::Plain(*rng.pick(PLAIN)));
        }
        v.push(Unit::Var("\\".into()));
        v.push(if rng.chance(1, 2) { Unit::Sq(String::new()) } else { Unit::Dq(String::new()) });
        v.push(Unit::Plain(*rng.pick(&['*', '?', '[', 'a'])));
        return v;
    }
    for i in 0..n {
        let u = match rng.below(14) {
            0 | 1 => Unit::Bs(pick_char(rng)),
            2 => Unit::Sq(gen_text(rng, 2, true)),
            3 => Unit::Dq(gen_text(rng, 2, false)),
            4 | 5 | 6 => Unit::Var(gen_text(rng, 3, true)),
            7 => Unit::DqVar(gen_text(rng, 2, true)),
            8 if i == 0 => {
                // (a HOME that ends with a slash loses it before a following slash)
                let mut h = gen_text(rng, 2, true);
                if h.ends_with('/') {
                    h.push('a');
                }
                Unit::Tilde(h)
            }
            _ => Unit::Plain(*rng.pick(PLAIN)),
        };
        // a tilde is only a tilde expansion when followed by `/` or the end
        if let Some(Unit::Tilde(_)) = v.last() {
            v.push(Unit::Plain('/'));
        }
        v.push(u);
    }
    v
}

struct Rendered {
    script: String,
    word: String,
    attrs: Vec<AttrChar>,
}

fn sq(s: &str) -> String {
    // the generator never produces a single quote
    assert!(!s.contains('\''));
    format!("'{}'", s)
}

fn render(units: &[Unit], noglob: bool) -> Rendered {
    let mut word = String::new();
    let mut attrs = vec![];
    let mut assigns = String::from("IFS=; ");
    let mut nvar = 0;
    for u in units {
        match u {
            Unit::Plain(c) => {
                word.push(*c);
                attrs.push(ac(*c, Origin::Literal, false, false));
            }
            Unit::Bs(c) => {
                word.push('\\');
                word.push(*c);
                attrs.push(ac('\\', Origin::Literal, false, true));
                attrs.push(ac(*c, Origin::Literal, true, false));
            }
            Unit::Sq(s) => {
                word.push_str(&sq(s));
                attrs.push(ac('\'', Origin::Literal, false, true));
                attrs.extend(s.chars().map(|c| ac(c, Origin::Literal, true, false)));
                attrs.push(ac('\'', Origin::Literal, false, true));
            }
            Unit::Dq(s) => {
                word.push_str(&format!("\"{}\"", s));
                attrs.push(ac('"', Origin::Literal, false, true));
                attrs.extend(s.chars().map(|c| ac(c, Origin::Literal, true, false)));
                attrs.push(ac('"', Origin::Literal, false, true));
            }
            Unit::Var(s) => {
                assigns.push_str(&format!("v{}={}; ", nvar, sq(s)));
                word.push_str(&format!("${{v{}}}", nvar));
                nvar += 1;
                attrs.extend(s.chars().map(|c| ac(c, Origin::SoftExpansion, false, false)));
            }
            Unit::DqVar(s) => {
                assigns.push_str(&format!("v{}={}; ", nvar, sq(s)));
                word.push_str(&format!("\"${{v{}}}\"", nvar));
                nvar += 1;
                attrs.push(ac('"', Origin::Literal, false, true));
                attrs.extend(s.chars().map(|c| ac(c, Origin::SoftExpansion, true, false)));
                attrs.push(ac('"', Origin::Literal, false, true));
            }
            Unit::Tilde(s) => {
                assigns.push_str(&format!("HOME={}; ", sq(s)));
                word.push('~');
                attrs.extend(s.chars().map(|c| ac(c, Origin::HardExpansion, false, false)));
            }
        }
    }
    let script = format!("{}{}args {}", assigns, if noglob { "set -f; " } else { "" }, word);
    Rendered { script, word, attrs }
}

// ---------------------------------------------------------------------------
// running the implementation

enum Out {
    Fields(Vec<String>),
    Panic(String),
}

fn run_api(tree: &Tree, cwd: &str, reset: bool, noglob: bool, field: &[AttrChar]) -> (Tree, Vec<String>, Out) {
    let system = VirtualSystem::new();
    build_tree(&mut system.state.borrow_mut(), tree, reset);
    if !cwd.is_empty() {
        system.current_process_mut().chdir(PathBuf::from(cwd));
    }
    let snap = snapshot(&system.state.borrow());
    let broken = broken_links(&snap);
    let chars = field.to_vec();
    let r = catch_unwind(AssertUnwindSafe(move || {
        let mut env = Env::with_system(Rc::new(Concurrent::new(system)));
        if noglob {
            env.options.set(ShOption::Glob, OptState::Off);
        }
        let f = AttrField { chars, origin: Location::dummy("") };
        let mut v = vec![];
        for r in glob(&mut env, f) {
            match r {
                Ok(f) => v.push(f.value),
                Err(_) => return Err("interrupted".to_string()),
            }
        }
        Ok(v)
    }));
    let out = match r {
        Ok(Ok(v)) => Out::Fields(v),
        Ok(Err(m)) => Out::Panic(m),
        Err(_) => Out::Panic("panic".into()),
    };
    (snap, broken, out)
}

fn run_shell(tree: &Tree, cwd: &str, script: &str) -> (Tree, Vec<String>, Out) {
    let tree2 = tree.clone();
    let cwd2 = cwd.to_string();
    let snap_cell: Rc<RefCell<(Tree, Vec<String>)>> = Rc::new(RefCell::new((vec![], vec![])));
    let snap_cell2 = Rc::clone(&snap_cell);
    let (o, _) = vsh::run_shell(
        vsh::RunOpts { argv: vec!["-c".into(), script.into()], ..Default::default() },
        move |env, state| {
            build_tree(&mut state.borrow_mut(), &tree2, false);
            if !cwd2.is_empty() {
                let pid = env.main_pid;
                state.borrow_mut().processes.get_mut(&pid).unwrap().chdir(PathBuf::from(cwd2.as_str()));
            }
            let snap = snapshot(&state.borrow());
            let broken = broken_links(&snap);
            *snap_cell2.borrow_mut() = (snap, broken);
        },
    );
    let (snap, broken) = snap_cell.borrow().clone();
    let out = if let Some(m) = o.panicked {
        Out::Panic(m)
    } else if o.deadlock || o.timeout {
        Out::Panic("hang".into())
    } else {
        let items: Vec<&vsh::TraceItem> = o.trace.iter().filter(|t| t.kind == "args").collect();
        if items.len() != 1 {
            Out::Panic(format!("args ran {} times; stderr: {}", items.len(), o.stderr))
        } else {
            Out::Fields(items[0].args.clone())
        }
    };
    (snap, broken, out)
}

// ---------------------------------------------------------------------------
// printing

fn origin_coq(o: Origin) -> &'static str {
    match o {
        Origin::Literal => "OLiteral",
        Origin::HardExpansion => "OHard",
        Origin::SoftExpansion => "OSoft",
    }
}

fn field_coq(f: &[AttrChar]) -> String {
    if f.is_empty() {
        return "(@nil achar)".into();
    }
    let v: Vec<String> = f
        .iter()
        .map(|c| {
            format!("(AC {} {} {} {})", c.value as u32, origin_coq(c.origin), coq::b(c.is_quoted), coq::b(c.is_quoting))
        })
        .collect();
    format!("[{}]", v.join("; "))
}

fn field_show(f: &[AttrChar]) -> String {
    let mut s = String::new();
    for c in f {
        if c.is_quoting {
            s.push_str(&format!("<{}>", c.value));
        } else if c.origin == Origin::HardExpansion {
            s.push_str(&format!("{{H{}{}}}", if c.is_quoted { "q" } else { "" }, c.value));
        } else if c.is_quoted {
            s.push_str(&format!("{{q{}}}", c.value));
        } else {
            s.push(c.value);
        }
    }
    s
}

fn strs_coq(l: &[String]) -> String {
    if l.is_empty() {
        return "(@nil str)".into();
    }
    let v: Vec<String> = l.iter().map(|s| coq::s(s)).collect();
    format!("[{}]", v.join("; "))
}

fn tree_coq(t: &Tree) -> String {
    if t.is_empty() {
        return "(@nil (list str * kind))".into();
    }
    let v: Vec<String> = t
        .iter()
        .map(|n| {
            let k = match &n.kind {
                Kind::File => "KFile".to_string(),
                Kind::Dir(x) => format!("(KDir {})", coq::b(*x)),
                Kind::Link(tg) => format!("(KLink {})", coq::s(tg)),
            };
            format!("({}, {})", strs_coq(&n.path), k)
        })
        .collect();
    format!("[{}]", v.join("; "))
}

fn tree_show(t: &Tree) -> Vec<String> {
    t.iter()
        .map(|n| {
            let p = n.path.join("/");
            match &n.kind {
                Kind::File => p,
                Kind::Dir(true) => format!("{}/", p),
                Kind::Dir(false) => format!("{}/ (not searchable)", p),
                Kind::Link(tg) => format!("{} -> {}", p, tg),
            }
        })
        .collect()
}

struct Ctx {
    w: CasesWriter,
    /// working directory of the shell process for the next cases ("" = the default)
    cwd: String,
}

impl Ctx {
    #[allow(clippy::too_many_arguments)]
    fn emit(
        &mut self,
        stream: &str,
        snap: &Tree,
        broken: &[String],
        noglob: bool,
        field: &[AttrChar],
        script: Option<&str>,
        out: &Out,
    ) {
        // a literal last component naming a link that cannot be followed (on the
        // virtual file system `link/.` names the link itself)
        let last = last_component_text(field);
        if !noglob && !broken.is_empty() && (last == "." || broken.iter().any(|b| *b == last)) {
            self.w.count("last-names-broken-link");
        }
        let (out_coq, out_json, nontrivial) = match out {
            Out::Fields(v) => {
                let unq: String = field.iter().filter(|c| !c.is_quoting).map(|c| c.value).collect();
                let real = !(v.len() == 1 && v[0] == unq);
                (format!("(GFields {})", strs_coq(v)), json_str_list(v), real)
            }
            Out::Panic(m) => ("GPanic".to_string(), json_str(&format!("PANIC: {}", m)), true),
        };
        let term = format!(
            "(GlobCase {} {} {} {} {})",
            tree_coq(snap),
            coq::s(&self.cwd),
            coq::b(noglob),
            field_coq(field),
            out_coq
        );
        let json = format!(
            "{{\"stream\":{},\"tree\":{},\"cwd\":{},\"noglob\":{},\"field\":{},{}\"result\":{}}}",
            json_str(stream),
            json_str_list(&tree_show(snap)),
            json_str(&self.cwd),
            noglob,
            json_str(&field_show(field)),
            match script {
                Some(s) => format!("\"script\":{},", json_str(s)),
                None => String::new(),
            },
            out_json
        );
        self.w.count(&format!("stream:{}", stream));
        if noglob {
            self.w.count("noglob");
        }
        self.w.count(if self.cwd.is_empty() { "cwd:default" } else { "cwd:set" });
        if let Out::Fields(v) = out {
            self.w.count(if !nontrivial {
                "result:field-itself"
            } else if v.len() == 1 {
                "result:1-path"
            } else {
                "result:2+-paths"
            });
        }
        let ncomp = field.iter().filter(|c| c.value == '/').count() + 1;
        self.w.count(&format!("components:{}", ncomp.min(4)));
        if snap.iter().any(|n| matches!(n.kind, Kind::Link(_))) {
            self.w.count("tree:has-link");
        }
        if snap.iter().any(|n| n.kind == Kind::Dir(false)) {
            self.w.count("tree:has-unsearchable-dir");
        }
        let key = if nontrivial {
            Some(format!("{}|{}|{}|{}", tree_show(snap).join(","), self.cwd, noglob, field_show(field)))
        } else {
            None
        };
        self.w.push(&term, &json, &[], key);
    }

    fn api(&mut self, stream: &str, tree: &Tree, reset: bool, noglob: bool, field: &[AttrChar]) {
        if field.is_empty() {
            self.w.count("skipped:domain");
            return;
        }
        let (snap, broken, out) = run_api(tree, &self.cwd.clone(), reset, noglob, field);
        self.emit(stream, &snap, &broken, noglob, field, None, &out);
    }

    fn shell(&mut self, stream: &str, tree: &Tree, noglob: bool, units: &[Unit]) {
        let r = render(units, noglob);
        if r.attrs.is_empty() {
            self.w.count("skipped:domain");
            return;
        }
        let (snap, broken, out) = run_shell(tree, &self.cwd.clone(), &r.script);
        let _ = &r.word;
        self.emit(stream, &snap, &broken, noglob, &r.attrs, Some(&r.script), &out);
    }
}

fn plain_units(s: &str) -> Vec<Unit> {
    s.chars().map(Unit::Plain).collect()
}

fn main() {
    let args = Args::parse();
    let mut rng = Rng::new(args.seed);
    let mut cx = Ctx { w: CasesWriter::new(&args, "Yv.C05.Run", if args.thorough() { 150 } else { 60 }), cwd: String::new() };
    let fixed = fixed_trees();

    // ---- corpus -----------------------------------------------------------
    let corpus: &[(usize, &str)] = &[
        (0, "*"),
        (0, ".*"),
        (0, "?"),
        (0, "??"),
        (0, "[ab]*"),
        (0, "[!a]*"),
        (0, "[a-b]"),
        (0, "[b-a]"),
        (0, "[b-a]*"),
        (0, "a[]]"),
        (0, "[[]"),
        (0, "[*]"),
        (0, "[-]"),
        (0, "[.]a"),
        (0, "*/a"),
        (0, "*/*"),
        (0, "*/*/*"),
        (0, "sub/*"),
        (0, "sub/.*"),
        (0, "sub//*"),
        (0, "/*"),
        (0, "//s*//a"),
        (0, "*/"),
        (0, "*//"),
        (0, "./*"),
        (0, "../*"),
        (0, "sub/../*"),
        (0, "*/."),
        (0, "*/.."),
        (0, "a/*"),
        (0, "a/"),
        (0, "nonexistent/*"),
        (0, "\\*"),
        (0, "a\\b"),
        (0, "*\\]"),
        (1, "*"),
        (1, "a/*"),
        (1, "*/a"),
        (1, "b/*"),
        (1, "b/*/a"),
        (1, "b/b/*"),
        (1, "l/*"),
        (1, "*/"),
        (1, "l*"),
        (1, "*/l"),
        (1, "*/l2"),
        (1, "a*/abs"),
        (1, "u*/a"),
        (1, "up/*"),
        (1, "a/s*"),
        (1, "a/d*"),
        (1, "*/../l"),
        (1, "*/../l2"),
        (1, "*/../abs"),
        (1, "*/../up"),
        (1, "a/../l*"),
        (6, "*/../k1"),
        (6, "*/../k2"),
        (6, "*/../k3"),
        (6, "d/../k*"),
        (6, "*/../t"),
        (6, "*/../u"),
        (6, "*/../u/"),
        (6, "*/../w"),
        // `.` and `..` are resolved only in a directory (b4af618)
        (2, "?/."),
        (2, "?/.."),
        (2, "?/../a"),
        (2, "*/./a"),
        (2, "*/../?"),
        (2, "[?*]/."),
        (1, "*/.."),
        (1, "l/../*"),
        (1, "up/../*"),
        (1, "*/../a/*"),
        (1, "a/*/."),
        (1, "a/*/.."),
        (7, "sub/d*"),
        (7, "*/dl"),
        (7, "*/f"),
        (7, "*/*"),
        (1, "*/d"),
        (1, "*/self"),
        (2, "*"),
        (2, "\\*"),
        (2, "\\?"),
        (2, "[\\]"),
        (2, "[a]"),
        (2, "[[]a]"),
        (2, "*/*"),
        (2, "?/a"),
        (2, "[!-^]"),
        (2, "[a-]b"),
        (2, "[!a-]*"),
        (3, "*"),
        (3, "/"),
        (3, "."),
    ];
    for (ti, f) in corpus {
        cx.api("corpus-api", &fixed[*ti], true, false, &soft(f));
        // the same through the shell: as an unquoted variable and, where the
        // characters allow it, as plain text
        cx.shell("corpus-shell", &fixed[*ti], false, &[Unit::Var(f.to_string())]);
        if !f.contains('\\') {
            cx.shell("corpus-shell", &fixed[*ti], false, &plain_units(f));
        }
    }
    // quoting and noglob
    let quoted: &[(usize, Vec<Unit>, bool)] = &[
        (0, vec![Unit::Sq("*".into())], false),
        (0, vec![Unit::Dq("*".into())], false),
        (0, vec![Unit::Bs('*')], false),
        (0, vec![Unit::Plain('a'), Unit::Bs('*')], false),
        (0, vec![Unit::Plain('*'), Unit::Sq("]".into())], false),
        (0, vec![Unit::Plain('['), Unit::Sq("a".into()), Unit::Plain(']')], false),
        (0, vec![Unit::Plain('['), Unit::Bs(']'), Unit::Plain(']')], false),
        (0, vec![Unit::Plain('['), Unit::Plain('a'), Unit::Bs('-'), Unit::Plain('b'), Unit::Plain(']')], false),
        (0, vec![Unit::Sq("sub/".into()), Unit::Plain('*')], false),
        (0, vec![Unit::Plain('s'), Unit::Plain('u'), Unit::Plain('b'), Unit::Bs('/'), Unit::Plain('*')], false),
        (0, vec![Unit::DqVar("*".into())], false),
        (0, vec![Unit::Var("*".into())], false),
        (0, vec![Unit::Var("\\*".into())], false),
        (0, vec![Unit::Var("\\".into()), Unit::Plain('*')], false),
        (0, vec![Unit::Var("\\".into()), Unit::Sq("a".into()), Unit::Plain('*')], false),
        (0, vec![Unit::Tilde("*".into())], false),
        (0, vec![Unit::Tilde("sub".into()), Unit::Plain('/'), Unit::Plain('*')], false),
        (0, vec![Unit::Tilde("/sub".into()), Unit::Plain('/'), Unit::Plain('*')], false),
        (0, vec![Unit::Plain('*')], true),
        (0, vec![Unit::Plain('*'), Unit::Sq("x".into())], true),
        (0, vec![Unit::Sq("".into())], false),
        (2, vec![Unit::Var("\\*".into())], false),
        (2, vec![Unit::Var("\\?".into())], false),
        (2, vec![Unit::Var("\\a".into())], false),
        (2, vec![Unit::Var("\\\\".into())], false),
        // an unquoted backslash, then empty quotes, then a special character
        (0, vec![Unit::Var("\\".into()), Unit::Sq("".into()), Unit::Plain('*')], false),
        (2, vec![Unit::Var("\\".into()), Unit::Dq("".into()), Unit::Plain('*')], false),
        (2, vec![Unit::Var("\\".into()), Unit::Dq("".into()), Unit::Plain('?')], false),
        (2, vec![Unit::Var("\\".into()), Unit::Sq("".into()), Unit::Var("a".into())], false),
        // invalid patterns (reversed range) with quotes
        (5, vec![Unit::Sq("a".into()), Unit::Var("[b-a]".into())], false),
        (5, vec![Unit::Sq("a".into()), Unit::Var("[b-a]/*".into())], false),
        (5, vec![Unit::Plain('*'), Unit::Plain('/'), Unit::Sq("a".into()), Unit::Var("[b-a]".into())], false),
        (5, vec![Unit::Var("[b-a]".into()), Unit::Sq("".into()), Unit::Plain('/'), Unit::Plain('*')], false),
        (5, vec![Unit::Var("[b".into()), Unit::Bs('-'), Unit::Var("a]".into())], false),
        (5, vec![Unit::Var("[b-a".into()), Unit::Bs(']'), Unit::Plain(']')], false),
        (5, vec![Unit::Plain('*'), Unit::Var("[b-a]".into())], false),
    ];
    for (ti, units, ng) in quoted {
        cx.shell("corpus-shell", &fixed[*ti], *ng, units);
        let r = render(units, *ng);
        cx.api("corpus-api", &fixed[*ti], true, *ng, &r.attrs);
    }

    // an escaped (literal) backslash directly followed by an unquoted wildcard
    let bs_corpus: &[Vec<Unit>] = &[
        vec![Unit::Bs('\\'), Unit::Plain('*')],
        vec![Unit::Bs('\\'), Unit::Plain('?')],
        vec![Unit::Bs('\\'), Unit::Plain('?'), Unit::Plain('?')],
        vec![Unit::Bs('\\'), Unit::Plain('['), Unit::Plain('a'), Unit::Plain('x'), Unit::Plain(']'), Unit::Plain('*')],
        vec![Unit::Plain('d'), Unit::Plain('/'), Unit::Bs('\\'), Unit::Plain('['), Unit::Plain('a'), Unit::Plain('b'), Unit::Plain(']')],
        vec![Unit::Plain('d'), Unit::Plain('/'), Unit::Bs('\\'), Unit::Plain('*')],
        vec![Unit::Plain('*'), Unit::Plain('/'), Unit::Bs('\\'), Unit::Plain('?')],
        vec![Unit::Sq("\\".into()), Unit::Plain('*')],
        vec![Unit::Sq("\\".into()), Unit::Var("*".into())],
        vec![Unit::DqVar("\\".into()), Unit::Plain('?')],
        vec![Unit::Plain('a'), Unit::Bs('\\'), Unit::Plain('?')],
        vec![Unit::Bs('\\'), Unit::Bs('\\'), Unit::Plain('*')],
        // in an unquoted expansion the first backslash stays and quotes the second
        vec![Unit::Var("\\\\*".into())],
        vec![Unit::Var("\\\\?".into())],
        vec![Unit::Var("d/\\\\[ab]".into())],
        vec![Unit::Var("\\".into()), Unit::Bs('\\'), Unit::Plain('*')],
    ];
    for units in bs_corpus {
        for ti in [9usize, 2] {
            cx.shell("corpus-shell", &fixed[ti], false, units);
            let r = render(units, false);
            cx.api("corpus-api", &fixed[ti], true, false, &r.attrs);
        }
    }
    // character classes, collating symbols, equivalence classes
    for f in [
        "[[:alpha:]]*", "[![:alpha:]]*", "[[:punct:]]", "[[:punct:]]*", "[[:digit:]]", "[[:lower:]][[:lower:]]", "[[:upper:]]*",
        "[[:alpha:][:punct:]]", "[[:space:]]", "[[.a.]]b", "[[.ab.]]", "[[=a=]]*", "[[.ab.]a]*", "[[.ab.]]*", "[![.ab.]]*",
        "[![.ab.]-]", "[^[.ab.][=a]=]]", "[[:foo:]]*", "[[::]]*", "[[:alpha:]-z]", "[a-[:alpha:]]", "*[[:alpha:]", "[[.-.]]",
        "[[.].]]", "[[..]]", "[[==]]a", "[[.a.]-b]", "[[.ab.]-b]*", "[!-[.a.]]", "[[.a.]", "sub/[[:alpha:]]", "*/[[.a.]]",
        "[[.su.]]ub", "[[.su.]s]*", "[[:alpha:]]]", "[[.[.]]", "[[.*.]]", "[[=*=][=[=]]",
    ] {
        cx.api("corpus-api", &fixed[0], true, false, &soft(f));
        cx.shell("corpus-shell", &fixed[0], false, &[Unit::Var(f.to_string())]);
        cx.shell("corpus-shell", &fixed[0], false, &plain_units(f));
    }
    // `?` matches one character, whatever its length in bytes
    for f in [
        "?.txt", "??.txt", "café?", "caf??", "caf???", "c?f??", "??", "???", "?", "????", "??????", "?a", "a?", "e?", "e??", "é?",
        "?/??", "ñ/??", "?/?a", "?/é?", "d/?.txt", "d/??.txt", "*/?.txt", "日?", "?本", "日本?", "./??", "/??",
    ] {
        cx.api("corpus-api", &fixed[11], true, false, &soft(f));
        cx.shell("corpus-shell", &fixed[11], false, &[Unit::Var(f.to_string())]);
        cx.shell("corpus-shell", &fixed[11], false, &plain_units(f));
    }
    // the class tables: one-character names spread over ASCII (and one beyond)
    {
        let chars = [
            '_', '0', '9', 'A', 'F', 'G', 'Z', 'a', 'f', 'g', 'z', '!', '@', '[', '`', '{', '~', '-', ' ', 'é', '\t', '\u{1}',
            '\u{7f}', ':', '^', ']', '\\', '*', '?', '+', ',', '#', '$', '\u{b}', '\u{a0}',
        ];
        let tr: Tree = chars.iter().map(|c| Node { path: vec![c.to_string()], kind: Kind::File }).collect();
        for class in ["alnum", "alpha", "ascii", "blank", "cntrl", "digit", "graph", "lower", "print", "punct", "space", "upper", "word", "xdigit", "Alpha", "alpha "] {
            cx.api("class-api", &tr, true, false, &soft(&format!("[[:{}:]]", class)));
            cx.api("class-api", &tr, true, false, &soft(&format!("[![:{}:]]", class)));
            cx.shell("class-shell", &tr, false, &[Unit::Var(format!("[[:{}:]]", class))]);
        }
        cx.api("class-api", &tr, true, false, &soft("[[:alpha:][:digit:]_]"));
        cx.api("class-api", &tr, true, false, &soft("[![:alnum:][:punct:]]"));
        cx.api("class-api", &tr, true, false, &soft("[[.a.]-[.f.]]"));
        cx.api("class-api", &tr, true, false, &soft("[[=A=]-[=F=][:digit:]]"));
        cx.api("class-api", &tr, true, false, &soft("[[. .]-[.~.]]"));
    }
    // quoting inside the elements: a quoted delimiter does not delimit
    for units in [
        vec![Unit::Plain('['), Unit::Plain('['), Unit::Bs(':'), Unit::Var("alpha:]]*".into())],
        vec![Unit::Var("[[:alpha".into()), Unit::Sq(":".into()), Unit::Var("]]*".into())],
        vec![Unit::Var("[[:al".into()), Unit::Sq("ph".into()), Unit::Var("a:]]*".into())],
        vec![Unit::Var("[[.".into()), Unit::Sq("a".into()), Unit::Var(".]]*".into())],
        vec![Unit::Var("[[.a.".into()), Unit::Bs(']'), Unit::Var("]*".into())],
        vec![Unit::Var("[".into()), Unit::Bs('['), Unit::Var(":alpha:]]*".into())],
    ] {
        cx.shell("corpus-shell", &fixed[0], false, &units);
        let r = render(&units, false);
        cx.api("corpus-api", &fixed[0], true, false, &r.attrs);
    }
    // tilde expansion results are literal: HOME full of pattern characters
    for home in ["/a*", "/*", "/[ab]", "/?", "a*", "*", "[ab]", "/a*/", "/h\\*", "/nonexistent*"] {
        for rest in ["", "/x", "/*", "/?", "/[x]"] {
            let mut units = vec![Unit::Tilde(home.to_string())];
            units.extend(plain_units(rest));
            if home.ends_with('/') && rest.starts_with('/') {
                continue; // (a HOME ending in a slash loses it before a slash)
            }
            cx.shell("tilde-shell", &fixed[10], false, &units);
        }
    }
    // which places of the language expand pathnames at all (tree: files a and b)
    {
        let ctx_tree = t(&[("a", Kind::File), ("b", Kind::File)]);
        let scenarios: &[(&str, &str)] = &[
            ("CxCommandWord", "args *"),
            ("CxCommandWord", "args ./*"),
            ("CxForList", "for x in *; do args \"$x\"; done"),
            ("CxSetArgs", "set -- *; args \"$@\""),
            ("CxEvalWord", "eval 'args *'"),
            ("CxUnquotedParam", "v='*'; args $v"),
            ("CxUnquotedParam", "v='*'; args ${v}"),
            ("CxUnquotedPositional", "set -- '*'; args $1"),
            ("CxUnquotedPositional", "set -- '*'; args $@"),
            ("CxUnquotedPositional", "set -- '*'; args $*"),
            ("CxUnquotedDefault", "unset u; args ${u:-*}"),
            ("CxUnquotedDefault", "unset u; args ${u-*}"),
            ("CxCommandSubst", "args $(echo '*')"),
            ("CxCommandSubst", "args `echo '*'`"),
            ("CxFunctionArg", "f() { args $1; }; f '*'"),
            ("CxQuotedParam", "v='*'; args \"$v\""),
            ("CxQuotedAt", "set -- '*'; args \"$@\""),
            ("CxQuotedAt", "set -- '*'; args \"$*\""),
            ("CxQuotedDefault", "unset u; args \"${u:-*}\""),
            ("CxCaseSubject", "case * in ('*') args '*';; (*) args a;; esac"),
            ("CxCaseSubject", "v='*'; case $v in ('*') args '*';; (*) args a;; esac"),
            ("CxRedirOperand", "echo hi > *; args *"),
            ("CxRedirOperand", "v='*'; echo hi > $v; args *"),
            ("CxRedirOperand", "echo hi >> *; args *"),
            ("CxAssignValue", "v=*; args \"$v\""),
            ("CxAssignValue", "w='*'; v=$w; args \"$v\""),
            ("CxAssignValue", "v=* eval 'args \"$v\"'"),
            ("CxAssignDefault", "unset d; : ${d=*}; args \"$d\""),
            ("CxDeclUtilAssign", "export e=*; args \"$e\""),
            ("CxDeclUtilAssign", "readonly r=*; args \"$r\""),
            ("CxDeclUtilAssign", "w='*'; export e=$w; args \"$e\""),
            ("CxNoglobCommandWord", "set -f; args *"),
            ("CxNoglobCommandWord", "set -o noglob; for x in *; do args \"$x\"; done"),
        ];
        for (cx_name, script) in scenarios {
            let tree2 = ctx_tree.clone();
            let (o, _) = vsh::run_shell(
                vsh::RunOpts { argv: vec!["-c".into(), script.to_string()], ..Default::default() },
                move |_env, state| build_tree(&mut state.borrow_mut(), &tree2, false),
            );
            let seen: Vec<String> =
                o.trace.iter().filter(|t| t.kind == "args").flat_map(|t| t.args.clone()).collect();
            let star = seen.iter().any(|s| s == "*" || s == "./*");
            let file = seen.iter().any(|s| s == "a" || s == "./a");
            let observed = if o.panicked.is_some() || o.deadlock || o.timeout {
                None
            } else if star {
                Some(false)
            } else if file {
                Some(true)
            } else {
                None
            };
            let term = format!("(ContextCase {} {})", cx_name, coq::opt(observed.map(coq::b)));
            let json = format!(
                "{{\"stream\":\"context\",\"context\":{},\"script\":{},\"seen\":{},\"stderr\":{}}}",
                json_str(cx_name),
                json_str(script),
                json_str_list(&seen),
                json_str(&o.stderr)
            );
            cx.w.count("stream:context");
            cx.w.push(&term, &json, &[], Some(format!("context|{}", script)));
        }
    }
    // the order of results across directories
    for f in ["a*/f", "*/f", "?*/f", "a?*/f", "a*/*", "x*/f", "x*/*", "lib*/f", "lib*/sub/f", "lib*/*/f", "l*/s*/*", "[al]*/f", "a[!z]*/f", "./a*/f", "/a*/f", "a*//f"] {
        cx.api("corpus-api", &fixed[8], true, false, &soft(f));
        cx.shell("corpus-shell", &fixed[8], false, &[Unit::Var(f.to_string())]);
        cx.shell("corpus-shell", &fixed[8], false, &plain_units(f));
    }
    // long pathnames: nothing may be omitted when the directory part reaches 1024 bytes
    {
        let x = |c: char, n: usize| -> String { std::iter::repeat(c).take(n).collect() };
        let six = long_tree(&[200, 200, 200, 200, 200, 200]);
        // (every pattern component names its level: the oracle enumerates the product
        // of the candidates of all components, so `*` at six levels would be 7^6 tuples)
        // (the quick tier keeps a part of the long cases: they cost about 1.5 s each in Coq)
        let full = args.thorough();
        let six_fields: &[&str] = if full {
            &["p*/q*/r*/s*/t*/u*/f", "p*/q*/r*/s*/t*/u*/*", "p*/q*/r*/s*/t*/u*", "p*/q*/r*/s*/t*/u*/[f]", "p*/q*/r*/s*/t*/u*/.*", "*/*"]
        } else {
            &["p*/q*/r*/s*/t*/u*/*", "p*/q*/r*/s*/t*/u*/.*"]
        };
        for f in six_fields {
            cx.api("long-api", &six, true, false, &soft(f));
        }
        let lit5 = format!("{}/{}/{}/{}/{}", x('p', 200), x('q', 200), x('r', 200), x('s', 200), x('t', 200));
        if full {
            cx.api("long-api", &six, true, false, &soft(&format!("{}/*/*", lit5)));
        }
        let lit6 = format!("{}/{}/{}/{}/{}/{}", x('p', 200), x('q', 200), x('r', 200), x('s', 200), x('t', 200), x('u', 200));
        cx.api("long-api", &six, true, false, &soft(&format!("{}/*", lit6)));
        cx.shell("long-shell", &six, false, &[Unit::Var("p*/q*/r*/s*/t*/u*/f".to_string())]);
        if full {
            cx.api("long-api", &six, true, false, &soft(&format!("{}/?", lit6)));
            cx.api("long-api", &six, true, false, &soft(&format!("*/{}/f", &lit6[201..])));
            cx.shell("long-shell", &six, false, &[Unit::Var(format!("{}/*", lit6))]);
        }
        // directory part (with its final slash) of exactly 1022 .. 1026 bytes:
        // 256 + 256 + 256 + 201 + m + 1
        for m in [52usize, 53, 54, 55, 56] {
            if !full && (m == 52 || m == 56) {
                continue;
            }
            let tr = long_tree(&[255, 255, 255, 200, m]);
            cx.api("long-api", &tr, true, false, &soft("p*/q*/r*/s*/t*/*"));
            let lit = format!("{}/{}/{}/{}/{}", x('p', 255), x('q', 255), x('r', 255), x('s', 200), x('t', m));
            if full || m == 54 {
                cx.api("long-api", &tr, true, false, &soft(&format!("{}/*", lit)));
            }
            if full && m == 54 {
                cx.api("long-api", &tr, true, false, &soft("p*/q*/r*/s*/t*/f"));
                cx.api("long-api", &tr, true, false, &soft(&format!("/{}/*", lit)));
            }
            if full || m == 54 {
                cx.shell("long-shell", &tr, false, &[Unit::Var("p*/q*/r*/s*/t*/*".to_string())]);
            }
        }
        // a working directory deep in the tree, patterns relative to it
        cx.cwd = format!("/{}", lit6);
        cx.api("long-api", &six, true, false, &soft("*"));
        if full {
            cx.api("long-api", &six, true, false, &soft("../*/f"));
        }
        cx.cwd = String::new();
        // single names of 255 bytes
        let one = long_tree(&[255]);
        cx.api("long-api", &one, true, false, &soft("*"));
        cx.api("long-api", &one, true, false, &soft("p*/*"));
        cx.api("long-api", &one, true, false, &soft(&format!("{}*", x('p', 254))));
        cx.api("long-api", &one, true, false, &soft(&format!("{}?/f", x('p', 254))));
    }

    // working directories
    let cwd_corpus: &[(usize, &str, &str)] = &[
        (0, "/sub", "*"),
        (0, "/sub", "/*"),
        (0, "/sub", "b/*"),
        (0, "/sub", "../*"),
        (0, "/sub", "./.*"),
        (0, "/sub/", "*"),
        (0, "/sub/b", "*/a"),
        (0, "/sub/b/..", "*"),
        (0, "/", "*"),
        (0, "/a", "*"),
        (0, "/nonexistent", "*"),
        (0, "/nonexistent", "/*"),
        (1, "/a", "*"),
        (1, "/a", "../*/l"),
        (1, "/a", "*/../l"),
        (1, "/b", "*"),
        (1, "/b", "/b/*"),
        (1, "/b/b", "*"),
        (6, "/d", "../k*"),
        (6, "/d", "*/../../k2"),
    ];
    for (ti, cwd, f) in cwd_corpus {
        cx.cwd = cwd.to_string();
        cx.api("corpus-api", &fixed[*ti], true, false, &soft(f));
        cx.shell("corpus-shell", &fixed[*ti], false, &[Unit::Var(f.to_string())]);
    }
    cx.cwd = String::new();

    // ---- bounded-exhaustive (thorough) ---------------------------------------
    if args.thorough() {
        let alpha: &[char] = &['a', '.', '*', '?', '[', ']', '/', '\\', '-', '!'];
        let mut fields: Vec<String> = vec![String::new()];
        let mut frontier = vec![String::new()];
        for _ in 0..3 {
            let mut next = vec![];
            for f in &frontier {
                for &c in alpha {
                    let mut g = f.clone();
                    g.push(c);
                    next.push(g);
                }
            }
            fields.extend(next.iter().cloned());
            frontier = next;
        }
        for ti in [4usize, 2] {
            for f in &fields {
                if f.is_empty() {
                    continue;
                }
                cx.api("exhaustive-api", &fixed[ti], true, false, &soft(f));
            }
        }
        // every field of length <= 3 over six characters, each either unquoted or quoted
        {
            let syms: Vec<AttrChar> = ['a', '*', '[', ']', '/', '.']
                .iter()
                .flat_map(|&c| [ac(c, Origin::SoftExpansion, false, false), ac(c, Origin::Literal, true, false)])
                .collect();
            let mut frontier: Vec<Vec<AttrChar>> = vec![vec![]];
            for _ in 0..3 {
                let mut next = vec![];
                for f in &frontier {
                    for &c in &syms {
                        let mut g = f.clone();
                        g.push(c);
                        next.push(g);
                    }
                }
                for f in &next {
                    if f.iter().any(|c| c.is_quoted) {
                        cx.api("exhaustive-api", &fixed[4], true, false, f);
                    }
                }
                frontier = next;
            }
        }
        // length 4 over the hottest characters
        let alpha4: &[char] = &['a', '*', '/', '.', '['];
        let mut f4 = vec![String::new()];
        for _ in 0..4 {
            let mut next = vec![];
            for f in &f4 {
                for &c in alpha4 {
                    let mut g = f.clone();
                    g.push(c);
                    next.push(g);
                }
            }
            f4 = next;
        }
        for f in &f4 {
            cx.api("exhaustive-api", &fixed[4], true, false, &soft(f));
        }
    }

    // ---- random -----------------------------------------------------------
    let n_trees = args.scale(120, 3500);
    let per_tree_api = args.scale(8, 8);
    let per_tree_shell = args.scale(3, 3);
    for ti in 0..n_trees {
        let mut trng = rng.fork(ti as u64);
        let tree = if ti % 10 == 9 { fixed[ti / 10 % fixed.len()].clone() } else { gen_tree(&mut trng) };
        let reset = !trng.chance(1, 8);
        // the working directory: mostly the default or a directory of the tree
        let dirs: Vec<&Node> = tree.iter().filter(|n| matches!(n.kind, Kind::Dir(_))).collect();
        cx.cwd = match trng.below(20) {
            0..=9 => String::new(),
            10 | 11 => "/".to_string(),
            12 => "/zz".to_string(),
            13 if !tree.is_empty() => format!("/{}", trng.pick(&tree).path.join("/")),
            14 if !dirs.is_empty() => format!("/{}/..", trng.pick(&dirs).path.join("/")),
            15 if !dirs.is_empty() => format!("/{}/", trng.pick(&dirs).path.join("/")),
            _ if !dirs.is_empty() => format!("/{}", trng.pick(&dirs).path.join("/")),
            _ => String::new(),
        };
        // fields are aimed at the part of the tree below the working directory
        let view = if trng.chance(1, 6) { tree.clone() } else { relative_view(&tree, &cx.cwd) };
        for _ in 0..per_tree_api {
            let noglob = trng.chance(1, 12);
            let field = match trng.below(20) {
                0..=8 => gen_targeted_field(&mut trng, &view),
                9 => gen_bsname_field(&mut trng, &view),
                10 => gen_element_field(&mut trng, &view),
                11..=13 => gen_bracket_field(&mut trng, &view),
                14 | 15 => gen_backslash_field(&mut trng, &view),
                _ => gen_attr_field(&mut trng),
            };
            cx.api("random-api", &tree, reset, noglob, &field);
        }
        for _ in 0..per_tree_shell {
            let noglob = trng.chance(1, 10);
            let units = if trng.chance(2, 3) {
                // a targeted field, rendered through an unquoted variable and quoted pieces
                let f = match trng.below(8) {
                    7 => gen_element_field(&mut trng, &view),
                    0 | 1 => gen_bracket_field(&mut trng, &view),
                    2 => gen_backslash_field(&mut trng, &view),
                    3 => gen_bsname_field(&mut trng, &view),
                    _ => gen_targeted_field(&mut trng, &view),
                };
                let mut units = vec![];
                let mut cur = String::new();
                let mut prev_quoting = false;
                for c in &f {
                    if c.is_quoting {
                        // two quoting characters in a row: an empty pair of quotes
                        if prev_quoting {
                            if !cur.is_empty() {
                                units.push(Unit::Var(std::mem::take(&mut cur)));
                            }
                            units.push(Unit::Sq(String::new()));
                            prev_quoting = false;
                        } else {
                            prev_quoting = true;
                        }
                        continue;
                    }
                    prev_quoting = false;
                    if c.is_quoted || c.value == '\'' || c.value == '"' {
                        if !cur.is_empty() {
                            units.push(Unit::Var(std::mem::take(&mut cur)));
                        }
                        if c.value == '\'' || c.value == '"' || (c.value == '\\' && trng.chance(2, 3)) {
                            units.push(Unit::Bs(c.value))
                        } else {
                            units.push(Unit::Sq(c.value.to_string()))
                        }
                    } else {
                        cur.push(c.value);
                    }
                }
                if !cur.is_empty() {
                    units.push(Unit::Var(cur));
                }
                units
            } else {
                gen_units(&mut trng)
            };
            cx.shell("random-shell", &tree, noglob, &units);
        }
    }

    cx.cwd = String::new();
    cx.w.finish("a case is non-trivial when the result is not the field itself (at least one pathname was found); distinct by (tree, noglob, field)");
}
